package main

import (
	"fmt"
	"math/rand"
	"strings"
)

// Text-level random program generator (structure coverage for C01/C03/C08/C16; it carries no oracle:
// programs with an oracle come from the TLA+ side, spec/Lang*.tla).

type srcGen struct {
	r        *rand.Rand
	inLoop   int
	inFunc   int
	families bool // emit family dice letters
	stmts    bool
}

var genNames = []string{"x", "y", "z", "vv", "ww", "nn", "arr", "dct", "i", "j", "力量", "t1", "_u"}
var genFuncs = []string{"fnA", "fnB", "g1"}

func (g *srcGen) pick(xs ...string) string { return xs[g.r.Intn(len(xs))] }
func (g *srcGen) name() string             { return genNames[g.r.Intn(len(genNames))] }
func (g *srcGen) sp() string               { return g.pick("", "", " ", " ", "  ") }

func (g *srcGen) number() string {
	switch g.r.Intn(6) {
	case 0:
		return "0"
	case 1:
		return fmt.Sprint(g.r.Intn(3))
	case 2:
		return fmt.Sprint(g.r.Intn(100))
	case 3:
		return g.pick("1.5", "0.25", ".5", "2.0")
	default:
		return fmt.Sprint(1 + g.r.Intn(9))
	}
}

func (g *srcGen) str(d int) string {
	body := g.pick("", "a", "ab c", "x\\ny", "it\\'s", "q\\\"q", "{", "}", "中文", "a\\\\b", "%", "1")
	switch g.r.Intn(5) {
	case 0:
		return "\"" + strings.ReplaceAll(body, "'", "") + "\""
	case 1:
		if d > 0 {
			hole := g.expr(d - 1)
			if g.r.Intn(3) == 0 && g.stmts {
				hole = g.stmtList(d-1, 2)
			}
			if g.inLoop > 0 && g.r.Intn(3) == 0 {
				hole = g.pick("break", "continue", "if "+g.expr(d-1)+" { break }", "if "+g.expr(d-1)+" { continue }; "+g.expr(d-1))
			}
			open, cl := "{", "}"
			if g.r.Intn(3) == 0 {
				open, cl = "{%", "%}"
			}
			return "`" + g.pick("", "v=", "a ") + open + g.sp() + hole + cl + g.pick("", " tail", "!") + "`"
		}
		return "`plain`"
	case 2:
		if d > 0 {
			return "\x1e" + g.pick("", "p:") + "{" + g.expr(d-1) + "}\x1e"
		}
		return "\x1ex\x1e"
	default:
		return "'" + body + "'"
	}
}

func (g *srcGen) dice(d int) string {
	nos := func() string {
		if d > 0 && g.r.Intn(5) == 0 {
			return "(" + g.expr(d-1) + ")"
		}
		return fmt.Sprint(1 + g.r.Intn(6))
	}
	mod := g.pick("", "", "k"+nos(), "q"+nos(), "kh"+nos(), "kl", "dh"+nos(), "dl"+nos(), "kh", "k")
	cl := g.pick("", "", "", "min"+nos(), "max"+nos())
	switch g.r.Intn(12) {
	case 0:
		return "d" + nos() + mod + cl
	case 1:
		return nos() + "d" + mod
	case 2:
		return "d" + g.pick("", "优势", "劣势")
	case 3:
		return "d" + nos() + g.pick("优势", "劣势")
	case 4:
		return nos() + "d" + nos() + "d" + nos() // chained
	case 5, 6:
		if g.families {
			return g.pick("f", "b", "p", "b"+nos(), "p"+nos(), nos()+"a"+nos(), nos()+"a"+nos()+"m"+nos()+"k"+nos(), "a"+nos()+"q"+nos(), nos()+"c"+nos(), nos()+"c"+nos()+"m"+nos())
		}
	}
	return nos() + "d" + nos() + mod + cl
}

func (g *srcGen) atom(d int) string {
	switch g.r.Intn(16) {
	case 0, 1, 2:
		return g.number()
	case 3, 4:
		return g.name()
	case 5:
		return g.str(d)
	case 6:
		return g.pick("true", "false", "null")
	case 7:
		return g.dice(d)
	case 8:
		return "&" + g.name()
	case 9:
		if g.inFunc > 0 || g.r.Intn(4) == 0 {
			return "this." + g.name()
		}
		return g.name()
	case 10:
		if d > 0 {
			n := g.r.Intn(4)
			var xs []string
			for i := 0; i < n; i++ {
				xs = append(xs, g.expr(d-1))
			}
			s := "[" + strings.Join(xs, ","+g.sp()) + "]"
			if n > 0 && g.r.Intn(5) == 0 {
				s += g.pick("kh", "kl", "kh2", "kl1")
			}
			return s
		}
		return "[]"
	case 11:
		if d > 0 {
			return "[" + g.expr(d-1) + ".." + g.expr(d-1) + "]"
		}
		return "[1..3]"
	case 12:
		if d > 0 {
			n := g.r.Intn(3)
			var xs []string
			for i := 0; i < n; i++ {
				k := g.pick("'a'", "'b'", "k1", "1", "'c'")
				xs = append(xs, k+":"+g.sp()+g.expr(d-1))
			}
			return "{" + strings.Join(xs, ", ") + "}"
		}
		return "{}"
	case 13:
		if d > 0 {
			return "(" + g.expr(d-1) + ")"
		}
	case 14:
		if d > 0 {
			fn := g.pick(append([]string{"ceil", "floor", "round", "abs", "toInt", "toFloat", "toStr", "toBool", "repr", "typeId", "load", "loadRaw", "dir"}, genFuncs...)...)
			n := 1
			if g.r.Intn(6) == 0 {
				n = g.r.Intn(3)
			}
			var xs []string
			for i := 0; i < n; i++ {
				xs = append(xs, g.expr(d-1))
			}
			return fn + "(" + strings.Join(xs, ", ") + ")"
		}
	}
	return g.number()
}

func (g *srcGen) postfix(d int) string {
	s := g.atom(d)
	for k := 0; k < 2 && d > 0 && g.r.Intn(4) == 0; k++ {
		switch g.r.Intn(6) {
		case 0:
			s = "(" + s + ")" + "[" + g.expr(d-1) + "]"
		case 1:
			s = g.name() + "[" + g.expr(d-1) + "]"
		case 2:
			s = g.name() + "." + g.pick("len", "sum", "push", "pop", "shift", "keys", "values", "items", "kh", "kl", "rand", "shuffle", "randSize", "compute", "a", "x") + g.pick("()", "()", "(1)", "", "("+g.expr(d-1)+")")
		case 3:
			s = g.name() + "[" + g.pick("", g.expr(d-1)) + ":" + g.pick("", g.expr(d-1)) + "]"
		case 4:
			s = g.name() + "." + g.name()
		case 5:
			s = g.name() + "(" + g.pick("", g.expr(d-1), g.expr(d-1)+", "+g.expr(d-1)) + ")"
		}
	}
	return s
}

var binops = []string{"+", "-", "*", "/", "%", "^", "**", "??", "<", "<=", "==", "!=", ">=", ">", "&", "|", "&&", "||"}

func (g *srcGen) expr(d int) string {
	if d <= 0 {
		return g.atom(0)
	}
	switch g.r.Intn(14) {
	case 0, 1, 2, 3:
		return g.postfix(d)
	case 4, 5, 6, 7:
		op := binops[g.r.Intn(len(binops))]
		sp := g.pick("", " ")
		if op == "&&" || op == "&" {
			sp = " "
		}
		return g.expr(d-1) + sp + op + sp + g.expr(d-1)
	case 8:
		return g.pick("-", "+") + g.postfix(d-1)
	case 9:
		return g.expr(d-1) + " ? " + g.expr(d-1) + " : " + g.expr(d-1)
	case 10:
		n := 1 + g.r.Intn(3)
		var xs []string
		for i := 0; i < n; i++ {
			xs = append(xs, g.expr(d-1)+" ? "+g.expr(d-1))
		}
		return strings.Join(xs, ", ")
	case 11:
		return g.assign(d)
	case 12:
		return g.expr(d-1) + " || " + g.expr(d-1) + " || " + g.expr(d-1)
	default:
		return g.postfix(d)
	}
}

func (g *srcGen) assign(d int) string {
	rhs := g.expr(d - 1)
	switch g.r.Intn(9) {
	case 0, 1, 2:
		return g.name() + g.sp() + "=" + g.sp() + rhs
	case 3:
		return "&" + g.name() + " = " + rhs
	case 4:
		return "&" + g.name() + "." + g.name() + " = " + rhs
	case 5:
		return "this." + g.name() + " = " + rhs
	case 6:
		return g.name() + "." + g.name() + " = " + rhs
	case 7:
		return g.name() + "[" + g.expr(d-1) + "] = " + rhs
	default:
		return g.name() + "[" + g.pick("", "1", "0") + ":" + g.pick("", "2") + "] = " + rhs
	}
}

func (g *srcGen) block(d int) string {
	if g.r.Intn(8) == 0 {
		return "{ }"
	}
	return "{" + g.pick(" ", "\n  ") + g.stmtList(d, 3) + g.pick(" ", "\n") + "}"
}

func (g *srcGen) stmt(d int) string {
	if !g.stmts || d <= 0 {
		return g.expr(d)
	}
	switch g.r.Intn(14) {
	case 0, 1:
		s := "if " + g.expr(d-1) + " " + g.block(d-1)
		for g.r.Intn(3) == 0 {
			s += " else if " + g.expr(d-1) + " " + g.block(d-1)
		}
		if g.r.Intn(2) == 0 {
			s += " else " + g.block(d-1)
		}
		return s
	case 2, 3:
		g.inLoop++
		cond := g.pick(g.name()+" < "+fmt.Sprint(1+g.r.Intn(4)), g.expr(d-1), "i < 3", "0")
		s := "while " + cond + " " + g.block(d-1)
		g.inLoop--
		return s
	case 4:
		if g.inLoop > 0 {
			return g.pick("break", "continue")
		}
	case 5:
		if g.inLoop > 0 {
			return "if " + g.expr(d-1) + " { " + g.pick("break", "continue") + " }"
		}
	case 6:
		g.inFunc++
		ps := g.pick("", "n", "n, m", "x")
		s := "func " + g.pick(genFuncs...) + "(" + ps + ") " + g.block(d-1)
		g.inFunc--
		return s
	case 7:
		if g.inFunc > 0 || g.r.Intn(5) == 0 {
			return "return " + g.pick("", g.expr(d-1))
		}
	case 8:
		return "// " + g.pick("note", "#EnableDice wod true", "#EnableDice coc false", "#EnableDice fate true", "#EnableDice doublecross true") + "\n" + g.expr(d-1)
	case 9:
		return g.pick("i", "j", "x") + " = " + g.pick("i", "j", "x") + " + 1"
	}
	return g.expr(d)
}

func (g *srcGen) stmtList(d, maxN int) string {
	n := 1 + g.r.Intn(maxN)
	var xs []string
	for i := 0; i < n; i++ {
		xs = append(xs, g.stmt(d))
	}
	sep := g.pick("; ", ";", "\n", " ;\n")
	return strings.Join(xs, sep)
}

func (g *srcGen) program(d int) string {
	return g.stmtList(d, 4)
}

// hand-written shapes that matter for well-formedness and that random generation rarely hits
var shapeFamilies = []string{
	"x = y = 1", "dct = {}; dct.k = dct['j'] = []", "e = {}; e.k = e['j'] = []", "arr = [1,2]; arr[0] = arr[1] = 5",
	"x || [1,2]", "vv || [1,2]", "0 || [] || {}", "x || y ? 1 : 2", "(x || y) ? [1] : {'a':1}", "1 ? 2 : 3 || 4",
	"i = 0; while i < 5 { i = i + 1; if i == 2 { continue }; x = i }; i",
	"i = 0; while i < 5 { i = i + 1; if i == 2 { break } }; i",
	"i = 0; while 1 { i = i + 1; if i > 3 { if i > 2 { break } } }; i",
	"i = 0; while i < 3 { i = i + 1; while 1 { break }; continue }",
	"func fnA(n) { if n { return 1 }; return 2 }; fnA(0)",
	"func fnA(n) { while 1 { return n } }; fnA(3)",
	"`a{ if 1 { 2 } }b`", "i = 0; while i < 5 { i = i + 1; `a{% if i > 2 { break } %}` }; i", "i = 0; while i < 30 { i = i + 1; `{% continue %}` }; i",
	"i = 0; while i < 4 { i = i + 1; `x{ if i == 2 { continue } }y{% break %}` }", "while x { if y { `{% if z { break } %}` } }", "while x { `{`{% continue %}`}` }", "`{% i = 0; while i < 2 { i = i + 1 } %}`", "`{x}{y}{ `in{z}` }`",
	"x = 1; &y = x + d6; y", "&y = this.x + 1; &y.x = 5; y", "x ? 1, y ? 2, 1 ? 3",
	"[1,2,3][0:2]", "arr = [1,2,3]; arr[0:1] = [9]; arr", "[2d6, 3]kh", "[1,2,3].kh(2)",
	"^st力量60敏捷70", "^st 力量:60 敏捷=70", "^st力量+1d4", "^st 力量-=2, 敏捷+=3", "^st&手枪=1d6", "^st 属性*1.5:4", "^st 属性*:4", "^st'a b':3",
	"2d6k1 + d20优势 + 3d6min2", "d + 2d", "(2d3)d4", "2d4d6", "f + b2 - p1", "3a8m10k5", "4c6m10", "1a0q3",
	"if 1 { 2 } else if 0 { 3 } else { 4 }", "if x { }", "while 0 { }", "return 5", "return", "break", "func fnA() { }; fnA()",
}

func init() {
	subcmds["gen"] = func(args []string) int {
		fs := newFlags("gen")
		out := fs.String("out", "", "ndjson of {src}")
		n := fs.Int("n", 500, "programs")
		depth := fs.Int("depth", 3, "depth")
		fs.Parse(args)
		g := &srcGen{r: rand.New(rand.NewSource(envSeed())), families: true, stmts: true}
		w := newNDWriter(*out)
		defer w.Close()
		for _, s := range shapeFamilies {
			w.Write(map[string]any{"src": s})
		}
		for i := 0; i < *n; i++ {
			g.families = i%3 != 0
			g.stmts = i%5 != 0
			w.Write(map[string]any{"src": g.program(1 + g.r.Intn(*depth))})
		}
		emitSummary(map[string]any{"programs": w.n})
		return 0
	}

	// valid program + separator + a construct that breaks off (every cut point of a second program)
	subcmds["gen-tails"] = func(args []string) int {
		fs := newFlags("gen-tails")
		out := fs.String("out", "", "ndjson of {src, head, tail}")
		n := fs.Int("n", 300, "heads")
		fs.Parse(args)
		g := &srcGen{r: rand.New(rand.NewSource(envSeed() + 77)), families: true, stmts: true}
		w := newNDWriter(*out)
		defer w.Close()
		heads := []string{"5", "x", "2d6", "1+2", "[1,2]", "'s'", "x = 3", "fnA(1)", "arr[0]", "d20优势", "3a8", "f"}
		breakers := []string{"{'a':1", "{'a':", "fnA(1,", "fnA(", "[1,2", "[1..", "x[", "x[1:", "`a{", "`a{x", "`a{% if 1 {", "if 1 {", "if 1 { 2 } else {",
			"while 1 {", "while x { break", "func fnB(n) {", "1 ? 2 :", "1 ? 2, 3 ?", "x ||", "x &&", "x ??", "(1+", "2d", "d", "3a", "2c", "b(", "&y =", "&y.x =", "this.", "x.y =", "x[0] =",
			"x = ", "-", "1 +", "1 *", "'abc", "\"abc", "\x1eabc", "return", "break", "// #EnableDice wod", "^st力量", "x.len(", "[1,2]kh(", "1 <", "1 ==", "x = y ="}
		seps := []string{";", "\n", " ", "; ", "\n\n", ""}
		for i := 0; i < *n; i++ {
			head := heads[g.r.Intn(len(heads))]
			if g.r.Intn(2) == 0 {
				head = g.program(1 + g.r.Intn(2))
			}
			var tail string
			if g.r.Intn(2) == 0 {
				tail = breakers[g.r.Intn(len(breakers))]
			} else {
				q := g.program(1 + g.r.Intn(3))
				rs := []rune(q)
				if len(rs) > 1 {
					tail = string(rs[:1+g.r.Intn(len(rs)-1)])
				}
			}
			sep := seps[g.r.Intn(len(seps))]
			w.Write(map[string]any{"src": head + sep + tail, "head": head, "tail": tail})
		}
		for _, h := range heads {
			for _, b := range breakers {
				for _, sp := range []string{";", "\n", " "} {
					w.Write(map[string]any{"src": h + sp + b, "head": h, "tail": b})
				}
			}
		}
		emitSummary(map[string]any{"programs": w.n})
		return 0
	}
}
