package main

import (
	"encoding/json"
	"fmt"
	"strings"

	ds "github.com/sealdice/dicescript"
)

// C08: listings of the real compiler's output for spec/ByteVM.tla.

type instrJ struct {
	Op    string `json:"op"`
	N     int64  `json:"n"`
	NilOp bool   `json:"nilop"`
	Body  int    `json:"body"` // global index (1-based) of the nested program, 0 if none
}

type progJ struct {
	Pid    int      `json:"pid"`
	Src    int      `json:"src"` // index of the input
	Kind   string   `json:"kind"`
	Parent int      `json:"parent"`
	Code   []instrJ `json:"code"`
}

func operandInt(v any) (int64, bool) {
	switch x := v.(type) {
	case ds.IntType:
		return int64(x), true
	case int:
		return int64(x), true
	case int64:
		return x, true
	}
	return 0, false
}

func flatten(list []ds.VerifInstr, kind string, src, parent int, out *[]progJ) int {
	pid := len(*out) + 1
	*out = append(*out, progJ{Pid: pid, Src: src, Kind: kind, Parent: parent})
	code := make([]instrJ, 0, len(list))
	for _, in := range list {
		j := instrJ{Op: in.Op}
		if n, ok := operandInt(in.Operand); ok {
			j.N = n
		} else if in.Operand == nil {
			j.NilOp = true
		}
		if in.Body != nil {
			j.Body = flatten(in.Body, in.BodyKind, src, pid, out)
		}
		code = append(code, j)
	}
	(*out)[pid-1].Code = code
	return pid
}

type cfgJ struct {
	WoD, CoC, Fate, DC     bool
	NoStmts, NoNDice, NoBw bool
	IgnoreDiv0             bool
	Mode                   int
	DefExpr                string
	OpLimit                int64
}

func (c cfgJ) apply(vm *ds.Context) {
	vm.Config.EnableDiceWoD, vm.Config.EnableDiceCoC, vm.Config.EnableDiceFate, vm.Config.EnableDiceDoubleCross = c.WoD, c.CoC, c.Fate, c.DC
	vm.Config.DisableStmts, vm.Config.DisableNDice, vm.Config.DisableBitwiseOp = c.NoStmts, c.NoNDice, c.NoBw
	vm.Config.IgnoreDiv0 = c.IgnoreDiv0
	vm.Config.DiceMinMode, vm.Config.DiceMaxMode = c.Mode == -1, c.Mode == 1
	vm.Config.DefaultDiceSideExpr = c.DefExpr
	vm.Config.OpCountLimit = ds.IntType(c.OpLimit)
}

var dumpCfgs = []cfgJ{
	{WoD: true, CoC: true, Fate: true, DC: true},
	{},
	{WoD: true, CoC: true, Fate: true, DC: true, NoStmts: true, NoNDice: true, NoBw: true},
}

func init() {
	subcmds["code-dump"] = func(args []string) int {
		fs := newFlags("code-dump")
		in := fs.String("in", "", "inputs ndjson {src}")
		out := fs.String("out", "", "programs ndjson")
		idx := fs.String("index", "", "accepted inputs ndjson {id, src, cfg}")
		fs.Parse(args)
		w := newNDWriter(*out)
		defer w.Close()
		wi := newNDWriter(*idx)
		defer wi.Close()
		var progs []progJ
		nin, acc, panics := 0, 0, 0
		seen := map[string]bool{}
		readND(*in, func(line []byte) {
			var rec struct {
				Src string `json:"src"`
			}
			if json.Unmarshal(line, &rec) != nil {
				return
			}
			nin++
			for ci, c := range dumpCfgs {
				func() {
					defer func() {
						if r := recover(); r != nil {
							panics++
						}
					}()
					vm := ds.NewVM()
					c.apply(vm)
					if err := vm.Parse(rec.Src); err != nil {
						return
					}
					listing := vm.VerifCode()
					// identical listings under different flag sets need not be explored twice
					key := fmt.Sprint(listingKey(listing))
					if seen[rec.Src+"\x00"+key] {
						return
					}
					seen[rec.Src+"\x00"+key] = true
					acc++
					first := len(progs) + 1
					flatten(listing, "main", acc, 0, &progs)
					wi.Write(map[string]any{"id": acc, "src": rec.Src, "cfg": ci, "first": first, "last": len(progs)})
				}()
			}
		})
		for _, p := range progs {
			w.Write(p)
		}
		emitSummary(map[string]any{"inputs": nin, "accepted": acc, "programs": len(progs), "parse_panics": panics})
		return 0
	}
}

func listingKey(l []ds.VerifInstr) string {
	var sb strings.Builder
	for _, in := range l {
		sb.WriteString(in.Op)
		if n, ok := operandInt(in.Operand); ok {
			fmt.Fprintf(&sb, " %d", n)
		} else if s, ok := in.Operand.(string); ok {
			sb.WriteString(" " + s)
		}
		if in.Body != nil {
			sb.WriteString("{" + listingKey(in.Body) + "}")
		}
		sb.WriteString(";")
	}
	return sb.String()
}
