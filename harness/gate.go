package main

import (
	"encoding/json"
	"fmt"
	"math/rand"
	"regexp"
	"sort"
	"strings"

	ds "github.com/sealdice/dicescript"
)

// C16: configuration flags gate what an input can do.

type gateCfg struct {
	Coc         bool `json:"coc"`
	Wod         bool `json:"wod"`
	Fate        bool `json:"fate"`
	Doublecross bool `json:"doublecross"`
	NoStmts     bool `json:"noStmts"`
	NoNDice     bool `json:"noNDice"`
	NoBit       bool `json:"noBit"`
}

func gateCfgOf(i int) gateCfg {
	return gateCfg{i&1 != 0, i&2 != 0, i&4 != 0, i&8 != 0, i&16 != 0, i&32 != 0, i&64 != 0}
}

func (c gateCfg) apply(vm *ds.Context) {
	vm.Config.EnableDiceCoC, vm.Config.EnableDiceWoD, vm.Config.EnableDiceFate, vm.Config.EnableDiceDoubleCross = c.Coc, c.Wod, c.Fate, c.Doublecross
	vm.Config.DisableStmts, vm.Config.DisableNDice, vm.Config.DisableBitwiseOp = c.NoStmts, c.NoNDice, c.NoBit
}

func gateCfgRead(c *ds.RollConfig) gateCfg {
	return gateCfg{c.EnableDiceCoC, c.EnableDiceWoD, c.EnableDiceFate, c.EnableDiceDoubleCross, c.DisableStmts, c.DisableNDice, c.DisableBitwiseOp}
}

// class of a gated instruction, "" if the instruction is not gated
func gateClass(op string, operand any) string {
	switch {
	case strings.HasPrefix(op, "coc."):
		return "coc"
	case strings.HasPrefix(op, "wod.") || op == "dice.wod":
		return "wod"
	case strings.HasPrefix(op, "dc.") || op == "dice.dc":
		return "doublecross"
	case op == "dice.fate":
		return "fate"
	case op == "push.def_expr":
		return "ndice"
	case op == "push.func":
		return "func"
	case op == "block.push":
		return "block"
	case op == "|" || op == "&":
		return "bit"
	case op == "jmp":
		if n, ok := operandInt(operand); ok && n < 0 {
			return "loop"
		}
	}
	return ""
}

// the value of the flag that gates a class in a given configuration
func gateOpen(class string, c gateCfg) bool {
	switch class {
	case "coc":
		return c.Coc
	case "wod":
		return c.Wod
	case "fate":
		return c.Fate
	case "doublecross":
		return c.Doublecross
	case "ndice":
		return !c.NoNDice
	case "func", "block", "loop":
		return !c.NoStmts
	case "bit":
		return !c.NoBit
	}
	return true
}

var reMacroOn = regexp.MustCompile(`#EnableDice[ \t]+(wod|coc|fate|doublecross)[ \t]+true`)
var reIdentLike = regexp.MustCompile(`^[a-zA-Z_][a-zA-Z0-9_]*$`)
var gateKeywords = map[string]bool{"while": true, "if": true, "else": true, "continue": true, "break": true, "return": true, "func": true, "true": true, "false": true, "null": true, "this": true, "global": true}
var reClaimCoc = regexp.MustCompile(`^[bBpP][0-9]*$`)
var reClaimFate = regexp.MustCompile(`^[fF]$`)
var reClaimWod = regexp.MustCompile(`^[aA][0-9]+([mMkKqQ][0-9]+)*$`)
var reClaimD = regexp.MustCompile(`^[dD][0-9]`)
var reClaimNDice = regexp.MustCompile(`^[dD]$`)

// which switch may claim an identifier-shaped spelling: a family, "ndice", "always" (a dice term under every configuration) or "none"
func gateClaim(s string) string {
	switch {
	case reClaimCoc.MatchString(s):
		return "coc"
	case reClaimFate.MatchString(s):
		return "fate"
	case reClaimWod.MatchString(s):
		return "wod"
	case reClaimNDice.MatchString(s):
		return "ndice"
	case reClaimD.MatchString(s):
		return "always"
	}
	return "none"
}

func sortedSet(m map[string]bool) []string {
	out := []string{}
	for k := range m {
		out = append(out, k)
	}
	sort.Strings(out)
	return out
}

func listingClasses(l []ds.VerifInstr, into map[string]bool) {
	for _, in := range l {
		if c := gateClass(in.Op, in.Operand); c != "" {
			into[c] = true
		}
		if in.Body != nil {
			listingClasses(in.Body, into)
		}
	}
}

type gateObs struct {
	Ev          string           `json:"ev"`
	Cfg         gateCfg          `json:"cfg"`
	CfgAfter    gateCfg          `json:"cfgAfter"`
	MacroOn     []string         `json:"macroOn"`
	Prior       []string         `json:"prior"`
	Emis        []map[string]any `json:"emis"`
	Listing     []string         `json:"listing"`
	Executed    []string         `json:"executed"`
	HasPred     bool             `json:"hasPred"`
	Pred        []string         `json:"pred"`
	Obs         []string         `json:"obs"`
	Err         bool             `json:"err"`
	Panic       bool             `json:"panic"`
	HasLazy     bool             `json:"hasLazy"`  // the input evaluates lazily compiled text whose outcome the specification predicts
	LazyPred    []string         `json:"lazyPred"` // families it predicts to be compiled there
	LazyObs     []string         `json:"lazyObs"`  // families executed in nested VMs
	IdentLike   bool             `json:"identLike"`
	Claim       string           `json:"claim"`
	IdentLoaded bool             `json:"identLoaded"`
	Count       int              `json:"count"`
	Example     string           `json:"example"`
	ErrText     string           `json:"errtext"`
}

// gateObserve runs text on vm (already configured as cfg) and records everything the gate specification talks about
func gateObserve(vm *ds.Context, cfg gateCfg, text string, prior map[string]bool) *gateObs {
	o := &gateObs{Ev: "gate", Cfg: cfg, MacroOn: []string{}, Pred: []string{}, Obs: []string{}, LazyPred: []string{}, LazyObs: []string{}, Example: text, Count: 1}
	mo := map[string]bool{}
	for _, m := range reMacroOn.FindAllStringSubmatch(text, -1) {
		mo[m[1]] = true
	}
	o.MacroOn = sortedSet(mo)
	o.Prior = sortedSet(prior)
	emis := map[string]bool{}
	ds.VerifEmitHook = func(codeIndex int, op string, c *ds.RollConfig, off int) {
		if cl := gateClass(op, nil); cl != "" {
			on := gateOpen(cl, gateCfgRead(c))
			emis[fmt.Sprintf("%s/%v", cl, on)] = true
		}
	}
	exec := map[string]bool{}
	nested := map[string]bool{}
	ds.VerifStepHook = func(info *ds.VerifStepInfo) {
		if cl := gateClass(info.Op, info.Operand); cl != "" {
			exec[cl] = true
			if info.Depth > 0 {
				nested[cl] = true
			}
		}
	}
	var err, rerr error
	var listing []ds.VerifInstr
	rest := ""
	g := guard("Run", func() {
		if strings.HasPrefix(text, "RunExpr:") {
			_, rerr = vm.RunExpr(strings.TrimPrefix(text, "RunExpr:"), true)
			return
		}
		if err = vm.Parse(text); err == nil {
			listing = vm.VerifCode()
			if off := vm.VerifParserOffset(); off >= 0 && off <= len(text) {
				rest = text[off:]
			}
			rerr = vm.RunAfterParsed()
		}
	})
	_ = rerr
	ds.VerifEmitHook, ds.VerifStepHook = nil, nil
	o.Panic = g.Panic
	o.Err = err != nil
	if err != nil {
		o.ErrText = err.Error()
	}
	o.CfgAfter = gateCfgRead(&vm.Config)
	for _, k := range sortedSet(emis) {
		p := strings.Split(k, "/")
		o.Emis = append(o.Emis, map[string]any{"c": p[0], "on": p[1] == "true"})
	}
	if o.Emis == nil {
		o.Emis = []map[string]any{}
	}
	o.Executed = sortedSet(exec)
	for _, c := range sortedSet(nested) {
		if c == "coc" || c == "wod" || c == "fate" || c == "doublecross" {
			o.LazyObs = append(o.LazyObs, c)
		}
	}
	lc := map[string]bool{}
	// after a parse error the VM still holds the code of an earlier input: nothing was compiled for this one
	listingClasses(listing, lc)
	o.Listing = sortedSet(lc)
	// the sequence of gated things in the main code, in order
	if err == nil || listing != nil {
		for _, in := range listing {
			switch cl := gateClass(in.Op, in.Operand); cl {
			case "coc", "fate":
				o.Obs = append(o.Obs, "dice:"+cl)
			case "wod":
				if in.Op == "dice.wod" {
					o.Obs = append(o.Obs, "dice:wod")
				}
			case "doublecross":
				if in.Op == "dice.dc" {
					o.Obs = append(o.Obs, "dice:doublecross")
				}
			case "ndice":
				o.Obs = append(o.Obs, "dice:ndice")
			case "func":
				o.Obs = append(o.Obs, "stmt:func")
			case "block":
				o.Obs = append(o.Obs, "stmt:block")
			case "loop":
				o.Obs = append(o.Obs, "loop")
			case "bit":
				o.Obs = append(o.Obs, "op")
			default:
				if strings.HasPrefix(in.Op, "ld") {
					if n, ok := in.Operand.(string); ok {
						o.Obs = append(o.Obs, "ident:"+n)
					}
				}
			}
		}
	}
	if err != nil {
		o.Obs = []string{"error"}
	} else if strings.TrimSpace(rest) != "" {
		o.Obs = append(o.Obs, "stop")
	}
	t := strings.TrimSpace(text)
	if reIdentLike.MatchString(t) && !gateKeywords[t] {
		o.IdentLike, o.Claim = true, gateClaim(t)
		o.IdentLoaded = err == nil && strings.TrimSpace(rest) == "" && len(o.Obs) == 1 && o.Obs[0] == "ident:"+t
	}
	return o
}

// signature: everything the specification looks at (not the text itself)
func (o *gateObs) sig() string {
	c := *o
	c.Example, c.Count, c.ErrText = "", 0, ""
	if !c.HasPred {
		c.Obs, c.Pred = nil, nil
	}
	b, _ := json.Marshal(c)
	return string(b)
}

type gateAgg struct {
	m     map[string]*gateObs
	order []string
	total int
}

func (a *gateAgg) add(o *gateObs) {
	if a.m == nil {
		a.m = map[string]*gateObs{}
	}
	a.total++
	k := o.sig()
	if old, ok := a.m[k]; ok {
		old.Count++
		return
	}
	a.m[k] = o
	a.order = append(a.order, k)
}

func (a *gateAgg) flush(w *ndWriter) {
	for _, k := range a.order {
		o := a.m[k]
		if !o.HasPred {
			o.Obs, o.Pred = []string{}, []string{}
		}
		w.Write(o)
	}
}

// text of one plan item and what the specification says becomes of it
func gateItem(it map[string]any) (text string, pred []string) {
	as, _ := it["as"].(string)
	s, _ := it["s"].(string)
	f, _ := it["f"].(string)
	inner := func(kind string) (string, []string) {
		switch kind {
		case "use":
			switch as {
			case "dice":
				return s, []string{"dice:" + f}
			case "ident":
				return s, []string{"ident:" + s}
			}
			return s, []string{"stop"}
		case "ndice":
			switch as {
			case "dice":
				return s, []string{"dice:ndice"}
			case "ident":
				return s, []string{"ident:" + s}
			}
			return s, []string{"stop"}
		case "bit":
			if as == "op" {
				return "1 | 2", []string{"op"}
			}
			return "1 | 2", []string{"stop"}
		}
		return "", nil
	}
	switch it["t"] {
	case "lazy":
		return "cv_" + s, []string{"ident:cv_" + s}
	case "runexpr":
		return "RunExpr:" + s, nil
	case "macro":
		return fmt.Sprintf("// #EnableDice %s %v", f, it["on"]), nil
	case "stmt":
		k, _ := it["kind"].(string)
		src := map[string]string{"if": "if 1 { 2 }", "while": "while 0 { 1 }", "func": "func g1(x) { x }"}[k]
		if as == "error" {
			return src, []string{"error"}
		}
		return src, map[string][]string{"if": {"stmt:block"}, "while": {"stmt:block", "loop"}, "func": {"stmt:func"}}[k]
	case "st":
		k, _ := it["inner"].(string)
		t, p := inner(k)
		if it["paren"] == true {
			t = "(" + t + ")"
		}
		// text an st value does not take is read as further assignments (3a10 = 3, then a:10): only what is compiled is predicted
		if len(p) == 1 && (p[0] == "stop" || strings.HasPrefix(p[0], "ident:")) {
			p = nil
		}
		return "^st力量=" + t, p
	default:
		k, _ := it["t"].(string)
		return inner(k)
	}
}

func init() {
	// replay of behaviours of spec/Gate.tla written by TLC (GateMC): every input of every history
	subcmds["gate-replay"] = func(args []string) int {
		fs := newFlags("gate-replay")
		in := fs.String("in", "", "plans ndjson")
		out := fs.String("out", "", "events ndjson")
		shard := fs.String("shard", "0/1", "i/n: handle plans whose index is i modulo n")
		fs.Parse(args)
		var si, sn int
		fmt.Sscanf(*shard, "%d/%d", &si, &sn)
		w := newNDWriter(*out)
		defer w.Close()
		agg := &gateAgg{}
		plans, lineNo := 0, -1
		readND(*in, func(line []byte) {
			lineNo++
			if lineNo%sn != si {
				return
			}
			var pl struct {
				Cfg  gateCfg            `json:"cfg"`
				Runs [][]map[string]any `json:"runs"`
			}
			if err := json.Unmarshal(line, &pl); err != nil {
				fatal("bad plan: %v", err)
			}
			plans++
			vm := ds.NewVM()
			pl.Cfg.apply(vm)
			vm.Config.OpCountLimit = 5000
			// host-created computed values whose text is a family spelling: compiled when first evaluated
			for _, sp := range []string{"b2", "p", "B", "P3", "a10", "f", "F"} {
				vm.StoreNameLocal("cv_"+sp, ds.NewComputedVal(sp))
			}
			// nothing in these histories defines code under a macro that a later input could legitimately run
			prior := map[string]bool{}
			for _, run := range pl.Runs {
				lines := []string{}
				pred := []string{}
				lazy := map[string]bool{}
				st, hasLazy, runexpr := false, false, false
				for _, it := range run {
					t, p := gateItem(it)
					lines = append(lines, t)
					pred = append(pred, p...)
					st = st || it["t"] == "st"
					if it["t"] == "lazy" || it["t"] == "runexpr" {
						hasLazy = true
						runexpr = runexpr || it["t"] == "runexpr"
						if it["as"] == "dice" {
							lazy[it["f"].(string)] = true
						}
					}
				}
				for _, x := range pred {
					if x == "error" { // the input is rejected as a whole
						pred = []string{"error"}
					}
				}
				text := strings.Join(lines, "\n")
				if !st && !runexpr {
					text = "0\n" + text
				}
				o := gateObserve(vm, pl.Cfg, text, prior)
				o.HasPred, o.Pred = !runexpr, pred
				stopped := len(o.Obs) > 0 && (o.Obs[len(o.Obs)-1] == "stop" || o.Obs[0] == "error")
				if hasLazy && !stopped && !o.Err {
					o.HasLazy, o.LazyPred = true, sortedSet(lazy)
				}
				if st {
					kept := []string{}
					for _, x := range o.Obs {
						if strings.HasPrefix(x, "dice:") || x == "op" {
							kept = append(kept, x)
						}
					}
					o.Obs = kept
				}
				agg.add(o)
			}
		})
		agg.flush(w)
		emitSummary(map[string]any{"plans": plans, "inputs": agg.total, "signatures": len(agg.order)})
		return 0
	}

	// the spellings space: every string up to a length over the alphabet around the family letters, under every flag set
	subcmds["gate-spell"] = func(args []string) int {
		fs := newFlags("gate-spell")
		out := fs.String("out", "", "events ndjson")
		maxLen := fs.Int("len", 3, "maximal length")
		alpha := fs.String("alphabet", "abcfpdkqm120()+ ", "alphabet")
		shard := fs.String("shard", "0/1", "i/n: handle flag sets whose index is i modulo n")
		fs.Parse(args)
		var si, sn int
		fmt.Sscanf(*shard, "%d/%d", &si, &sn)
		w := newNDWriter(*out)
		defer w.Close()
		agg := &gateAgg{}
		letters := []rune(*alpha)
		var spell []string
		var rec func(prefix string, n int)
		rec = func(prefix string, n int) {
			if n == 0 {
				return
			}
			for _, c := range letters {
				s := prefix + string(c)
				spell = append(spell, s)
				rec(s, n-1)
			}
		}
		rec("", *maxLen)
		for ci := si; ci < 128; ci += sn {
			cfg := gateCfgOf(ci)
			vm := ds.NewVM()
			cfg.apply(vm)
			vm.Config.OpCountLimit = 3000
			for _, s := range spell {
				agg.add(gateObserve(vm, cfg, s, nil))
			}
		}
		agg.flush(w)
		emitSummary(map[string]any{"spellings": len(spell), "configs": 128, "inputs": agg.total, "signatures": len(agg.order)})
		return 0
	}

	// programs (corpus, generated, mutated around the family letters) under random flag sets, in histories that mix inputs with and without macros
	subcmds["gate-text"] = func(args []string) int {
		fs := newFlags("gate-text")
		in := fs.String("in", "", "inputs ndjson {src}")
		out := fs.String("out", "", "events ndjson")
		per := fs.Int("cfgs", 4, "flag sets per input")
		fs.Parse(args)
		w := newNDWriter(*out)
		defer w.Close()
		agg := &gateAgg{}
		r := rand.New(rand.NewSource(envSeed()))
		var srcs []string
		readND(*in, func(line []byte) {
			var rec struct {
				Src string `json:"src"`
			}
			if json.Unmarshal(line, &rec) == nil {
				srcs = append(srcs, rec.Src)
			}
		})
		fams := []string{"coc", "wod", "fate", "doublecross"}
		letters := []string{"a", "b", "c", "f", "p", "d", "A", "B", "C", "F", "P", "3a10", "2c5", "b2", "p1", "f", " ", "1", "2", "m", "k", "q"}
		mutate := func(s string) string {
			if len(s) == 0 {
				return letters[r.Intn(len(letters))]
			}
			rs := []rune(s)
			k := r.Intn(len(rs) + 1)
			ins := letters[r.Intn(len(letters))]
			if r.Intn(2) == 0 && k < len(rs) {
				return string(rs[:k]) + ins + string(rs[k+1:])
			}
			return string(rs[:k]) + ins + string(rs[k:])
		}
		for _, s := range srcs {
			for k := 0; k < *per; k++ {
				cfg := gateCfgOf(r.Intn(128))
				vm := ds.NewVM()
				cfg.apply(vm)
				vm.Config.OpCountLimit = 20000
				prior := map[string]bool{}
				// a history: the input (perhaps mutated, perhaps behind macros), then the plain input again
				hist := []string{}
				t := s
				if r.Intn(2) == 0 {
					t = mutate(t)
				}
				if r.Intn(3) == 0 {
					f := fams[r.Intn(4)]
					hist = append(hist, fmt.Sprintf("// #EnableDice %s %v\n%s", f, r.Intn(4) != 0, t))
				}
				hist = append(hist, t)
				if r.Intn(2) == 0 {
					hist = append(hist, mutate(s))
				}
				for _, h := range hist {
					o := gateObserve(vm, cfg, h, prior)
					agg.add(o)
					for _, m := range o.MacroOn {
						prior[m] = true
					}
				}
			}
		}
		agg.flush(w)
		emitSummary(map[string]any{"sources": len(srcs), "inputs": agg.total, "signatures": len(agg.order)})
		return 0
	}
}
