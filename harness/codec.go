package main

import (
	"encoding/json"
	"fmt"
	"os"
	"reflect"
	"runtime/debug"
	"strings"
	"sync"

	ds "github.com/sealdice/dicescript"
)

// C10: documents of spec/Codec.tla rendered to JSON, decoded by the real package, projected and put through a battery.

type docSpec struct {
	Tag   string    `json:"tag"`
	Shape string    `json:"shape"`
	Child []docSpec `json:"child"`
}

func renderTag(t string) (string, bool) {
	switch t {
	case "missing":
		return "", false
	case "string":
		return `"6"`, true
	case "null":
		return "null", true
	case "float":
		return "6.5", true
	case "neg":
		return "-1", true
	}
	return t, true
}

// payload with the keys the tag's decoder looks for
func rightKeys(tag, variant, child string) string {
	switch tag {
	case "5":
		switch variant {
		case "wrongtype":
			return `{"expr": 5, "attrs": 7}`
		case "null":
			return `{"expr": null, "attrs": null}`
		case "nullelem":
			return `{"expr": "1+1", "attrs": {"a": null}}`
		case "nested":
			return `{"expr": "this.a", "attrs": {"a": ` + child + `}}`
		case "unknownname":
			return `{"expr": "nosuch(", "attrs": {}}`
		}
		return `{"expr": "1+1"}`
	case "6":
		switch variant {
		case "wrongtype":
			return `{"list": 5}`
		case "null":
			return `{"list": null}`
		case "nullelem":
			return `{"list": [null, {"t":0,"v":1}]}`
		case "nested":
			return `{"list": [` + child + `]}`
		case "unknownname":
			return `{"list": [{"t":0,"v":1}], "extra": 1}`
		}
		return `{"list": [{"t":0,"v":1},{"t":2,"v":"s"}]}`
	case "7":
		switch variant {
		case "wrongtype":
			return `{"dict": []}`
		case "null":
			return `{"dict": null}`
		case "nullelem":
			return `{"dict": {"a": null}}`
		case "nested":
			return `{"dict": {"a": ` + child + `}}`
		case "unknownname":
			return `{"dict": {"": {"t":0,"v":1}}}`
		}
		return `{"dict": {"a": {"t":0,"v":1}}}`
	case "8":
		switch variant {
		case "wrongtype":
			return `{"expr": 5, "name": 7, "params": 9}`
		case "null":
			return `{"expr": null, "name": null, "params": null}`
		case "nullelem":
			return `{"expr": "n", "name": "f", "params": [null]}`
		case "nested":
			return `{"expr": "f(n)", "name": "f", "params": ["n"], "x": ` + child + `}`
		case "unknownname":
			return `{"expr": "return (", "name": "f", "params": []}`
		}
		return `{"expr": "n+1", "name": "f", "params": ["n"]}`
	case "9", "10":
		switch variant {
		case "wrongtype":
			return `{"name": 7}`
		case "null":
			return `{"name": null}`
		case "nullelem":
			return `{"name": ""}`
		case "nested":
			return `{"name": "ceil", "x": ` + child + `}`
		case "unknownname":
			return `{"name": "nosuchfunction"}`
		case "protoname":
			// the name of a method of a built-in type: those objects exist, but only as unbound templates
			return `{"name": "Array.sum"}`
		}
		return `{"name": "ceil"}`
	}
	// scalar and unknown tags: objects are simply wrong
	switch variant {
	case "nested":
		return `{"v": ` + child + `}`
	case "ok":
		switch tag {
		case "0":
			return "42"
		case "1":
			return "2.5"
		case "2":
			return `"text"`
		}
	}
	return `{"list": [], "dict": {}, "expr": "", "name": ""}`
}

func renderDoc(d docSpec) string {
	child := `{"t":0,"v":1}`
	if len(d.Child) > 0 {
		child = renderDoc(d.Child[0])
	}
	var parts []string
	if ts, ok := renderTag(d.Tag); ok {
		parts = append(parts, `"t": `+ts)
	}
	v, has := "", true
	switch d.Shape {
	case "absent":
		has = false
	case "null":
		v = "null"
	case "int":
		v = "3"
	case "flt":
		v = "1.5"
	case "str":
		v = `"s"`
	case "bool":
		v = "true"
	case "emptyarr":
		v = "[]"
	case "arrnull":
		v = "[null]"
	case "arrdoc":
		v = "[" + child + "]"
	case "emptyobj":
		v = "{}"
	case "wrongkeys":
		v = `{"zz": 1, "List": [], "DICT": {}}`
	case "huge":
		v = `1e400`
	default:
		v = rightKeys(d.Tag, strings.TrimPrefix(d.Shape, "right_"), child)
	}
	if has {
		parts = append(parts, `"v": `+v)
	}
	return "{" + strings.Join(parts, ", ") + "}"
}

type projJ struct {
	T        int     `json:"t"`
	Dyn      string  `json:"dyn"`
	Kids     []projJ `json:"kids"`
	Callable bool    `json:"callable"`
	NilKids  int     `json:"nilkids"`
}

func dynName(v any) string {
	if v == nil {
		return "nil"
	}
	switch v.(type) {
	case ds.IntType:
		return "int"
	case float64:
		return "float"
	case string:
		return "string"
	case *ds.ComputedData:
		return "computed"
	case *ds.ArrayData:
		return "array"
	case *ds.DictData:
		return "dict"
	case *ds.FunctionData:
		return "function"
	case *ds.NativeFunctionData:
		return "native"
	case *ds.NativeObjectData:
		return "nobject"
	}
	return reflect.TypeOf(v).String()
}

func projDecoded(v *ds.VMValue, depth int) projJ {
	p := projJ{T: int(v.TypeId), Dyn: dynName(v.Value), Kids: []projJ{}, Callable: true}
	if depth > 8 {
		return p
	}
	switch x := v.Value.(type) {
	case *ds.ArrayData:
		if x == nil {
			p.Dyn = "nil"
			break
		}
		for _, e := range x.List {
			if e == nil {
				p.NilKids++
			} else {
				p.Kids = append(p.Kids, projDecoded(e, depth+1))
			}
		}
	case *ds.DictData:
		if x == nil || x.Dict == nil {
			p.Dyn = "nil"
			break
		}
		x.Dict.Range(func(k string, e *ds.VMValue) bool {
			if e == nil {
				p.NilKids++
			} else {
				p.Kids = append(p.Kids, projDecoded(e, depth+1))
			}
			return true
		})
	case *ds.ComputedData:
		if x == nil {
			p.Dyn = "nil"
			break
		}
		if x.Attrs != nil {
			x.Attrs.Range(func(k string, e *ds.VMValue) bool {
				if e == nil {
					p.NilKids++
				} else {
					p.Kids = append(p.Kids, projDecoded(e, depth+1))
				}
				return true
			})
		}
	case *ds.NativeFunctionData:
		p.Callable = x != nil && x.NativeFunc != nil
	case *ds.FunctionData:
		if x == nil {
			p.Dyn = "nil"
		}
	case *ds.NativeObjectData:
		if x == nil {
			p.Dyn = "nil"
		}
	}
	return p
}

type batteryRes struct {
	Op    string `json:"op"`
	Panic bool   `json:"panic"`
	Msg   string `json:"msg"`
}

func guard(op string, f func()) (r batteryRes) {
	r.Op = op
	defer func() {
		if e := recover(); e != nil {
			r.Panic = true
			r.Msg = fmt.Sprint(e)
			if len(r.Msg) > 120 {
				r.Msg = r.Msg[:120]
			}
		}
	}()
	f()
	return
}

var batteryScripts = []string{"x", "x+1", "1+x", "x[0]", "x['a']", "x.a", "x()", "x(1)", "x.len()", "x==x", "x==1", "-x", "`{x}`", "[x]*2", "x.a=1; 1", "x[0]=1; 1",
	"x[0:1]", "x ? 1 : 2", "x && 1", "x || 1", "toStr(x)", "repr(x)", "typeId(x)", "dir(x)", "x.keys()", "x.sum()", "x.push(1)", "x.kh()", "x.compute()", "&x", "&x.a = 1; x", "toInt(x)", "abs(x)", "x ?? 1", "x[0][0]", "x.a.b"}

func battery(v *ds.VMValue) []batteryRes {
	all := batteryAll(v)
	out := []batteryRes{{Op: fmt.Sprintf("%d operations", len(all))}}
	for _, r := range all {
		if r.Panic {
			out = append(out, r)
		}
	}
	return out
}

func batteryAll(v *ds.VMValue) []batteryRes {
	var out []batteryRes
	out = append(out, guard("ToString", func() { _ = v.ToString() }))
	out = append(out, guard("ToRepr", func() { _ = v.ToRepr() }))
	out = append(out, guard("AsBool", func() { _ = v.AsBool() }))
	out = append(out, guard("ValueEqual(v,v)", func() { _ = ds.ValueEqual(v, v.Clone(), true) }))
	out = append(out, guard("ValueEqual(v,1)", func() { _ = ds.ValueEqual(v, ds.NewIntVal(1), true); _ = ds.ValueEqual(ds.NewIntVal(1), v, true) }))
	out = append(out, guard("ToJSON", func() { _, _ = v.ToJSON() }))
	out = append(out, guard("Clone", func() { _ = v.Clone().ToString() }))
	out = append(out, guard("GetTypeName", func() { _ = v.GetTypeName() }))
	for _, s := range batteryScripts {
		src := s
		out = append(out, guard("script "+src, func() {
			vm := ds.NewVM()
			vm.Config.OpCountLimit = 3000
			vm.Attrs.Store("x", v)
			if err := vm.Run(src); err == nil {
				_ = vm.Ret.ToString()
				_ = vm.GetDetailText()
			}
		}))
	}
	return out
}

func init() {
	subcmds["codec-exec"] = func(args []string) int {
		fs := newFlags("codec-exec")
		in := fs.String("in", "", "docs prefix (<prefix>.0, .1, .2) or ndjson of {json}")
		out := fs.String("out", "", "events ndjson")
		progress := fs.String("progress", "", "file receiving the document being processed (crash attribution; meaningful with -workers 1)")
		workers := fs.Int("workers", 12, "parallel workers")
		fs.Parse(args)
		debug.SetMaxStack(96 << 20)
		w := newNDWriter(*out)
		defer w.Close()
		n := 0
		type job struct {
			text string
			desc any
		}
		jobs := make(chan job, 256)
		results := make(chan []map[string]any, 256)
		var wg sync.WaitGroup
		work := func(text string, desc any) []map[string]any {
			if *progress != "" {
				_ = os.WriteFile(*progress, []byte(text), 0o644)
			}
			ev := map[string]any{"json": text, "doc": desc, "err": false, "decodePanic": false, "proj": projJ{Kids: []projJ{}}, "battery": []batteryRes{}, "via": "value"}
			var v *ds.VMValue
			var err error
			r := guard("decode", func() { v, err = ds.VMValueFromJSON([]byte(text)) })
			if r.Panic {
				ev["decodePanic"] = true
			} else if err != nil {
				ev["err"] = true
			} else {
				ev["proj"] = projDecoded(v, 0)
				ev["battery"] = battery(v)
			}
			// the same document as the value of a variable map
			ev2 := map[string]any{"json": `{"k": ` + text + `}`, "doc": desc, "err": false, "decodePanic": false, "proj": projJ{Kids: []projJ{}}, "battery": []batteryRes{}, "via": "map"}
			m := &ds.ValueMap{}
			var err2 error
			r2 := guard("decode", func() { err2 = json.Unmarshal([]byte(`{"k": `+text+`}`), m) })
			if r2.Panic {
				ev2["decodePanic"] = true
			} else if err2 != nil {
				ev2["err"] = true
			} else {
				var bt []batteryRes
				if kv, ok := m.Load("k"); ok && kv != nil {
					ev2["proj"] = projDecoded(kv, 0)
					bt = battery(kv)
				} else {
					ev2["proj"] = projJ{T: 4, Dyn: "nil", Kids: []projJ{}, Callable: true, NilKids: 1}
				}
				ev2["battery"] = append(bt, guard("map.ToJSON", func() { _, _ = m.ToJSON() }))
			}
			return []map[string]any{ev, ev2}
		}
		for i := 0; i < *workers; i++ {
			wg.Add(1)
			go func() {
				defer wg.Done()
				for j := range jobs {
					results <- work(j.text, j.desc)
				}
			}()
		}
		done := make(chan struct{})
		go func() {
			for evs := range results {
				for _, e := range evs {
					w.Write(e)
				}
			}
			close(done)
		}()
		handle := func(text string, desc any) {
			n++
			jobs <- job{text, desc}
		}
		if st, err := os.Stat(*in); err == nil && !st.IsDir() {
			readND(*in, func(line []byte) {
				var rec struct {
					JSON string `json:"json"`
				}
				if json.Unmarshal(line, &rec) == nil {
					handle(rec.JSON, rec.JSON)
				}
			})
		} else {
			for k := 0; k <= 2; k++ {
				f := fmt.Sprintf("%s.%d", *in, k)
				if _, err := os.Stat(f); err != nil {
					continue
				}
				readND(f, func(line []byte) {
					var d docSpec
					if err := json.Unmarshal(line, &d); err != nil {
						fatal("bad doc: %v", err)
					}
					handle(renderDoc(d), d)
				})
			}
		}
		close(jobs)
		wg.Wait()
		close(results)
		<-done
		jobs = nil
		emitSummary(map[string]any{"documents": n, "events": w.n})
		return 0
	}
}

func init() {
	// documents the encoder itself produces for script-built values, then damaged: a field deleted or nulled, a tag swapped,
	// the text truncated
	subcmds["codec-mutants"] = func(args []string) int {
		w := newNDWriter(args[0])
		defer w.Close()
		seen := map[string]bool{}
		add := func(s string) {
			if !seen[s] {
				seen[s] = true
				w.Write(map[string]any{"json": s})
			}
		}
		scripts := []string{"1", "1.5", "'s'", "null", "[1,'a',[2]]", "{'a':1,'b':[1,{'c':null}]}", "func g1(n) { n+1 }; g1", "&cv = this.a + 1; &cv.a = 5; &cv",
			"[1,2].kh", "ceil", "x = [1]; x.push(x[0]); x", "{'k': {'k': {'k': 1}}}", "[[],[[]],{}]", "toStr", "'😀力\\n'", "-0.25", "[1..5]"}
		var docs []string
		for _, s := range scripts {
			vm := ds.NewVM()
			if err := vm.Run(s); err != nil {
				continue
			}
			b, err := vm.Ret.ToJSON()
			if err != nil {
				continue
			}
			docs = append(docs, string(b))
			add(string(b))
		}
		for _, d := range docs {
			for _, rep := range [][2]string{{`"t":6`, `"t":7`}, {`"t":7`, `"t":6`}, {`"t":0`, `"t":2`}, {`"t":2`, `"t":0`}, {`"t":8`, `"t":9`}, {`"t":9`, `"t":8`}, {`"t":5`, `"t":8`},
				{`"t":4`, `"t":6`}, {`"list":`, `"List":`}, {`"dict":`, `"dict":null,"x":`}, {`"expr":`, `"Expr":`}, {`"name":`, `"name":null,"n":`}, {`"v":`, `"w":`},
				{`"params":`, `"params":null,"p":`}, {`"attrs":`, `"attrs":[],"a":`}, {`{"t":0,"v":1}`, `null`}, {`"v":1`, `"v":"1"`}, {`"v":1`, `"v":[1]`}, {`"t":1`, `"t":10`}, {`"t":6`, `"t":10`}} {
				if strings.Contains(d, rep[0]) {
					add(strings.Replace(d, rep[0], rep[1], 1))
					add(strings.ReplaceAll(d, rep[0], rep[1]))
				}
			}
			for cut := 1; cut < len(d); cut += 1 + len(d)/12 {
				add(d[:cut])
			}
		}
		// deep recursion through restored functions / computed values (must stay within the budget, never kill the process)
		add(`{"t":8,"v":{"expr":"f(n+1)","name":"f","params":["n"]}}`)
		add(`{"t":5,"v":{"expr":"x + 1"}}`)
		add(`{"t":8,"v":{"expr":"x(1)","name":"","params":["n"]}}`)
		add(`{"t":5,"v":{"expr":"this.a","attrs":{"a":{"t":5,"v":{"expr":"this.a","attrs":{"a":{"t":5,"v":{"expr":"1"}}}}}}}}`)
		nest := `{"t":0,"v":1}`
		for i := 0; i < 200; i++ {
			nest = `{"t":6,"v":{"list":[` + nest + `]}}`
		}
		add(nest)
		emitSummary(map[string]any{"documents": w.n})
		return 0
	}
}
