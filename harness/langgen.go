package main

import (
	"math/rand"
)

// AST generator for spec/Lang.tla (C02 and the properties that reuse its oracle).
// It only builds JSON ASTs inside the vocabulary of the spec; what they mean is decided by TLC (Eval) and how
// they are written by TLC (Unparse).  Type-directed: most programs are well-typed, some deliberately are not.

type N = map[string]any

type langGen struct {
	r         *rand.Rand
	vars      map[string]string // rough type of each variable: int flt str arr dict func comp any
	funcs     map[string]int    // user functions and their arity
	inFunc    int
	inLoop    int
	inHole    int
	dice      bool
	sides     int
	noStmts   bool
	budget    int
	tmplFocus bool
}

var lgVars = []string{"x", "y", "z", "u", "w", "n1", "力量", "trueDmg", "nullable", "thisTurn", "returnV", "breakpt", "continued", "falsey", "iffy"}
var lgFuncs = []string{"g1", "g2", "h1"}

func (g *langGen) pp(n N) N {
	if _, ok := n["pp"]; !ok {
		n["pp"] = g.r.Intn(14) == 0
	}
	return n
}

func (g *langGen) pick(xs ...string) string { return xs[g.r.Intn(len(xs))] }

func (g *langGen) intLit() N {
	v := []int{0, 1, 2, 3, 5, 7, 10, -1, -2, 12, 100}[g.r.Intn(11)]
	return g.pp(N{"k": "int", "v": v})
}

func (g *langGen) fltLit() N {
	d := []int{1, 2, 4, 8}[g.r.Intn(4)]
	n := g.r.Intn(40) - 8
	return g.pp(N{"k": "flt", "n": n, "d": d})
}

func chars(s string) []string {
	out := []string{}
	for _, r := range s {
		out = append(out, string(r))
	}
	return out
}

func (g *langGen) strLit() N {
	s := g.pick("", "a", "ab", "hi!", "x1", "力", "7", "-3", "a b")
	cs := chars(s)
	for i, c := range cs {
		if c == " " {
			cs[i] = "SP"
		}
	}
	return g.pp(N{"k": "str", "c": cs, "q": 1 + g.r.Intn(2)})
}

func (g *langGen) varOfType(t string) (string, bool) {
	var c []string
	for _, v := range lgVars {
		if g.vars[v] == t {
			c = append(c, v)
		}
	}
	if len(c) == 0 {
		return "", false
	}
	return c[g.r.Intn(len(c))], true
}

func (g *langGen) anyVar() string { return lgVars[g.r.Intn(len(lgVars))] }

func (g *langGen) diceNode() N {
	times := 1 + g.r.Intn(3)
	kind := g.r.Intn(5)
	cnt := 0
	if kind != 0 {
		cnt = 1 + g.r.Intn(times)
	}
	mn, mx := -1, -1
	switch g.r.Intn(4) {
	case 0:
		mn = 1 + g.r.Intn(g.sides)
	case 1:
		mx = 1 + g.r.Intn(g.sides)
	}
	return g.pp(N{"k": "dice", "fam": "common", "times": times, "sides": g.sides, "kind": kind, "cnt": cnt, "mn": mn, "mx": mx})
}

// expression of (roughly) the wanted type: num int flt str arr dict any
func (g *langGen) expr(d int, want string) N {
	g.budget--
	if g.r.Intn(40) == 0 { // deliberately ignore the wanted type now and then
		want = g.pick("num", "str", "arr", "dict", "any", "null")
	}
	if d <= 0 || g.budget <= 0 {
		return g.leaf(want)
	}
	switch want {
	case "int", "num":
		switch g.r.Intn(16) {
		case 0, 1:
			return g.leaf(want)
		case 2, 3, 4, 5:
			op := g.pick("+", "-", "*", "+", "-", "*", "/", "%", "^", "**", "&", "|")
			return g.pp(N{"k": "bin", "op": op, "l": g.expr(d-1, "num"), "r": g.expr(d-1, "num")})
		case 6:
			return g.pp(N{"k": "bin", "op": g.pick("<", "<=", "==", "!=", ">=", ">"), "l": g.expr(d-1, "num"), "r": g.expr(d-1, "num")})
		case 7:
			return g.pp(N{"k": "un", "op": g.pick("-", "+"), "e": g.expr(d-1, "num")})
		case 8:
			return g.pp(N{"k": "call", "f": g.pick("abs", "floor", "ceil", "round", "toInt", "typeId", "toBool"), "args": []N{g.expr(d-1, "num")}})
		case 9:
			return g.pp(N{"k": "mcall", "o": g.expr(d-1, "arr"), "m": g.pick("len", "sum", "kh", "kl", "len"), "args": []N{}})
		case 10:
			return g.pp(N{"k": "idx", "o": g.expr(d-1, "arr"), "i": g.expr(d-1, "int")})
		case 11:
			if g.dice {
				return g.diceNode()
			}
			return g.pp(N{"k": "tern", "c": g.expr(d-1, "any"), "a": g.expr(d-1, "num"), "b": g.expr(d-1, "num")})
		case 12:
			return g.pp(N{"k": "bin", "op": "??", "l": g.expr(d-1, "any"), "r": g.expr(d-1, "num")})
		case 13:
			return g.callUser(d)
		case 14:
			return g.pp(N{"k": g.pick("and", "or"), "l": g.expr(d-1, "any"), "r": g.expr(d-1, "num")})
		default:
			return g.pp(N{"k": "assign", "n": g.setVar("int"), "e": g.expr(d-1, "int")})
		}
	case "flt":
		if g.r.Intn(2) == 0 {
			return g.pp(N{"k": "bin", "op": g.pick("+", "-", "*", "/"), "l": g.expr(d-1, "flt"), "r": g.expr(d-1, "num")})
		}
		return g.leaf("flt")
	case "str":
		if g.tmplFocus && g.r.Intn(10) < 6 {
			return g.tmpl(d)
		}
		switch g.r.Intn(8) {
		case 0, 1:
			return g.pp(N{"k": "bin", "op": "+", "l": g.expr(d-1, "str"), "r": g.expr(d-1, "str")})
		case 2:
			return g.pp(N{"k": "call", "f": g.pick("toStr", "repr"), "args": []N{g.expr(d-1, "any")}})
		case 3:
			return g.tmpl(d)
		case 4:
			return g.pp(N{"k": "idx", "o": g.expr(d-1, "str"), "i": g.expr(d-1, "int")})
		case 5:
			return g.pp(N{"k": "slice", "o": g.expr(d-1, "str"), "a": g.bound(d), "b": g.bound(d)})
		case 6:
			n := 1 + g.r.Intn(3)
			arms := []N{}
			for i := 0; i < n; i++ {
				arms = append(arms, N{"c": g.expr(d-1, "any"), "a": g.expr(d-1, "str")})
			}
			return g.pp(N{"k": "multi", "arms": arms})
		}
		return g.leaf("str")
	case "arr":
		switch g.r.Intn(9) {
		case 0, 1, 2:
			n := g.r.Intn(4)
			xs := []N{}
			for i := 0; i < n; i++ {
				xs = append(xs, g.expr(d-1, g.pick("int", "int", "str", "arr", "flt", "any")))
			}
			return g.pp(N{"k": "arr", "xs": xs})
		case 3:
			return g.pp(N{"k": "range", "a": g.expr(d-1, "int"), "b": g.expr(d-1, "int")})
		case 4:
			return g.pp(N{"k": "bin", "op": "+", "l": g.expr(d-1, "arr"), "r": g.expr(d-1, "arr")})
		case 5:
			if g.r.Intn(2) == 0 {
				return g.pp(N{"k": "bin", "op": "*", "l": g.expr(d-1, "arr"), "r": g.expr(d-1, "int")})
			}
			return g.pp(N{"k": "bin", "op": "*", "l": g.expr(d-1, "int"), "r": g.expr(d-1, "arr")})
		case 6:
			return g.pp(N{"k": "slice", "o": g.expr(d-1, "arr"), "a": g.bound(d), "b": g.bound(d)})
		case 7:
			return g.pp(N{"k": "mcall", "o": g.expr(d-1, "arr"), "m": "push", "args": []N{g.expr(d-1, "any")}})
		}
		return g.leaf("arr")
	case "dict":
		if g.r.Intn(3) != 0 {
			n := g.r.Intn(3)
			kv := []N{}
			for i := 0; i < n; i++ {
				var key N
				switch g.r.Intn(4) {
				case 0:
					key = g.pp(N{"k": "int", "v": g.r.Intn(3)})
				default:
					key = g.pp(N{"k": "str", "c": chars(g.pick("a", "b", "k1")), "q": 1})
				}
				kv = append(kv, N{"key": key, "val": g.expr(d-1, g.pick("int", "str", "arr", "any"))})
			}
			return g.pp(N{"k": "dict", "kv": kv})
		}
		return g.leaf("dict")
	case "null":
		return g.pp(N{"k": "null"})
	}
	// any
	switch g.r.Intn(12) {
	case 0:
		return g.pp(N{"k": "tern", "c": g.expr(d-1, "any"), "a": g.expr(d-1, "any"), "b": g.expr(d-1, "any")})
	case 1:
		return g.pp(N{"k": g.pick("and", "or"), "l": g.expr(d-1, "any"), "r": g.expr(d-1, "any")})
	case 2:
		return g.pp(N{"k": "bin", "op": g.pick("==", "!="), "l": g.expr(d-1, "any"), "r": g.expr(d-1, "any")})
	case 3:
		return g.pp(N{"k": "idx", "o": g.expr(d-1, g.pick("arr", "dict", "str")), "i": g.expr(d-1, g.pick("int", "str"))})
	case 4:
		an := g.pick("a", "b", "k1", "zz")
		return g.pp(N{"k": "attr", "o": g.expr(d-1, "dict"), "n": an, "nc": chars(an)})
	case 5:
		return g.pp(N{"k": "mcall", "o": g.expr(d-1, "arr"), "m": g.pick("pop", "shift"), "args": []N{}})
	case 6:
		return g.assignment(d)
	case 7:
		return g.callUser(d)
	}
	return g.expr(d, g.pick("num", "str", "arr", "dict", "int", "flt"))
}

func (g *langGen) bound(d int) N {
	if g.r.Intn(3) == 0 {
		return N{"k": "null", "pp": false}
	}
	return g.expr(d-1, "int")
}

func (g *langGen) setVar(t string) string {
	v := g.anyVar()
	g.vars[v] = t
	return v
}

func (g *langGen) leaf(want string) N {
	switch want {
	case "int", "num":
		if v, ok := g.varOfType("int"); ok && g.r.Intn(2) == 0 {
			return g.pp(N{"k": "var", "n": v})
		}
		if want == "num" && g.r.Intn(5) == 0 {
			return g.fltLit()
		}
		return g.intLit()
	case "flt":
		if v, ok := g.varOfType("flt"); ok && g.r.Intn(3) == 0 {
			return g.pp(N{"k": "var", "n": v})
		}
		return g.fltLit()
	case "str":
		if v, ok := g.varOfType("str"); ok && g.r.Intn(2) == 0 {
			return g.pp(N{"k": "var", "n": v})
		}
		return g.strLit()
	case "arr":
		if v, ok := g.varOfType("arr"); ok && g.r.Intn(2) == 0 {
			return g.pp(N{"k": "var", "n": v})
		}
		return g.pp(N{"k": "arr", "xs": []N{g.intLit(), g.intLit()}})
	case "dict":
		if v, ok := g.varOfType("dict"); ok && g.r.Intn(2) == 0 {
			return g.pp(N{"k": "var", "n": v})
		}
		return g.pp(N{"k": "dict", "kv": []N{}})
	case "null":
		return g.pp(N{"k": "null"})
	}
	switch g.r.Intn(6) {
	case 0:
		return g.pp(N{"k": "var", "n": g.anyVar()})
	case 1:
		return g.pp(N{"k": "null"})
	case 2:
		return g.strLit()
	case 3:
		if g.inFunc > 0 {
			return g.pp(N{"k": "this", "n": g.pick("pa", "qb", "x")})
		}
	}
	return g.intLit()
}

func (g *langGen) callUser(d int) N {
	var names []string
	for n := range g.funcs {
		names = append(names, n)
	}
	if len(names) == 0 {
		return g.intLit()
	}
	// deterministic order
	for i := 0; i < len(names); i++ {
		for j := i + 1; j < len(names); j++ {
			if names[j] < names[i] {
				names[i], names[j] = names[j], names[i]
			}
		}
	}
	f := names[g.r.Intn(len(names))]
	ar := g.funcs[f]
	if g.r.Intn(15) == 0 {
		ar++ // wrong arity
	}
	args := []N{}
	for i := 0; i < ar; i++ {
		args = append(args, g.expr(d-1, g.pick("int", "int", "arr", "any")))
	}
	return g.pp(N{"k": "call", "f": f, "args": args})
}

func (g *langGen) tmpl(d int) N {
	n := 1 + g.r.Intn(3)
	parts := []N{}
	for i := 0; i < n; i++ {
		if g.r.Intn(2) == 0 {
			if g.tmplFocus {
				cs := []string{}
				for k := 1 + g.r.Intn(3); k > 0; k-- {
					cs = append(cs, g.pick("a", "SP", "SQ", "DQ", "LB", "RB", "BSL", "LF", "CJK1", "PCT", "1", "n", "TAB", "EMOJI", "CR"))
				}
				parts = append(parts, N{"k": "lit", "c": cs})
			} else {
				parts = append(parts, N{"k": "lit", "c": chars(g.pick("a", "v=", "x", "；", "-", "1"))})
			}
		} else {
			g.inHole++
			var body []N
			if g.r.Intn(3) == 0 && !g.noStmts {
				body = g.stmts(d-1, 2)
			} else {
				body = []N{{"k": "expr", "e": g.expr(d-1, g.pick("int", "str", "any", "arr"))}}
			}
			g.inHole--
			parts = append(parts, N{"k": "hole", "pct": g.r.Intn(3) == 0, "body": body})
		}
	}
	return g.pp(N{"k": "tmpl", "q": 3 + g.r.Intn(2), "parts": parts})
}

func (g *langGen) target(d int) N {
	if v, ok := g.varOfType(g.pick("arr", "dict")); ok {
		t := g.pp(N{"k": "var", "n": v})
		t["pp"] = false
		return t
	}
	t := g.pp(N{"k": "var", "n": g.anyVar()})
	t["pp"] = false
	return t
}

func (g *langGen) assignment(d int) N {
	switch g.r.Intn(10) {
	case 0, 1, 2, 3:
		t := g.pick("int", "int", "str", "arr", "dict", "flt")
		e := g.expr(d-1, t)
		return g.pp(N{"k": "assign", "n": g.setVar(t), "e": e})
	case 4:
		return g.pp(N{"k": "assignIdx", "o": g.target(d), "i": g.expr(d-1, g.pick("int", "str")), "e": g.expr(d-1, "any")})
	case 5:
		if v, ok := g.varOfType("dict"); ok {
			an := g.pick("a", "b", "k1")
			return g.pp(N{"k": "assignAttr", "n": v, "a": an, "ac": chars(an), "e": g.expr(d-1, "any")})
		}
		return g.pp(N{"k": "assignAttr", "n": g.anyVar(), "a": "a", "ac": chars("a"), "e": g.expr(d-1, "int")})
	case 6:
		return g.pp(N{"k": "assignSlice", "o": g.target(d), "a": g.bound(d), "b": g.bound(d), "e": g.expr(d-1, "arr")})
	case 7:
		if g.inFunc > 0 {
			return g.pp(N{"k": "assignThis", "n": g.pick("pa", "qb", "x"), "e": g.expr(d-1, "int")})
		}
		return g.pp(N{"k": "assignThis", "n": g.setVar("int"), "e": g.expr(d-1, "int")})
	case 8:
		// computed value: its expression mentions this.<attr> and outer variables; never stores
		v := g.anyVar()
		g.vars[v] = "comp"
		save := g.inFunc
		g.inFunc = 1
		e := g.pureExpr(d - 1)
		g.inFunc = save
		return g.pp(N{"k": "computed", "n": v, "e": e})
	default:
		if v, ok := g.varOfType("comp"); ok {
			an := g.pick("pa", "qb")
			return g.pp(N{"k": "computedAttr", "n": v, "a": an, "ac": chars(an), "e": g.expr(d-1, "int")})
		}
		return g.pp(N{"k": "assign", "n": g.setVar("int"), "e": g.expr(d-1, "int")})
	}
}

// expression without assignments or calls to user functions (bodies of computed values)
func (g *langGen) pureExpr(d int) N {
	if d <= 0 {
		switch g.r.Intn(4) {
		case 0:
			return g.pp(N{"k": "this", "n": g.pick("pa", "qb")})
		case 1:
			return g.pp(N{"k": "var", "n": g.anyVar()})
		}
		return g.intLit()
	}
	switch g.r.Intn(5) {
	case 0:
		return g.pp(N{"k": "bin", "op": g.pick("+", "-", "*", "??"), "l": g.pureExpr(d - 1), "r": g.pureExpr(d - 1)})
	case 1:
		if g.dice {
			return g.diceNode()
		}
	case 2:
		return g.pp(N{"k": "tern", "c": g.pureExpr(d - 1), "a": g.pureExpr(d - 1), "b": g.pureExpr(d - 1)})
	}
	return g.pureExpr(d - 1)
}

func (g *langGen) stmt(d int) N {
	g.budget--
	if g.noStmts || d <= 0 || g.budget <= 0 {
		return N{"k": "expr", "e": g.expr(d, g.pick("int", "str", "arr", "any", "num", "dict"))}
	}
	switch g.r.Intn(16) {
	case 0, 1:
		els := []N{}
		elif := false
		if g.r.Intn(2) == 0 {
			els = g.stmts(d-1, 2)
			if g.r.Intn(3) == 0 {
				els = []N{{"k": "if", "c": g.expr(d-1, "any"), "t": g.stmts(d-1, 2), "e": []N{}, "elif": false}}
				elif = true
			}
		}
		return N{"k": "if", "c": g.expr(d-1, "any"), "t": g.stmts(d-1, 2), "e": els, "elif": elif}
	case 2:
		// counting loop that terminates: i = 0; while i < k { i = i + 1; ... }
		g.inLoop++
		cv := g.pick("x", "y", "z")
		g.vars[cv] = "int"
		body := []N{{"k": "expr", "e": g.pp(N{"k": "assign", "n": cv, "e": g.pp(N{"k": "bin", "op": "+", "l": g.pp(N{"k": "var", "n": cv}), "r": g.pp(N{"k": "int", "v": 1})})})}}
		body = append(body, g.stmts(d-1, 2)...)
		g.inLoop--
		return N{"k": "while", "c": g.pp(N{"k": "bin", "op": "<", "l": g.pp(N{"k": "var", "n": cv}), "r": g.pp(N{"k": "int", "v": 1 + g.r.Intn(4)})}), "b": body}
	case 3:
		if g.inLoop > 0 {
			return N{"k": g.pick("break", "continue")}
		}
	case 4:
		if g.inLoop > 0 {
			return N{"k": "if", "c": g.expr(d-1, "any"), "t": []N{{"k": g.pick("break", "continue")}}, "e": []N{}, "elif": false}
		}
	case 5:
		if g.inFunc == 0 && g.inHole == 0 && g.inLoop == 0 {
			name := lgFuncs[g.r.Intn(len(lgFuncs))]
			ps := [][]string{{}, {"pa"}, {"pa", "qb"}}[g.r.Intn(3)]
			saveVars := g.vars
			g.vars = map[string]string{}
			for _, p := range ps {
				g.vars[p] = "int"
			}
			g.inFunc++
			g.funcs[name] = len(ps) // allow recursion
			body := g.stmts(d-1, 3)
			g.inFunc--
			g.vars = saveVars
			g.vars[name] = "func"
			return N{"k": "func", "n": name, "ps": ps, "b": body}
		}
	case 6:
		if g.inFunc > 0 && g.inHole == 0 {
			if g.r.Intn(4) == 0 {
				return N{"k": "return", "has": false, "e": N{"k": "null", "pp": false}}
			}
			return N{"k": "return", "has": true, "e": g.expr(d-1, g.pick("int", "any", "arr"))}
		}
	case 7, 8, 9:
		return N{"k": "expr", "e": g.assignment(d)}
	}
	return N{"k": "expr", "e": g.expr(d, g.pick("int", "str", "arr", "any", "num", "dict"))}
}

func (g *langGen) stmts(d, maxN int) []N {
	n := 1 + g.r.Intn(maxN)
	out := []N{}
	for i := 0; i < n; i++ {
		out = append(out, g.stmt(d))
	}
	return out
}

func (g *langGen) program(d int) []N {
	g.budget = 60
	ss := g.stmts(d, 3)
	// end in an expression statement whose value is documented
	if g.r.Intn(4) != 0 {
		ss = append(ss, N{"k": "expr", "e": g.expr(d-1, g.pick("int", "str", "arr", "any", "dict", "num"))})
	}
	return ss
}

func init() {
	subcmds["lang-gen"] = func(args []string) int {
		fs := newFlags("lang-gen")
		out := fs.String("out", "", "ndjson of histories")
		n := fs.Int("n", 1000, "histories")
		depth := fs.Int("depth", 3, "max depth")
		maxHist := fs.Int("hist", 3, "max programs per history")
		exprOnly := fs.Bool("expr", false, "expression programs only")
		tmpl := fs.Bool("tmpl", false, "template-heavy programs (C13)")
		fs.Parse(args)
		r := rand.New(rand.NewSource(envSeed()))
		w := newNDWriter(*out)
		defer w.Close()
		for i := 0; i < *n; i++ {
			g := &langGen{r: r, vars: map[string]string{}, funcs: map[string]int{}, sides: []int{4, 6, 6, 10}[r.Intn(4)]}
			mode := []int{-1, 1, 0, 0}[r.Intn(4)]
			g.dice = r.Intn(3) != 0
			g.noStmts = *exprOnly || r.Intn(4) == 0
			g.tmplFocus = *tmpl
			faces := []int{}
			for k := 0; k < 48; k++ {
				faces = append(faces, 1+r.Intn(g.sides))
			}
			np := 1 + r.Intn(*maxHist)
			progs := [][]N{}
			for k := 0; k < np; k++ {
				progs = append(progs, g.program(1+r.Intn(*depth)))
			}
			w.Write(N{"id": i + 1, "cfg": N{"div0": r.Intn(4) == 0, "mode": mode, "fuel": 40, "loopmax": 12}, "faces": faces, "progs": progs})
		}
		if *tmpl {
			// holes that END in a statement block, at every nesting depth 1..4, in both template styles
			lit := func(v int) N { return N{"k": "int", "v": v, "pp": false} }
			ends := [][]N{
				{{"k": "if", "c": lit(1), "t": []N{{"k": "expr", "e": N{"k": "assign", "n": "x", "e": lit(5), "pp": false}}}, "e": []N{}, "elif": false}},
				{{"k": "if", "c": lit(0), "t": []N{{"k": "expr", "e": lit(2)}}, "e": []N{}, "elif": false}},
				{{"k": "if", "c": lit(0), "t": []N{{"k": "expr", "e": lit(2)}}, "e": []N{{"k": "expr", "e": lit(3)}}, "elif": false}},
				{{"k": "expr", "e": N{"k": "assign", "n": "y", "e": lit(0), "pp": false}}, {"k": "while", "c": N{"k": "bin", "op": "<", "l": N{"k": "var", "n": "y", "pp": false}, "r": lit(2), "pp": false},
					"b": []N{{"k": "expr", "e": N{"k": "assign", "n": "y", "e": N{"k": "bin", "op": "+", "l": N{"k": "var", "n": "y", "pp": false}, "r": lit(1), "pp": false}, "pp": false}}}}},
				{{"k": "expr", "e": lit(7)}},
			}
			fid := 910000
			for depth := 1; depth <= 4; depth++ {
				for ei, end := range ends {
					for style := 3; style <= 4; style++ {
						var e N = N{"k": "tmpl", "q": style, "pp": false, "parts": []N{{"k": "lit", "c": []string{"b"}}, {"k": "hole", "pct": ei%2 == 0, "body": end}, {"k": "lit", "c": []string{"c"}}}}
						for k := 1; k < depth; k++ {
							e = N{"k": "tmpl", "q": 3 + (style+k)%2, "pp": false, "parts": []N{{"k": "lit", "c": []string{"a"}}, {"k": "hole", "pct": k%2 == 0, "body": []N{{"k": "expr", "e": e}}}, {"k": "lit", "c": []string{"d"}}}}
						}
						fid++
						w.Write(N{"id": fid, "cfg": N{"div0": false, "mode": -1, "fuel": 40, "loopmax": 12}, "faces": []int{}, "progs": [][]N{{{"k": "expr", "e": e}}}})
					}
				}
			}
			// the same container shown in several holes of one template (each hole is its string form, every time)
			{
				vr := func(n string) N { return N{"k": "var", "n": n, "pp": false} }
				st := func(e N) N { return N{"k": "expr", "e": e} }
				hole := func(pct bool, body ...N) N { return N{"k": "hole", "pct": pct, "body": body} }
				litp := func(cs ...string) N { return N{"k": "lit", "c": cs} }
				arr := func(xs ...N) N {
					if xs == nil {
						xs = []N{}
					}
					return N{"k": "arr", "xs": xs, "pp": false}
				}
				one := N{"k": "dict", "kv": []N{{"key": N{"k": "str", "c": []string{"k"}, "q": 1, "pp": false}, "val": lit(1)}}, "pp": false}
				vals := []N{arr(lit(1), lit(2)), arr(), arr(arr(lit(7)), lit(0)), one, arr(one), N{"k": "str", "c": []string{"a", "LB", "b"}, "q": 1, "pp": false}}
				sid := 920000
				for _, v := range vals {
					for style := 3; style <= 4; style++ {
						asg := st(N{"k": "assign", "n": "x", "e": v, "pp": false})
						shapes := [][]N{
							{hole(false, st(vr("x"))), litp("SP", "a", "SP"), hole(false, st(vr("x")))},
							{hole(false, st(vr("x"))), hole(false, st(vr("x"))), hole(false, st(vr("x")))},
							{litp("a"), hole(false, st(vr("x"))), litp("-"), hole(false, st(arr(vr("x"), lit(0))))},
							{hole(false, st(arr(vr("x"), vr("x")))), litp("b"), hole(true, st(vr("x")))},
						}
						for _, parts := range shapes {
							sid++
							w.Write(N{"id": sid, "cfg": N{"div0": false, "mode": -1, "fuel": 40, "loopmax": 12}, "faces": []int{},
								"progs": [][]N{{asg, st(N{"k": "tmpl", "q": style, "pp": false, "parts": parts})}}})
						}
						// assigned in a block hole, shown in later ones
						sid++
						w.Write(N{"id": sid, "cfg": N{"div0": false, "mode": -1, "fuel": 40, "loopmax": 12}, "faces": []int{},
							"progs": [][]N{{st(N{"k": "tmpl", "q": style, "pp": false, "parts": []N{litp("a"), hole(true, asg), litp("c"), hole(false, st(vr("x"))), litp("d"), hole(false, st(vr("x")))}})}}})
					}
				}
				// a piece is fixed when its hole ends: whatever kind of value the hole had (array, dict, a container reached through
				// another one, the value of an assignment in a block), a later hole or a template nested in a later hole that changes
				// the container does not reach back into the text assembled so far
				dictOf := func(key string, val N) N {
					return N{"k": "dict", "kv": []N{{"key": N{"k": "str", "c": []string{key}, "q": 1, "pp": false}, "val": val}}, "pp": false}
				}
				setAttr := func(v, a string, e N) N { return st(N{"k": "assignAttr", "n": v, "a": a, "ac": chars(a), "e": e, "pp": false}) }
				setIdx := func(v string, i int, e N) N { return st(N{"k": "assignIdx", "o": vr(v), "i": lit(i), "e": e, "pp": false}) }
				asgn := func(v string, e N) N { return st(N{"k": "assign", "n": v, "e": e, "pp": false}) }
				zid := 930000
				for style := 3; style <= 4; style++ {
					tm := func(parts ...N) N { return N{"k": "tmpl", "q": style, "pp": false, "parts": parts} }
					inner := func(parts ...N) N { return N{"k": "tmpl", "q": 7 - style, "pp": false, "parts": parts} }
					x := hole(false, st(vr("x")))
					progs := [][]N{
						// dict shown, changed by a later block, shown again
						{asgn("x", dictOf("k", lit(1))), st(tm(x, hole(true, setAttr("x", "k", lit(2))), x))},
						{asgn("x", dictOf("k", lit(1))), st(tm(litp("a"), x, litp("b"), hole(true, setAttr("x", "zz", arr(lit(1)))), litp("b"), x, hole(true, setAttr("x", "k", lit(3))), x, litp("c")))},
						// the value of a block hole is the dict it assigned; the next block changes it
						{st(tm(litp("a"), hole(true, asgn("x", dictOf("k", lit(1)))), litp("b"), hole(true, setAttr("x", "k", lit(2))), litp("c")))},
						// changed by a template nested in a later hole
						{asgn("x", dictOf("k", lit(1))), st(tm(x, hole(false, st(inner(hole(true, setAttr("x", "k", lit(5)))))), x))},
						{st(tm(hole(true, asgn("x", dictOf("k", lit(1)))), hole(false, st(inner(litp("a"), hole(true, setAttr("x", "k", lit(5))), x)))))},
						// a dict holding an array, the entry replaced
						{asgn("x", dictOf("k", arr(lit(1)))), st(tm(x, hole(true, setAttr("x", "k", lit(7))), x))},
						// array shown, changed, shown
						{asgn("x", arr(lit(1), lit(2))), st(tm(x, hole(true, setIdx("x", 0, lit(9))), x))},
						{asgn("x", arr(lit(1), lit(2))), st(tm(x, hole(false, st(inner(hole(true, setIdx("x", 1, arr(lit(0))))))), x))},
						// a container reached through the one shown: y inside x, y changed
						{asgn("y", dictOf("k", lit(1))), asgn("x", arr(vr("y"))), st(tm(x, hole(true, setAttr("y", "k", lit(2))), x))},
						{asgn("y", arr(lit(1))), asgn("x", dictOf("k", vr("y"))), st(tm(x, hole(true, setIdx("y", 0, lit(2))), x))},
						{asgn("y", dictOf("k", lit(1))), asgn("x", dictOf("in", vr("y"))), st(tm(x, hole(true, setAttr("y", "k", lit(2))), litp("-"), x))},
						// the template's value kept in a variable, the containers read afterwards
						{asgn("x", dictOf("k", lit(1))), asgn("w", tm(x, hole(true, setAttr("x", "k", lit(2))))), st(arr(vr("w"), vr("x")))},
					}
					for _, pr := range progs {
						zid++
						w.Write(N{"id": zid, "cfg": N{"div0": false, "mode": -1, "fuel": 40, "loopmax": 12}, "faces": []int{}, "progs": [][]N{pr}})
					}
				}
			}
			// nesting depth around the limit: accepted-and-correct or rejected, never wrong
			for depth := 1; depth <= 23; depth++ {
				var e N = N{"k": "int", "v": 1, "pp": false}
				for k := 0; k < depth; k++ {
					e = N{"k": "tmpl", "q": 3 + k%2, "pp": false, "parts": []N{{"k": "lit", "c": []string{"a"}}, {"k": "hole", "pct": k%3 == 0, "body": []N{{"k": "expr", "e": e}}}}}
				}
				w.Write(N{"id": 900000 + depth, "cfg": N{"div0": false, "mode": -1, "fuel": 40, "loopmax": 12}, "faces": []int{}, "progs": [][]N{{{"k": "expr", "e": e}}}})
			}
		}
		emitSummary(N{"histories": w.n})
		return 0
	}
}

// body of the last name-capture case: a local m shadows one of the two free variables of the computed value
func fn2body(vr func(string) N, bin func(string, N, N) N, iv func(int) N) []N {
	return []N{{"k": "expr", "e": N{"k": "assign", "n": "m", "e": iv(7), "pp": false}}, {"k": "expr", "e": bin("+", vr("cq"), bin("*", vr("m"), iv(100)))}}
}

// exhaustive small scope: operator tables over a literal vocabulary, and every pair of binary operators in both
// nestings (precedence / associativity), each as its own one-program history
func init() {
	subcmds["lang-enum"] = func(args []string) int {
		fs := newFlags("lang-enum")
		out := fs.String("out", "", "ndjson of histories")
		fs.Parse(args)
		w := newNDWriter(*out)
		defer w.Close()
		id := 0
		emit := func(e N, div0 bool) {
			id++
			w.Write(N{"id": id, "cfg": N{"div0": div0, "mode": -1, "fuel": 10, "loopmax": 5}, "faces": []int{}, "progs": [][]N{{{"k": "expr", "e": e}}}})
		}
		lit := func(kind string) N {
			switch kind {
			case "0":
				return N{"k": "int", "v": 0, "pp": false}
			case "1":
				return N{"k": "int", "v": 1, "pp": false}
			case "2":
				return N{"k": "int", "v": 2, "pp": false}
			case "3":
				return N{"k": "int", "v": 3, "pp": false}
			case "-1":
				return N{"k": "int", "v": -1, "pp": false}
			case "7":
				return N{"k": "int", "v": 7, "pp": false}
			case "1.5":
				return N{"k": "flt", "n": 3, "d": 2, "pp": false}
			case "-0.5":
				return N{"k": "flt", "n": -1, "d": 2, "pp": false}
			case "2.0":
				return N{"k": "flt", "n": 2, "d": 1, "pp": false}
			case "'a'":
				return N{"k": "str", "c": []string{"a"}, "q": 1, "pp": false}
			case "'ab'":
				return N{"k": "str", "c": []string{"a", "b"}, "q": 2, "pp": false}
			case "''":
				return N{"k": "str", "c": []string{}, "q": 1, "pp": false}
			case "null":
				return N{"k": "null", "pp": false}
			case "[1]":
				return N{"k": "arr", "xs": []N{{"k": "int", "v": 1, "pp": false}}, "pp": false}
			case "[1,2]":
				return N{"k": "arr", "xs": []N{{"k": "int", "v": 1, "pp": false}, {"k": "int", "v": 2, "pp": false}}, "pp": false}
			case "[]":
				return N{"k": "arr", "xs": []N{}, "pp": false}
			case "{}":
				return N{"k": "dict", "kv": []N{}, "pp": false}
			case "{a:1}":
				return N{"k": "dict", "kv": []N{{"key": N{"k": "str", "c": []string{"a"}, "q": 1, "pp": false}, "val": N{"k": "int", "v": 1, "pp": false}}}, "pp": false}
			case "x":
				return N{"k": "var", "n": "x", "pp": false}
			}
			return N{"k": "null", "pp": false}
		}
		vocab := []string{"0", "1", "2", "-1", "7", "1.5", "-0.5", "2.0", "'a'", "'ab'", "''", "null", "[1]", "[1,2]", "[]", "{}", "{a:1}", "x"}
		ops := []string{"+", "-", "*", "/", "%", "^", "**", "??", "<", "<=", "==", "!=", ">=", ">", "&", "|"}
		for _, a := range vocab {
			for _, op := range []string{"-", "+"} {
				emit(N{"k": "un", "op": op, "e": lit(a), "pp": false}, false)
			}
			for _, f := range []string{"toBool", "toStr", "repr", "typeId", "abs", "floor", "ceil", "round", "toInt", "toFloat"} {
				emit(N{"k": "call", "f": f, "args": []N{lit(a)}, "pp": false}, false)
			}
			for _, b := range vocab {
				for _, op := range ops {
					emit(N{"k": "bin", "op": op, "l": lit(a), "r": lit(b), "pp": false}, false)
					if op == "/" || op == "%" {
						emit(N{"k": "bin", "op": op, "l": lit(a), "r": lit(b), "pp": false}, true)
					}
				}
				emit(N{"k": "and", "l": lit(a), "r": lit(b), "pp": false}, false)
				emit(N{"k": "or", "l": lit(a), "r": lit(b), "pp": false}, false)
				emit(N{"k": "idx", "o": lit(a), "i": lit(b), "pp": false}, false)
				emit(N{"k": "tern", "c": lit(a), "a": lit(b), "b": lit("7"), "pp": false}, false)
				emit(N{"k": "multi", "arms": []N{{"c": lit(a), "a": lit(b)}}, "pp": false}, false)
				emit(N{"k": "range", "a": lit(a), "b": lit(b), "pp": false}, false)
				emit(N{"k": "slice", "o": lit("[1,2]"), "a": lit(a), "b": lit(b), "pp": false}, false)
				emit(N{"k": "slice", "o": lit("'ab'"), "a": lit(a), "b": lit(b), "pp": false}, false)
			}
			emit(N{"k": "slice", "o": lit(a), "a": lit("0"), "b": lit("1"), "pp": false}, false)
		}
		// precedence and associativity: every ordered pair of binary operators, both nestings, over 7, 2, 3
		all := append([]string{}, ops...)
		all = append(all, "&&", "||")
		mk := func(op string, l, r N) N {
			switch op {
			case "&&":
				return N{"k": "and", "l": l, "r": r, "pp": false}
			case "||":
				return N{"k": "or", "l": l, "r": r, "pp": false}
			}
			return N{"k": "bin", "op": op, "l": l, "r": r, "pp": false}
		}
		for _, o1 := range all {
			for _, o2 := range all {
				for _, tri := range [][3]string{{"7", "2", "3"}, {"0", "1", "2"}, {"null", "2", "-1"}} {
					emit(mk(o1, mk(o2, lit(tri[0]), lit(tri[1])), lit(tri[2])), false)
					emit(mk(o1, lit(tri[0]), mk(o2, lit(tri[1]), lit(tri[2]))), false)
				}
				emit(N{"k": "un", "op": "-", "e": mk(o1, lit("2"), lit("3")), "pp": false}, false)
				emit(mk(o1, N{"k": "un", "op": "-", "e": lit("2"), "pp": false}, lit("2")), false)
				emit(N{"k": "tern", "c": mk(o1, lit("1"), lit("0")), "a": mk(o2, lit("2"), lit("3")), "b": lit("7"), "pp": false}, false)
			}
		}
		// fresh or alias: every operation that yields an array or a dict from a variable, followed by a mutation of one side
		// and a read of both - the semantics say for each operation whether the result is a new object
		iv := func(v int) N { return N{"k": "int", "v": v, "pp": false} }
		vr := func(n string) N { return N{"k": "var", "n": n, "pp": false} }
		arrOf := func(n int) N {
			xs := []N{}
			for k := 1; k <= n; k++ {
				xs = append(xs, iv(k))
			}
			return N{"k": "arr", "xs": xs, "pp": false}
		}
		stmt := func(e N) N { return N{"k": "expr", "e": e} }
		asg := func(n string, e N) N { return stmt(N{"k": "assign", "n": n, "e": e, "pp": false}) }
		bin := func(op string, l, r N) N { return N{"k": "bin", "op": op, "l": l, "r": r, "pp": false} }
		null := N{"k": "null", "pp": false}
		producers := map[string]func() N{
			"alias":    func() N { return vr("u") },
			"concat0":  func() N { return bin("+", vr("u"), arrOf(0)) },
			"concat1":  func() N { return bin("+", vr("u"), N{"k": "arr", "xs": []N{iv(9)}, "pp": false}) },
			"0concat":  func() N { return bin("+", arrOf(0), vr("u")) },
			"times1":   func() N { return bin("*", vr("u"), iv(1)) },
			"sliceAll": func() N { return N{"k": "slice", "o": vr("u"), "a": null, "b": null, "pp": false} },
			"slice02":  func() N { return N{"k": "slice", "o": vr("u"), "a": iv(0), "b": iv(2), "pp": false} },
			"paren":    func() N { return N{"k": "tern", "c": iv(1), "a": vr("u"), "b": arrOf(1), "pp": false} },
			"coalesce": func() N { return bin("??", vr("u"), iv(1)) },
			"wrapIdx": func() N {
				return N{"k": "idx", "o": N{"k": "arr", "xs": []N{vr("u")}, "pp": false}, "i": iv(0), "pp": false}
			},
		}
		mutations := map[string]func(t string) []N{
			"setIdx": func(t string) []N {
				return []N{stmt(N{"k": "assignIdx", "o": vr(t), "i": iv(0), "e": iv(99), "pp": false})}
			},
			"push": func(t string) []N {
				return []N{stmt(N{"k": "mcall", "o": vr(t), "m": "push", "args": []N{iv(7)}, "pp": false})}
			},
			"pop": func(t string) []N {
				return []N{stmt(N{"k": "mcall", "o": vr(t), "m": "pop", "args": []N{}, "pp": false})}
			},
			"poppush": func(t string) []N {
				return []N{stmt(N{"k": "mcall", "o": vr(t), "m": "pop", "args": []N{}, "pp": false}), stmt(N{"k": "mcall", "o": vr(t), "m": "push", "args": []N{iv(8)}, "pp": false})}
			},
		}
		pnames := []string{"alias", "concat0", "concat1", "0concat", "times1", "sliceAll", "slice02", "paren", "coalesce", "wrapIdx"}
		mnames := []string{"setIdx", "push", "pop", "poppush"}
		for _, n := range []int{1, 2, 3, 5, 6} {
			for _, pn := range pnames {
				for _, mn := range mnames {
					for _, side := range []string{"u", "w"} {
						prog := []N{asg("u", arrOf(n)), asg("w", producers[pn]())}
						prog = append(prog, mutations[mn](side)...)
						prog = append(prog, stmt(N{"k": "arr", "xs": []N{vr("u"), vr("w")}, "pp": false}))
						id++
						w.Write(N{"id": id, "cfg": N{"div0": false, "mode": -1, "fuel": 10, "loopmax": 5}, "faces": []int{}, "progs": [][]N{prog}})
					}
				}
				// two results from one source, then both read (shared spare capacity)
				for _, pn2 := range []string{"concat1", "sliceAll", "times1"} {
					prog := []N{asg("u", arrOf(n)), stmt(N{"k": "mcall", "o": vr("u"), "m": "pop", "args": []N{}, "pp": false}), asg("w", producers[pn]()), asg("z", producers[pn2]()),
						stmt(N{"k": "mcall", "o": vr("w"), "m": "push", "args": []N{iv(6)}, "pp": false}), stmt(N{"k": "mcall", "o": vr("z"), "m": "push", "args": []N{iv(7)}, "pp": false}),
						stmt(N{"k": "arr", "xs": []N{vr("u"), vr("w"), vr("z")}, "pp": false})}
					id++
					w.Write(N{"id": id, "cfg": N{"div0": false, "mode": -1, "fuel": 10, "loopmax": 5}, "faces": []int{}, "progs": [][]N{prog}})
					// and across programs of one history
					hist := [][]N{{asg("u", arrOf(n)), stmt(N{"k": "mcall", "o": vr("u"), "m": "pop", "args": []N{}, "pp": false}), asg("w", producers[pn]())}, {asg("z", producers[pn2]())},
						{stmt(N{"k": "arr", "xs": []N{vr("u"), vr("w"), vr("z")}, "pp": false})}}
					id++
					w.Write(N{"id": id, "cfg": N{"div0": false, "mode": -1, "fuel": 10, "loopmax": 5}, "faces": []int{}, "progs": hist})
				}
			}
		}
		// repetition around the length limit, also of the empty array
		for _, c := range [][2]int{{0, 600}, {0, 513}, {1, 512}, {1, 513}, {2, 256}, {2, 257}, {3, 171}, {0, 0}, {2, 0}} {
			for _, swap := range []bool{false, true} {
				l, r := arrOf(c[0]), iv(c[1])
				if swap {
					l, r = r, l
				}
				id++
				w.Write(N{"id": id, "cfg": N{"div0": false, "mode": -1, "fuel": 10, "loopmax": 5}, "faces": []int{},
					"progs": [][]N{{stmt(N{"k": "mcall", "o": N{"k": "bin", "op": "*", "l": l, "r": r, "pp": true}, "m": "len", "args": []N{}, "pp": false})}}})
			}
		}
		// values as graphs: containers that contain themselves or share a third, under every walk (comparison, printing),
		// and prototype chains of dicts (own entry first, then the chain; chains that return to a visited dict).
		// The cycles are cut before the program ends, so that the final variables are trees again.
		{
			attr := func(o N, n string) N { return N{"k": "attr", "o": o, "n": n, "nc": chars(n), "pp": false} }
			setAttr := func(v, a string, e N) N {
				return stmt(N{"k": "assignAttr", "n": v, "a": a, "ac": chars(a), "e": e, "pp": false})
			}
			mcall := func(o N, m string, args ...N) N {
				if args == nil {
					args = []N{}
				}
				return N{"k": "mcall", "o": o, "m": m, "args": args, "pp": false}
			}
			call := func(f string, args ...N) N { return N{"k": "call", "f": f, "args": args, "pp": false} }
			arr := func(xs ...N) N {
				if xs == nil {
					xs = []N{}
				}
				return N{"k": "arr", "xs": xs, "pp": false}
			}
			dict1 := func(k string, v N) N {
				return N{"k": "dict", "kv": []N{{"key": N{"k": "str", "c": chars(k), "q": 1, "pp": false}, "val": v}}, "pp": false}
			}
			emptyDict := N{"k": "dict", "kv": []N{}, "pp": false}
			hist := func(progs ...[]N) {
				id++
				w.Write(N{"id": id, "cfg": N{"div0": false, "mode": -1, "fuel": 10, "loopmax": 5}, "faces": []int{}, "progs": progs})
			}
			// builders of a (possibly cyclic) array in variable v: shape -> statements
			arrShapes := map[string]func(v string) []N{
				"self": func(v string) []N { return []N{asg(v, arr(iv(1))), stmt(mcall(vr(v), "push", vr(v)))} },
				"selfTwice": func(v string) []N {
					return []N{asg(v, arr(iv(1))), stmt(mcall(vr(v), "push", vr(v))), stmt(mcall(vr(v), "push", vr(v)))}
				},
				"self2": func(v string) []N { return []N{asg(v, arr(iv(2))), stmt(mcall(vr(v), "push", vr(v)))} },
				"unrolled": func(v string) []N {
					return []N{asg(v, arr(iv(1))), asg(v+"i", arr(iv(1))), stmt(mcall(vr(v), "push", vr(v+"i"))), stmt(mcall(vr(v+"i"), "push", vr(v)))}
				},
				"tree": func(v string) []N { return []N{asg(v, arr(iv(1), arr(iv(1), arr(iv(1)))))} },
				"viaSet": func(v string) []N {
					return []N{asg(v, arr(iv(1), iv(0))), stmt(N{"k": "assignIdx", "o": vr(v), "i": iv(1), "e": vr(v), "pp": false})}
				},
				"shared": func(v string) []N { return []N{asg(v+"i", arr(iv(1))), asg(v, arr(vr(v+"i"), vr(v+"i")))} },
				"twins":  func(v string) []N { return []N{asg(v, arr(arr(iv(1)), arr(iv(1))))} },
			}
			cut := func(vs ...string) []N {
				var out []N
				for _, v := range vs {
					out = append(out, asg(v, iv(0)))
				}
				return out
			}
			anames := []string{"self", "selfTwice", "self2", "unrolled", "tree", "viaSet", "shared", "twins"}
			for _, s1 := range anames {
				for _, s2 := range anames {
					prog := append(arrShapes[s1]("u"), arrShapes[s2]("w")...)
					prog = append(prog, asg("r", arr(bin("==", vr("u"), vr("w")), bin("!=", vr("w"), vr("u")), bin("==", vr("u"), vr("u")), bin("==", arr(vr("u")), arr(vr("w"))),
						call("toStr", vr("u")), call("repr", vr("w")), mcall(vr("u"), "len"), bin("==", N{"k": "idx", "o": vr("u"), "i": iv(1), "pp": false}, vr("w")))))
					prog = append(prog, cut("u", "w", "ui", "wi")...)
					prog = append(prog, stmt(vr("r")))
					hist(prog)
				}
				// walks through the cycle: indexing round and round, concatenation, repetition, template holes
				prog := append(arrShapes[s1]("u"), asg("r", arr(N{"k": "idx", "o": N{"k": "idx", "o": N{"k": "idx", "o": vr("u"), "i": iv(1), "pp": false}, "i": iv(1), "pp": false}, "i": iv(0), "pp": false},
					call("toStr", bin("+", vr("u"), vr("u"))), call("toStr", bin("*", vr("u"), iv(2))), call("toStr", arr(vr("u"), vr("u"))),
					N{"k": "tmpl", "q": 3, "pp": false, "parts": []N{{"k": "lit", "c": []string{"a"}}, {"k": "hole", "pct": false, "body": []N{stmt(vr("u"))}}, {"k": "hole", "pct": false, "body": []N{stmt(vr("u"))}}}})))
				prog = append(prog, cut("u", "ui")...)
				prog = append(prog, stmt(vr("r")))
				hist(prog)
			}
			// dicts: self-containing, and pairs of them
			dictShapes := map[string]func(v string) []N{
				"self":  func(v string) []N { return []N{asg(v, dict1("a", iv(1))), setAttr(v, "k", vr(v))} },
				"self2": func(v string) []N { return []N{asg(v, dict1("a", iv(2))), setAttr(v, "k", vr(v))} },
				"loop2": func(v string) []N {
					return []N{asg(v, dict1("a", iv(1))), asg(v+"i", dict1("a", iv(1))), setAttr(v, "k", vr(v+"i")), setAttr(v+"i", "k", vr(v))}
				},
				"tree":  func(v string) []N { return []N{asg(v, dict1("a", iv(1))), setAttr(v, "k", dict1("a", iv(1)))} },
				"plain": func(v string) []N { return []N{asg(v, dict1("a", iv(1)))} },
			}
			dnames := []string{"self", "self2", "loop2", "tree", "plain"}
			for _, s1 := range dnames {
				for _, s2 := range dnames {
					prog := append(dictShapes[s1]("u"), dictShapes[s2]("w")...)
					prog = append(prog, asg("r", arr(bin("==", vr("u"), vr("w")), bin("!=", vr("w"), vr("u")), bin("==", vr("u"), vr("u")), bin("==", attr(vr("u"), "k"), vr("w")),
						bin("==", attr(attr(vr("u"), "k"), "a"), attr(vr("w"), "a")), mcall(vr("u"), "len"))))
					prog = append(prog, cut("u", "w", "ui", "wi")...)
					prog = append(prog, stmt(vr("r")))
					hist(prog)
				}
			}
			// walks over dicts go in the byte order of the keys, whatever the order of insertion
			{
				dictN := func(kvs ...any) N {
					out := []N{}
					for i := 0; i+1 < len(kvs); i += 2 {
						out = append(out, N{"key": N{"k": "str", "c": chars(kvs[i].(string)), "q": 1, "pp": false}, "val": kvs[i+1].(N)})
					}
					return N{"k": "dict", "kv": out, "pp": false}
				}
				builders := [][]N{
					{asg("u", dictN("b", iv(2), "a", iv(1)))},
					{asg("u", dictN("k", iv(1), "B", iv(2), "a1", iv(3), "_z", iv(4)))},
					{asg("u", dictN("ab", iv(1), "a", iv(2), "abc", iv(3), "b", iv(0)))},
					{asg("u", emptyDict), setAttr("u", "z", iv(1)), setAttr("u", "m", iv(2)), setAttr("u", "a", iv(3))},
					{asg("u", dictN("x", iv(1))), setAttr("u", "c", arr(iv(1), iv(2))), setAttr("u", "b", dictN("q", iv(1), "p", iv(2)))},
					{asg("u", dictN("Z", iv(1), "a", iv(2), "9", iv(3), "A", iv(4), "z", iv(5), "0", iv(6)))},
				}
				walks := []func() N{
					func() N { return call("toStr", vr("u")) },
					func() N { return call("repr", vr("u")) },
					func() N { return mcall(vr("u"), "keys") },
					func() N { return mcall(vr("u"), "values") },
					func() N { return mcall(vr("u"), "items") },
					func() N { return call("toStr", arr(vr("u"), vr("u"))) },
					func() N {
						return N{"k": "tmpl", "q": 3, "pp": false, "parts": []N{{"k": "lit", "c": []string{"x"}}, {"k": "hole", "pct": false, "body": []N{stmt(vr("u"))}}, {"k": "lit", "c": []string{"y"}}}}
					},
					func() N { return mcall(mcall(vr("u"), "keys"), "len") },
					func() N { return call("toStr", mcall(vr("u"), "items")) },
				}
				for _, b := range builders {
					for _, wk := range walks {
						prog := append([]N{}, b...)
						prog = append(prog, stmt(wk()))
						hist(prog)
					}
					// every walk in one program, and across programs of one history (the order is a property of the dict, not of the moment)
					all := []N{}
					for _, wk := range walks[:5] {
						all = append(all, wk())
					}
					hist(append(append([]N{}, b...), stmt(arr(all...))))
					hist(append([]N{}, b...), []N{stmt(walks[0]())}, []N{stmt(walks[2]())}, []N{setAttr("u", "aa", iv(7)), stmt(walks[0]())})
				}
			}
			// a template piece is fixed when its hole ends: a later block that changes the container an earlier hole printed
			// does not reach back into the text assembled so far
			{
				holeE := func(e N) N { return N{"k": "hole", "pct": false, "body": []N{stmt(e)}} }
				holeB := func(body ...N) N { return N{"k": "hole", "pct": true, "body": body} }
				lit := func(c string) N { return N{"k": "lit", "c": chars(c)} }
				tmplN := func(parts ...N) N { return N{"k": "tmpl", "q": 3, "pp": false, "parts": parts} }
				setIdx := func(v string, i int, e N) N {
					return stmt(N{"k": "assignIdx", "o": vr(v), "i": iv(i), "e": e, "pp": false})
				}
				for _, t := range []N{
					tmplN(holeE(vr("u")), holeB(setIdx("u", 0, iv(9))), holeE(vr("u"))),
					tmplN(lit("a"), holeE(vr("u")), lit("b"), holeB(stmt(mcall(vr("u"), "push", iv(4)))), holeE(vr("u")), holeB(stmt(mcall(vr("u"), "pop")), stmt(mcall(vr("u"), "pop"))), holeE(vr("u"))),
					tmplN(holeE(arr(vr("u"), iv(0))), holeB(setIdx("u", 1, arr(iv(7)))), holeE(mcall(vr("u"), "len")), holeE(vr("u"))),
					tmplN(holeE(vr("u")), holeE(tmplN(holeB(setIdx("u", 0, iv(5))), holeE(vr("u")))), holeE(vr("u"))),
				} {
					hist([]N{asg("u", arr(iv(1), iv(2), iv(3))), stmt(t)})
					hist([]N{asg("u", arr(iv(1), iv(2), iv(3))), asg("w", t), stmt(arr(vr("w"), vr("u")))})
				}
				for _, t := range []N{
					tmplN(holeE(vr("u")), holeB(setAttr("u", "a", iv(5))), holeE(vr("u"))),
					tmplN(holeE(vr("u")), holeB(setAttr("u", "b", arr(iv(1)))), lit("-"), holeE(vr("u")), holeB(setAttr("u", "a", null)), holeE(vr("u"))),
				} {
					hist([]N{asg("u", dict1("a", iv(1))), stmt(t)})
				}
			}
			// prototype chains
			proto := func(v string, e N) N { return setAttr(v, "__proto__", e) }
			reads := func(v string) N {
				return arr(attr(vr(v), "hp"), attr(vr(v), "mp"), attr(vr(v), "zz"), attr(vr(v), "sh"))
			}
			chains := [][]N{
				// c -> p
				{asg("p", dict1("hp", iv(3))), setAttr("p", "sh", iv(1)), asg("c", dict1("mp", iv(5))), setAttr("c", "sh", iv(2)), proto("c", vr("p"))},
				// c -> p -> g, with shadowing at each level
				{asg("g", dict1("hp", iv(9))), setAttr("g", "zz", iv(7)), asg("p", dict1("hp", iv(3))), proto("p", vr("g")), asg("c", dict1("mp", iv(5))), proto("c", vr("p"))},
				// own entry holding null hides the chain
				{asg("p", dict1("hp", iv(3))), asg("c", dict1("hp", null)), proto("c", vr("p"))},
				// a prototype that is not a dict ends the chain
				{asg("p", dict1("hp", iv(3))), asg("c", dict1("mp", iv(5))), proto("c", iv(4))},
				{asg("p", dict1("hp", iv(3))), asg("c", dict1("mp", iv(5))), proto("c", arr(vr("p")))},
				// the chain returns to a visited dict
				{asg("c", dict1("mp", iv(5))), proto("c", vr("c"))},
				{asg("p", dict1("hp", iv(3))), asg("c", dict1("mp", iv(5))), proto("c", vr("p")), proto("p", vr("c"))},
				{asg("g", dict1("zz", iv(7))), asg("p", dict1("hp", iv(3))), asg("c", dict1("mp", iv(5))), proto("c", vr("p")), proto("p", vr("g")), proto("g", vr("p"))},
				{asg("p", emptyDict), proto("p", vr("p")), asg("c", dict1("mp", iv(5))), proto("c", vr("p"))},
			}
			for _, ch := range chains {
				prog := append([]N{}, ch...)
				prog = append(prog, asg("r", arr(reads("c"), reads("p"))))
				// writing through the child creates an own entry; the prototype keeps its own
				prog = append(prog, setAttr("c", "hp", iv(50)), asg("r2", arr(attr(vr("c"), "hp"), attr(vr("p"), "hp"))))
				prog = append(prog, proto("c", iv(0)), proto("p", iv(0)), asg("g", iv(0)))
				prog = append(prog, stmt(arr(vr("r"), vr("r2"))))
				hist(prog)
				// the same across programs of one history
				hist(append([]N{}, ch...), []N{stmt(reads("c"))}, []N{proto("c", iv(0)), proto("p", iv(0)), asg("g", iv(0)), stmt(reads("c"))})
			}
		}
		// name capture: a computed value or function written against a global variable, read from a frame that binds the same name
		{
			fn := func(name string, ps []string, body ...N) N { return N{"k": "func", "n": name, "ps": ps, "b": body} }
			comp := func(name string, e N) N { return stmt(N{"k": "computed", "n": name, "e": e, "pp": false}) }
			call := func(f string, args ...N) N {
				if args == nil {
					args = []N{}
				}
				return N{"k": "call", "f": f, "args": args, "pp": false}
			}
			ret := func(e N) N { return N{"k": "return", "has": true, "e": e} }
			ifs := func(c N, t ...N) N { return N{"k": "if", "c": c, "t": t, "e": []N{}, "elif": false} }
			this := func(n string) N { return N{"k": "this", "n": n, "pp": false} }
			hists := [][][]N{
				{{comp("cq", bin("+", vr("n"), iv(1))), asg("n", iv(10)), fn("g1", []string{"n"}, stmt(vr("cq"))), stmt(call("g1", iv(100)))}},
				{{comp("cq", bin("+", vr("n"), iv(1))), asg("n", iv(10)), fn("g1", []string{"m"}, asg("n", vr("m")), stmt(vr("cq"))), stmt(bin("+", bin("*", call("g1", iv(100)), iv(1000)), vr("n")))}},
				{{fn("h1", []string{}, stmt(bin("+", vr("n"), iv(1)))), asg("n", iv(10)), fn("g1", []string{"n"}, stmt(call("h1"))), stmt(call("g1", iv(100)))}},
				{{comp("cq", bin("*", vr("n"), iv(2))), asg("n", iv(3))}, {fn("g1", []string{"n"}, ifs(bin(">", vr("n"), iv(5)), ret(vr("cq"))), stmt(call("g1", bin("+", vr("n"), iv(1)))))}, {stmt(call("g1", iv(0)))}},
				// every evaluation of `&name = expr` makes a computed value of its own: attributes written to one result stay there
				{{fn("mk", []string{"nn"}, comp("cq", bin("+", this("nn"), iv(100))), stmt(N{"k": "computedAttr", "n": "cq", "a": "nn", "ac": []string{"n", "n"}, "e": vr("nn"), "pp": false}), ret(N{"k": "raw", "n": "cq", "pp": false})),
					asg("x1", call("mk", iv(1))), asg("x2", call("mk", iv(2))), stmt(N{"k": "arr", "xs": []N{vr("x1"), vr("x2")}, "pp": false})}},
				{{fn("mk", []string{"nn"}, comp("cq", bin("*", this("nn"), iv(2))), stmt(N{"k": "computedAttr", "n": "cq", "a": "nn", "ac": []string{"n", "n"}, "e": vr("nn"), "pp": false}), ret(N{"k": "raw", "n": "cq", "pp": false})),
					asg("x1", call("mk", iv(5)))}, {asg("x2", call("mk", iv(7)))}, {stmt(bin("+", bin("*", vr("x1"), iv(100)), vr("x2")))}},
				{{comp("k1", bin("+", vr("x"), iv(1))), comp("k2", bin("+", vr("k1"), this("x"))), stmt(N{"k": "computedAttr", "n": "k2", "a": "x", "ac": []string{"x"}, "e": iv(100), "pp": false}), asg("x", iv(1)), stmt(vr("k2"))}},
				{{fn("g1", []string{"n"}, comp("lq", bin("+", vr("n"), iv(1))), stmt(vr("lq"))), asg("n", iv(5)), stmt(call("g1", iv(7)))}},
				{{asg("n", iv(1)), fn("g1", []string{}, asg("n", iv(2)), stmt(vr("n"))), stmt(bin("+", bin("*", call("g1"), iv(10)), vr("n")))}},
				{{comp("cq", bin("+", vr("n"), vr("m"))), asg("n", iv(1)), asg("m", iv(2)), fn("g1", []string{"n"}, fn2body(vr, bin, iv)...), stmt(call("g1", iv(50)))}},
			}
			for _, h := range hists {
				id++
				w.Write(N{"id": id, "cfg": N{"div0": false, "mode": -1, "fuel": 40, "loopmax": 12}, "faces": []int{}, "progs": h})
			}
		}
		emitSummary(N{"histories": id})
		return 0
	}
}
