package main

import (
	"encoding/json"
	"errors"
	"fmt"
	"math/rand"
	"strconv"
	"strings"

	ds "github.com/sealdice/dicescript"
)

// C17: extension points are transparent unless they act.

// ---- extension sets that must never act on generated programs

type extLog struct {
	ParserCalls int
	Matches     int
	Invokes     int
	HookCalls   int
}

func installInert(vm *ds.Context, kinds []string, lg *extLog) {
	never := func(ctx *ds.Context, groups []string, payload any) (*ds.VMValue, string, error) {
		lg.Invokes++
		return ds.NewIntVal(424242), "", nil
	}
	for _, k := range kinds {
		switch k {
		case "regex-never":
			// cannot match: the character does not occur in generated programs
			_ = vm.RegCustomDice(`^☃(\d+)`, never)
		case "regex-unanchored":
			// matches only away from the operand start, which does not count
			_ = vm.RegCustomDice(`zq(\d+)`, never)
		case "regex-sometimes":
			_ = vm.RegCustomDice(`^@([A-Z])(\d+)`, never)
		case "stream-decline":
			// reads ahead a few characters, then declines without tidying up
			_ = vm.RegCustomDiceParser(func(ctx *ds.Context, s *ds.CustomDiceStream) (*ds.CustomDiceParseResult, error) {
				lg.ParserCalls++
				for i := 0; i < 3; i++ {
					s.Read()
				}
				return &ds.CustomDiceParseResult{Matched: false}, nil
			}, never)
		case "stream-nil":
			_ = vm.RegCustomDiceParser(func(ctx *ds.Context, s *ds.CustomDiceStream) (*ds.CustomDiceParseResult, error) {
				lg.ParserCalls++
				s.ReadDigits()
				s.Read()
				s.Unread()
				return nil, nil
			}, never)
		case "stream-empty-match":
			// claims a match of nothing: must not count as one
			_ = vm.RegCustomDiceParser(func(ctx *ds.Context, s *ds.CustomDiceStream) (*ds.CustomDiceParseResult, error) {
				lg.ParserCalls++
				s.Read()
				s.Unread()
				return &ds.CustomDiceParseResult{Matched: true, Groups: []string{"", "x"}}, nil
			}, never)
		case "stream-readexpr":
			// parses a whole expression ahead through the grammar, then declines
			_ = vm.RegCustomDiceParser(func(ctx *ds.Context, s *ds.CustomDiceStream) (*ds.CustomDiceParseResult, error) {
				lg.ParserCalls++
				func() {
					defer func() { recover() }()
					_, _, _ = s.ReadExpr("")
				}()
				return &ds.CustomDiceParseResult{Matched: false}, nil
			}, never)
		case "hooks":
			vm.Config.HookValueStore = func(ctx *ds.Context, name string, v *ds.VMValue) (*ds.VMValue, bool) {
				lg.HookCalls++
				return nil, false
			}
			vm.Config.HookValueLoadPre = func(ctx *ds.Context, name string) (string, *ds.VMValue) {
				lg.HookCalls++
				return name, nil
			}
			vm.Config.HookValueLoadPost = func(ctx *ds.Context, name string, cur *ds.VMValue, doCompute func(*ds.VMValue) *ds.VMValue, detail *ds.BufferSpan) *ds.VMValue {
				lg.HookCalls++
				return doCompute(cur)
			}
		case "rewriters":
			vm.Config.CustomDetailSpanRewriteFunc = func(ctx *ds.Context, def string, span ds.BufferSpan, isRoot bool, buf []byte, off int) string {
				lg.HookCalls++
				return def
			}
			vm.Config.CustomDetailRewriteFunc = func(ctx *ds.Context, cur string, span ds.BufferSpan, buf []byte, off int) string {
				lg.HookCalls++
				return cur
			}
		}
	}
}

var inertKinds = []string{"regex-never", "regex-unanchored", "regex-sometimes", "stream-decline", "stream-nil", "stream-empty-match", "stream-readexpr", "hooks", "rewriters"}

// ---- custom syntaxes that act, and programs placing them at operand starts

type custOp struct {
	Text    string   `json:"text"`   // what is written
	Groups  []string `json:"groups"` // what the handler must receive
	Value   int64    `json:"value"`  // what the handler returns
	Count   int      `json:"count"`  // how often the operand is evaluated
	Syntax  string   `json:"syntax"`
	Display string   `json:"display"` // the text the instruction carries
	Payload string   `json:"payload"`
}

type protoLog struct {
	Events []map[string]any
	shared *ds.VMValue
	kept   []*ds.VMValue
}

func installActing(vm *ds.Context, lg *protoLog) {
	lg.shared = ds.NewIntVal(0)
	handler := func(kind string) ds.CustomDiceHandler {
		return func(ctx *ds.Context, groups []string, payload any) (*ds.VMValue, string, error) {
			g := append([]string{}, groups...)
			pl := ""
			if payload != nil {
				pl = fmt.Sprint(payload)
			}
			lg.Events = append(lg.Events, map[string]any{"e": "invoke", "syntax": kind, "groups": g, "payload": pl, "depth": ctx.Depth()})
			// scribble on what we were given: the next invocation must see pristine groups
			for i := range groups {
				groups[i] = "scribbled"
			}
			var n int64
			switch kind {
			case "at":
				n, _ = strconv.ParseInt(g[2], 10, 64)
			case "w":
				a, _ := strconv.ParseInt(g[1], 10, 64)
				b, _ := strconv.ParseInt(g[2], 10, 64)
				n = a * b
			case "tilde", "pct":
				n, _ = strconv.ParseInt(g[1], 10, 64)
			}
			// every invocation returns the SAME object with a new content, and keeps it: the VM must have copied
			lg.shared.Value = ds.IntType(n)
			detail := ""
			if kind == "tilde" {
				detail = "tilde " + g[1]
			}
			return lg.shared, detail, nil
		}
	}
	_ = vm.RegCustomDice(`^@([A-Z])(\d+)`, handler("at"))
	_ = vm.RegCustomDice(`^(\d+)w(\d+)`, handler("w"))
	// ～12! or ~12 : a stream parser with a multi-byte opener, an optional suffix, a display text and a payload
	_ = vm.RegCustomDiceParser(func(ctx *ds.Context, s *ds.CustomDiceStream) (*ds.CustomDiceParseResult, error) {
		off := -1
		lg.Events = append(lg.Events, map[string]any{"e": "attempt", "syntax": "tilde", "rem": len(s.Remaining()), "off": off})
		r, ok := s.Read()
		if !ok || (r != '~' && r != '～') {
			return &ds.CustomDiceParseResult{Matched: false}, nil
		}
		d, ok := s.ReadDigits()
		if !ok {
			return nil, nil
		}
		bang := ""
		if r2, ok := s.Peek(); ok && r2 == '!' {
			s.Read()
			bang = "!"
		}
		return &ds.CustomDiceParseResult{Matched: true, Groups: []string{"", d, bang}, Display: "T" + d, Payload: "pl" + d}, nil
	}, handler("tilde"))
	// %12 : a stream parser that reads too far and steps back
	_ = vm.RegCustomDiceParser(func(ctx *ds.Context, s *ds.CustomDiceStream) (*ds.CustomDiceParseResult, error) {
		r, ok := s.Read()
		if !ok || r != '%' {
			return &ds.CustomDiceParseResult{Matched: false}, nil
		}
		d, ok := s.ReadDigits()
		if !ok {
			return &ds.CustomDiceParseResult{Matched: false}, nil
		}
		back := 0
		for i := 0; i < 2; i++ {
			if _, ok := s.Read(); ok {
				back++
			}
		}
		for ; back > 0; back-- {
			s.Unread()
		}
		return &ds.CustomDiceParseResult{Matched: true, Groups: []string{"", d}}, nil
	}, handler("pct"))
}

type protoGen struct {
	r    *rand.Rand
	ops  []custOp
	flat bool // a single expression: every evaluated operand appears in the process text as value[text...
}

// operand writes one custom operand evaluated `count` times and returns (text with the operand, text with its value)
func (g *protoGen) operand(count int) (string, string) {
	var o custOp
	n := g.r.Int63n(40)
	switch g.r.Intn(5) {
	case 0, 1:
		l := string(rune('A' + g.r.Intn(26)))
		o = custOp{Syntax: "at", Text: fmt.Sprintf("@%s%d", l, n), Value: n}
		o.Groups = []string{o.Text, l, fmt.Sprint(n)}
	case 2:
		a, b := 1+g.r.Int63n(6), 1+g.r.Int63n(6)
		o = custOp{Syntax: "w", Text: fmt.Sprintf("%dw%d", a, b), Value: a * b}
		o.Groups = []string{o.Text, fmt.Sprint(a), fmt.Sprint(b)}
	case 3:
		open := []string{"~", "～"}[g.r.Intn(2)]
		bang := []string{"", "!"}[g.r.Intn(2)]
		o = custOp{Syntax: "tilde", Text: fmt.Sprintf("%s%d%s", open, n, bang), Value: n}
		o.Groups = []string{o.Text, fmt.Sprint(n), bang}
	default:
		o = custOp{Syntax: "pct", Text: fmt.Sprintf("%%%d", n), Value: n}
		o.Groups = []string{o.Text, fmt.Sprint(n)}
	}
	o.Count = count
	o.Display = o.Text
	if o.Syntax == "tilde" {
		o.Display, o.Payload = "T"+fmt.Sprint(n), "pl"+fmt.Sprint(n)
	}
	g.ops = append(g.ops, o)
	return o.Text, fmt.Sprint(o.Value)
}

func (g *protoGen) sp() string { return []string{"", " ", "  "}[g.r.Intn(3)] }

// expr returns the program text with custom operands and the same text with their values written out
func (g *protoGen) expr(d, count int) (string, string) {
	if d <= 0 || g.r.Intn(3) == 0 {
		if g.r.Intn(3) == 0 {
			v := fmt.Sprint(g.r.Intn(9))
			return v, v
		}
		return g.operand(count)
	}
	switch g.r.Intn(8) {
	case 0:
		a, b := g.expr(d-1, count)
		return "(" + g.sp() + a + ")", "(" + b + ")"
	case 1: // array element and index
		a1, b1 := g.expr(d-1, count)
		a2, b2 := g.expr(d-1, count)
		k := g.r.Intn(2)
		return fmt.Sprintf("[%s,%s%s][%d]", a1, g.sp(), a2, k), fmt.Sprintf("[%s,%s][%d]", b1, b2, k)
	case 2: // call argument
		a, b := g.expr(d-1, count)
		return "abs(" + a + ")", "abs(" + b + ")"
	case 3: // ternary: only the taken branch is evaluated
		c := g.r.Intn(2)
		ca, cb := g.expr(0, count)
		cnt1, cnt2 := count, 0
		if c == 0 {
			cnt1, cnt2 = 0, count
		}
		a1, b1 := g.expr(d-1, cnt1)
		a2, b2 := g.expr(d-1, cnt2)
		return fmt.Sprintf("(%s*0+%d ? %s : %s)", ca, c, a1, a2), fmt.Sprintf("(%s*0+%d ? %s : %s)", cb, c, b1, b2)
	case 4: // dice operand
		a, b := g.expr(0, count)
		return "(" + a + "+1)d1", "(" + b + "+1)d1"
	case 5: // template hole
		a, b := g.expr(d-1, count)
		return "toInt(`{ " + a + "}`)", "toInt(`{ " + b + "}`)" // ({% opens a statement block)
	default:
		op := []string{"+", "-", "*"}[g.r.Intn(3)]
		a1, b1 := g.expr(d-1, count)
		a2, b2 := g.expr(d-1, count)
		s := g.sp()
		return a1 + s + op + s + a2, b1 + s + op + s + b2
	}
}

func (g *protoGen) program() (string, string) {
	switch g.r.Intn(6) {
	case 5: // straight-line: the process text shows every operand with the value it had when it was evaluated
		a, b := g.expr(2, 1)
		g.flat = true
		return a, b
	case 0: // loop body: evaluated k times
		k := 1 + g.r.Intn(3)
		a, b := g.expr(1, k)
		f := "i = 0; s = 0; while i < %d { s = s + %s; i = i + 1 }; s"
		return fmt.Sprintf(f, k, a), fmt.Sprintf(f, k, b)
	case 1: // function body: evaluated once per call
		k := 1 + g.r.Intn(3)
		a, b := g.expr(1, k)
		calls := strings.TrimSuffix(strings.Repeat("fn(1) + ", k), " + ")
		f := "func fn(n) { %s + n }; %s"
		return fmt.Sprintf(f, a, calls), fmt.Sprintf(f, b, calls)
	case 2: // several statements, assignments
		a1, b1 := g.expr(2, 1)
		a2, b2 := g.expr(1, 1)
		f := "x = %s;\ny = %s; x + y"
		return fmt.Sprintf(f, a1, a2), fmt.Sprintf(f, b1, b2)
	case 3: // if statement: one arm runs
		c := g.r.Intn(2)
		a1, b1 := g.expr(1, c)
		a2, b2 := g.expr(1, 1-c)
		f := "v = 0; if %d { v = %s } else { v = %s }; v"
		return fmt.Sprintf(f, c, a1, a2), fmt.Sprintf(f, c, b1, b2)
	default:
		return g.expr(3, 1)
	}
}

func init() {
	// paired runs: every program of a history on a plain VM and on a VM with inert extensions
	subcmds["c17-transparent"] = func(args []string) int {
		fs := newFlags("c17-transparent")
		in := fs.String("in", "", "inputs ndjson {src}")
		out := fs.String("out", "", "events ndjson")
		fs.Parse(args)
		installRollHook()
		r := rand.New(rand.NewSource(envSeed()))
		w := newNDWriter(*out)
		defer w.Close()
		var srcs []string
		readND(*in, func(line []byte) {
			var rec struct {
				Src string `json:"src"`
			}
			if json.Unmarshal(line, &rec) == nil {
				for _, u := range []string{"dir(", ".keys(", ".values(", ".items("} { // results in map order: unspecified
					if strings.Contains(rec.Src, u) {
						return
					}
				}
				srcs = append(srcs, rec.Src)
			}
		})
		// annotations beyond the length at which the process text abbreviates them, sub-rolls, computed values holding rolls
		srcs = append(srcs, "250d6", "300d4 + 1", "&lr = 250d6; lr + 1", "(3d6)d4", "200d10kh150", "func bigroll() { 300d6 }; bigroll() + 260d8", "`{280d6}`", "2 + 300d3 * 2", "180b1", "90a6 + 250d2")
		r.Shuffle(len(srcs), func(i, j int) { srcs[i], srcs[j] = srcs[j], srcs[i] })
		n := 0
		for i := 0; i < len(srcs); {
			// histories of 1-3 programs on one VM
			h := 1 + r.Intn(3)
			if i+h > len(srcs) {
				h = len(srcs) - i
			}
			hist := srcs[i : i+h]
			i += h
			// a random non-empty set of extension kinds
			var kinds []string
			for _, k := range inertKinds {
				if r.Intn(3) == 0 {
					kinds = append(kinds, k)
				}
			}
			if len(kinds) == 0 {
				kinds = []string{inertKinds[r.Intn(len(inertKinds))]}
			}
			seed := uint64(r.Int63())
			a, b := newSeededVM(seed), newSeededVM(seed)
			a.Config.OpCountLimit, b.Config.OpCountLimit = 30000, 30000
			lg := &extLog{}
			installInert(b, kinds, lg)
			var oa, ob []hostOut
			for hi, p := range hist {
				// text that the unanchored pattern finds, but never at the start of an operand
				switch r.Intn(4) {
				case 0:
					p = p + " // zq7"
				case 1:
					p = "'zq12'; " + p
				}
				hist[hi] = p
				expectSrc = a.RandSrc
				oa = append(oa, observeRun(a, p, nil, false, false))
				expectSrc = b.RandSrc
				ob = append(ob, observeRun(b, p, nil, false, false))
			}
			w.Write(map[string]any{"ev": "c17t", "hist": hist, "ext": kinds, "a": oa, "b": ob, "parserCalls": lg.ParserCalls, "matches": lg.Matches, "invokes": lg.Invokes, "hookCalls": lg.HookCalls})
			n++
		}
		emitSummary(map[string]any{"experiments": n, "programs": len(srcs)})
		return 0
	}

	// programs with acting custom operands in every kind of operand position
	// by copy: handlers that return ONE container object every time, and a stream parser that returns ONE groups slice every time;
	// what the script does to the value it got must not reach the handler's object nor later evaluations, and every handler call must
	// see the text and groups of its own operand
	subcmds["c17-copy"] = func(args []string) int {
		fs := newFlags("c17-copy")
		out := fs.String("out", "", "events ndjson")
		fs.Parse(args)
		w := newNDWriter(*out)
		defer w.Close()
		type probe struct{ kind, setup, src, want string }
		probes := []probe{
			{"array", "", "va = QQ; va[0] = 9; QQ", `[1, 2]`}, {"array", "", "va = QQ; va.push(7); va.pop(); va.push(8); QQ", `[1, 2]`},
			{"array", "", "va = QQ; vw = QQ; va[1] = 5; vw", `[1, 2]`}, {"array", "", "func g7() { QQ }; va = g7(); va[0] = 3; g7()", `[1, 2]`},
			{"nested", "", "va = QN; va[1][0] = 9; QN", `[1, [2, 3]]`}, {"nested", "", "va = QN; va[1].push(4); QN", `[1, [2, 3]]`},
			{"dict", "", "va = QD; va.k = 9; vw = QD; vw", `{'k': 1}`}, {"dict", "", "va = QD; va.zz = 1; vw = QD; vw", `{'k': 1}`},
		}
		for _, pr := range probes {
			vm := ds.NewVM()
			arr := ds.NewArrayVal(ds.NewIntVal(1), ds.NewIntVal(2))
			nested := ds.NewArrayVal(ds.NewIntVal(1), ds.NewArrayVal(ds.NewIntVal(2), ds.NewIntVal(3)))
			dict := ds.NewDictVal(nil)
			dict.Store("k", ds.NewIntVal(1))
			_ = vm.RegCustomDice(`QQ`, func(ctx *ds.Context, groups []string, payload any) (*ds.VMValue, string, error) { return arr, "", nil })
			_ = vm.RegCustomDice(`QN`, func(ctx *ds.Context, groups []string, payload any) (*ds.VMValue, string, error) {
				return nested, "", nil
			})
			_ = vm.RegCustomDice(`QD`, func(ctx *ds.Context, groups []string, payload any) (*ds.VMValue, string, error) {
				return dict.V(), "", nil
			})
			ev := map[string]any{"ev": "c17c", "kind": pr.kind, "src": pr.src, "err": false, "got": "", "want": pr.want, "handlerObject": "", "handlerWant": "", "texts": []string{}, "wantTexts": []string{}}
			if err, pan := runOne(vm, pr.src); err != nil || pan != nil || vm.RestInput != "" {
				ev["err"] = true
				ev["got"] = fmt.Sprint(err, pan, vm.RestInput)
			} else {
				ev["got"] = vm.Ret.ToString()
			}
			switch pr.kind {
			case "array":
				ev["handlerObject"], ev["handlerWant"] = arr.ToString(), "[1, 2]"
			case "nested":
				ev["handlerObject"], ev["handlerWant"] = nested.ToString(), "[1, [2, 3]]"
			case "dict":
				ev["handlerObject"], ev["handlerWant"] = dict.V().ToString(), "{'k': 1}"
			}
			w.Write(ev)
		}
		// one groups slice for every match, first element left empty ("use the matched text")
		{
			vm := ds.NewVM()
			groups := []string{"", "tag"}
			var seen []string
			_ = vm.RegCustomDiceParser(func(ctx *ds.Context, s *ds.CustomDiceStream) (*ds.CustomDiceParseResult, error) {
				if r, ok := s.Read(); !ok || r != 'S' {
					return nil, nil
				}
				if _, ok := s.ReadDigits(); !ok {
					return nil, nil
				}
				groups[0] = ""
				return &ds.CustomDiceParseResult{Matched: true, Groups: groups}, nil
			}, func(ctx *ds.Context, g []string, payload any) (*ds.VMValue, string, error) {
				seen = append(seen, g[0])
				return ds.NewIntVal(1), "", nil
			})
			src := "S1 + S22 + S333"
			ev := map[string]any{"ev": "c17c", "kind": "groups", "src": src, "err": false, "got": "", "want": "3", "handlerObject": "", "handlerWant": "", "texts": []string{}, "wantTexts": []string{"S1", "S22", "S333"}}
			if err, pan := runOne(vm, src); err != nil || pan != nil {
				ev["err"] = true
			} else {
				ev["got"] = vm.Ret.ToString()
			}
			if seen == nil {
				seen = []string{}
			}
			ev["texts"] = seen
			w.Write(ev)
		}
		emitSummary(map[string]any{"probes": len(probes) + 1})
		return 0
	}

	subcmds["c17-protocol"] = func(args []string) int {
		fs := newFlags("c17-protocol")
		out := fs.String("out", "", "events ndjson")
		n := fs.Int("n", 500, "programs")
		fs.Parse(args)
		installRollHook()
		r := rand.New(rand.NewSource(envSeed()))
		w := newNDWriter(*out)
		defer w.Close()
		for i := 0; i < *n; i++ {
			g := &protoGen{r: r}
			src, plain := g.program()
			seed := uint64(r.Int63())
			a, b := newSeededVM(seed), newSeededVM(seed)
			a.Config.OpCountLimit, b.Config.OpCountLimit = 30000, 30000
			lg := &protoLog{}
			installActing(b, lg)
			ds.VerifStepHook = func(info *ds.VerifStepInfo) {
				if info.Op == "dice.custom" {
					t, gr, pl, _ := ds.VerifCustomDiceOperand(info.Operand)
					p := ""
					if pl != nil {
						p = fmt.Sprint(pl)
					}
					lg.Events = append(lg.Events, map[string]any{"e": "exec", "text": t, "groups": gr, "payload": p, "depth": info.Depth, "pc": info.PC})
				}
			}
			expectSrc = b.RandSrc
			ob := observeRun(b, src, nil, false, false)
			ds.VerifStepHook = nil
			// the compiled operands, in code order (nested bodies included)
			listing := []map[string]any{}
			var walk func(l []ds.VerifInstr)
			walk = func(l []ds.VerifInstr) {
				for _, in := range l {
					if in.Op == "dice.custom" {
						t, gr, pl, _ := ds.VerifCustomDiceOperand(in.Operand)
						p := ""
						if pl != nil {
							p = fmt.Sprint(pl)
						}
						listing = append(listing, map[string]any{"text": t, "groups": gr, "payload": p})
					}
					if in.Body != nil {
						walk(in.Body)
					}
				}
			}
			func() {
				defer func() { recover() }()
				walk(b.VerifCode())
			}()
			// what the handler returned is ours to change afterwards: nothing the VM holds may follow
			retBefore, varsBefore := ob.Ret, ob.Vars
			lg.shared.Value = ds.IntType(-777)
			retAfter, varsAfter := "", ""
			func() {
				defer func() { recover() }()
				if !ob.Err && !ob.Panic {
					retAfter = canon(project(b.Ret, 0))
				}
				varsAfter = varsOf(b)
			}()
			// the process text (rendered by observeRun before the handler's object was changed) names every evaluated operand with its value
			shown := []map[string]any{}
			if g.flat && !ob.Err && !ob.Panic && ob.Detail != "" {
				for _, o := range g.ops {
					if o.Count == 1 && !strings.ContainsAny(o.Text, "~～") {
						want := fmt.Sprintf("%d[%s", o.Value, o.Text)
						sub := fmt.Sprintf(",%s=%d", o.Text, o.Value) // inside a dice operand it is listed as a sub-roll
						shown = append(shown, map[string]any{"want": want, "present": strings.Contains(ob.Detail, want) || strings.Contains(ob.Detail, sub)})
					}
				}
			}
			expectSrc = a.RandSrc
			oa := observeRun(a, plain, nil, false, false)
			if ob.Err || ob.Panic {
				retBefore, retAfter = "", ""
			}
			evs := lg.Events
			if evs == nil {
				evs = []map[string]any{}
			}
			if g.ops == nil {
				g.ops = []custOp{}
			}
			w.Write(map[string]any{"ev": "c17p", "src": src, "plain": plain, "ops": g.ops, "events": evs, "listing": listing,
				"a": oa, "b": ob, "retBefore": retBefore, "retAfter": retAfter, "varsBefore": varsBefore, "varsAfter": varsAfter, "shown": shown})
		}
		emitSummary(map[string]any{"programs": *n})
		return 0
	}
}

var _ = errors.New
