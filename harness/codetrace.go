package main

import (
	"encoding/json"

	ds "github.com/sealdice/dicescript"
)

// H1 step traces, grouped per VM frame (main program, function call, computed-value evaluation), for Trace_ByteVM.

type stepJ struct {
	PC   int    `json:"pc"`
	Op   string `json:"op"`
	N    int64  `json:"n"`
	Top  int    `json:"top"`
	Blk  int    `json:"blk"`
	FBlk int    `json:"fblk"`
	Dice int    `json:"dice"`
	NDet int    `json:"ndet"`
	Ops  int64  `json:"ops"`
	Len  int    `json:"len"`
}

type frameJ struct {
	Src    int     `json:"src"`
	Depth  int     `json:"depth"`
	Steps  []stepJ `json:"steps"`
	Ended  string  `json:"ended"` // "ok", "error", "panic", "cut"
	EndTop int     `json:"endTop"`
}

type stepRecorder struct {
	frames map[*ds.Context]*frameJ
	order  []*frameJ
	src    int
	total  int
	cap    int
}

func (r *stepRecorder) hook(info *ds.VerifStepInfo) {
	f := r.frames[info.Ctx]
	if f == nil {
		f = &frameJ{Src: r.src, Depth: info.Depth, Steps: []stepJ{}}
		r.frames[info.Ctx] = f
		r.order = append(r.order, f)
	}
	r.total++
	if len(f.Steps) >= r.cap {
		f.Ended = "cut"
		return
	}
	n, _ := operandInt(info.Operand)
	f.Steps = append(f.Steps, stepJ{PC: info.PC, Op: info.Op, N: n, Top: info.Top, Blk: info.Blk, FBlk: info.FBlk, Dice: info.Dice, NDet: info.NDet, Ops: int64(info.NumOpCount), Len: info.CodeLen})
}

var preloadSets = []map[string]*ds.VMValue{
	{},
	{"x": ds.NewIntVal(1), "y": ds.NewIntVal(2), "z": ds.NewIntVal(0), "vv": ds.NewIntVal(5), "i": ds.NewIntVal(0), "j": ds.NewIntVal(1),
		"arr": ds.NewArrayVal(ds.NewIntVal(1), ds.NewIntVal(2), ds.NewIntVal(3)), "nn": ds.NewIntVal(3), "ww": ds.NewStrVal("w"), "力量": ds.NewIntVal(60)},
	{"x": ds.NewIntVal(0), "y": ds.NewStrVal(""), "z": ds.NewNullVal(), "vv": ds.NewArrayVal(), "i": ds.NewIntVal(3), "j": ds.NewIntVal(0),
		"arr": ds.NewArrayVal(), "nn": ds.NewFloatVal(1.5), "dct": ds.NewDictVal(nil).V()},
}

func init() {
	subcmds["code-trace"] = func(args []string) int {
		fs := newFlags("code-trace")
		idx := fs.String("index", "", "accepted inputs ndjson {id, src, cfg}")
		out := fs.String("out", "", "frames ndjson")
		fs.Parse(args)
		w := newNDWriter(*out)
		defer w.Close()
		runs, panics, steps := 0, 0, 0
		rec := &stepRecorder{cap: 400}
		ds.VerifStepHook = rec.hook
		installRollHook()
		readND(*idx, func(line []byte) {
			var in struct {
				Id  int    `json:"id"`
				Src string `json:"src"`
				Cfg int    `json:"cfg"`
			}
			if json.Unmarshal(line, &in) != nil {
				return
			}
			for pi, pre := range preloadSets {
				if pi > 0 && in.Id%3 != pi%3 {
					continue // every program with empty state, a third of them with each pre-load
				}
				rec.frames, rec.order, rec.src = map[*ds.Context]*frameJ{}, nil, in.Id
				vm := ds.NewVM()
				dumpCfgs[in.Cfg].apply(vm)
				vm.Config.OpCountLimit = 3000
				for k, v := range pre {
					vm.Attrs.Store(k, v.Clone())
				}
				resetRolls(nil, false)
				ended := "ok"
				func() {
					defer func() {
						if r := recover(); r != nil {
							ended = "panic"
							panics++
						}
					}()
					if err := vm.Run(in.Src); err != nil {
						ended = "error"
					}
				}()
				runs++
				for i, f := range rec.order {
					if f.Ended == "" {
						if i == 0 {
							f.Ended = ended
						} else {
							f.Ended = "sub"
						}
					}
					if i == 0 {
						f.EndTop = vm.StackTop()
					}
					steps += len(f.Steps)
					w.Write(f)
				}
			}
		})
		ds.VerifStepHook = nil
		emitSummary(map[string]any{"runs": runs, "frames": w.n, "steps": steps, "panics": panics})
		return 0
	}
}
