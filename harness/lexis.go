package main

import (
	"encoding/json"
	"fmt"
	"os"

	ds "github.com/sealdice/dicescript"
)

// C13: literals written by spec/Lexis.tla, evaluated by the real parser/VM, alone and inside surrounding evaluations.

func init() {
	subcmds["lexis-exec"] = func(args []string) int {
		fs := newFlags("lexis-exec")
		in := fs.String("in", "", "cases prefix (<prefix>.<n>)")
		out := fs.String("out", "", "mismatch ndjson")
		fs.Parse(args)
		w := newNDWriter(*out)
		defer w.Close()
		n, skipped, bad := 0, 0, 0
		for k := 0; ; k++ {
			f := fmt.Sprintf("%s.%d", *in, k)
			if _, err := os.Stat(f); err != nil {
				break
			}
			readND(f, func(line []byte) {
				var c struct {
					Src    []string `json:"src"`
					Exp    []string `json:"exp"`
					Style  int      `json:"style"`
					Policy string   `json:"policy"`
					Ok     bool     `json:"ok"`
				}
				if err := json.Unmarshal(line, &c); err != nil {
					fatal("bad case %v", err)
				}
				if !c.Ok {
					skipped++
					return
				}
				n++
				lit := charsToString(c.Src)
				want := charsToString(c.Exp)
				ctxs := []struct{ pre, post string }{{"", ""}}
				switch n % 5 {
				case 0:
					ctxs = append(ctxs, struct{ pre, post string }{"[7, ", ", 8][1]"})
				case 1:
					ctxs = append(ctxs, struct{ pre, post string }{"x = ", "; x"})
				case 2:
					ctxs = append(ctxs, struct{ pre, post string }{"'<' + ", " + '>'"})
				case 3:
					ctxs = append(ctxs, struct{ pre, post string }{"toStr(", ")"})
				}
				for ci, cx := range ctxs {
					src := cx.pre + lit + cx.post
					exp := want
					if ci == 1 && n%5 == 2 {
						exp = "<" + want + ">"
					}
					vm := ds.NewVM()
					err, pan := runOne(vm, src)
					got, kind := "", ""
					switch {
					case pan != nil:
						kind = "panic"
					case err != nil:
						kind, got = "error", err.Error()
					case vm.RestInput != "":
						kind, got = "rest", vm.RestInput
					default:
						s, ok := vm.Ret.ReadString()
						if !ok {
							kind, got = "type", vm.Ret.ToRepr()
						} else if s != exp {
							kind, got = "text", s
						}
					}
					if kind != "" {
						bad++
						w.Write(map[string]any{"kind": kind, "src": src, "srcSyms": c.Src, "style": c.Style, "policy": c.Policy, "exp": exp, "got": got, "ctx": ci})
					}
				}
			})
		}
		emitSummary(map[string]any{"cases": n, "unrepresentable_skipped": skipped, "mismatches": bad})
		return 0
	}
}
