package main

import (
	"bytes"
	"fmt"
	"math"
	"math/rand"

	ds "github.com/sealdice/dicescript"
	xrand "golang.org/x/exp/rand"
)

// C05: which raw generator words the real Roll consumed for a die of n sides, and the face it returned.
// The source is cloned before the call and the clone replayed until its state equals the live one, so no hook
// is involved and the original body of Roll/_roll64/_roll32 is what runs.

type wordEv struct {
	W   int    `json:"w"`   // 64: Roll/_roll64, 32: _roll32 (word = upper half)
	Via string `json:"via"` // api | vm | roll32
	N   uint64 `json:"n"`
	V   uint64 `json:"v"`
	Acc bool   `json:"acc"` // true for the last word of a call (the one turned into the face)
	R   uint64 `json:"r"`   // face returned (0 for rejected words)
	K   int    `json:"k"`   // index of the word within the call
}

func cloneSrc(s *xrand.PCGSource) *xrand.PCGSource {
	b, _ := s.MarshalBinary()
	c := &xrand.PCGSource{}
	_ = c.UnmarshalBinary(b)
	return c
}

func sameSrc(a, b *xrand.PCGSource) bool {
	x, _ := a.MarshalBinary()
	y, _ := b.MarshalBinary()
	return bytes.Equal(x, y)
}

// consumed replays clone until it equals live; returns the words drawn (nil, false if it never matches)
func consumed(clone, live *xrand.PCGSource) ([]uint64, bool) {
	var ws []uint64
	for i := 0; i <= 4096; i++ {
		if sameSrc(clone, live) {
			return ws, true
		}
		ws = append(ws, clone.Uint64())
	}
	return nil, false
}

func init() {
	subcmds["roll-words"] = func(args []string) int {
		fs := newFlags("roll-words")
		out := fs.String("out", "", "events ndjson")
		per := fs.Int("per", 12, "calls per side count")
		fs.Parse(args)
		rng := rand.New(rand.NewSource(envSeed()))
		w := newNDWriter(*out)
		defer w.Close()
		var ns []uint64
		for k := 0; k <= 62; k += 7 {
			ns = append(ns, 1<<uint(k))
		}
		ns = append(ns, 1, 2, 3, 5, 6, 7, 10, 20, 100, 1000003)
		big := []uint64{1<<62 + 1, 1<<62 + 12345, 1<<63 - 2, 1<<63 - 3, (math.MaxUint64 / 3) + 7, 3 << 61, 1<<63 - 1<<32, 5 << 60, 1<<61 + 1, 7 << 60}
		for i := 0; i < 3; i++ {
			ns = append(ns, big...)
		}
		for i := 0; i < 6; i++ {
			ns = append(ns, uint64(1<<62)+uint64(rng.Int63n(1<<62-4))+1)
		}
		calls, anomalies, rejected := 0, 0, 0
		emit := func(width int, via string, n uint64, ws []uint64, face uint64) {
			for i, v := range ws {
				e := wordEv{W: width, Via: via, N: n, V: v, K: i}
				if width == 32 {
					e.V = v >> 32
				}
				if i == len(ws)-1 {
					e.Acc, e.R = true, face
				} else {
					rejected++
				}
				w.Write(e)
			}
		}
		for _, n := range ns {
			src := &xrand.PCGSource{}
			src.Seed(uint64(rng.Int63()))
			for c := 0; c < *per; c++ {
				calls++
				clone := cloneSrc(src)
				face := ds.Roll(src, ds.IntType(n), 0)
				ws, ok := consumed(clone, src)
				if !ok || len(ws) == 0 {
					anomalies++
					w.Write(map[string]any{"w": 64, "via": "api", "n": n, "v": 0, "acc": true, "r": uint64(face), "k": -1, "anomaly": "no word of the given source was consumed"})
					continue
				}
				emit(64, "api", n, ws, uint64(face))
			}
			// through a seeded context: d<n> must draw from the context's generator
			vm := newSeededVM(uint64(rng.Int63()))
			for c := 0; c < *per/3+1; c++ {
				calls++
				clone := cloneSrc(vm.RandSrc)
				if err := vm.Run(fmt.Sprintf("d%d", n)); err != nil {
					anomalies++
					w.Write(map[string]any{"w": 64, "via": "vm", "n": n, "v": 0, "acc": true, "r": 0, "k": -1, "anomaly": "error: " + err.Error()})
					continue
				}
				face, _ := vm.Ret.ReadInt()
				ws, ok := consumed(clone, vm.RandSrc)
				if !ok || len(ws) == 0 {
					anomalies++
					w.Write(map[string]any{"w": 64, "via": "vm", "n": n, "v": 0, "acc": true, "r": uint64(face), "k": -1, "anomaly": "no word of the context's generator was consumed"})
					continue
				}
				emit(64, "vm", n, ws, uint64(face))
			}
		}
		// _roll32 (used on 32-bit platforms)
		n32 := []uint64{1, 2, 3, 7, 1 << 10, 1 << 30, 1<<30 + 1, 1<<31 - 2, 1<<31 - 3, 3 << 29, 1<<30 + 98765, (math.MaxUint32 / 3) + 5}
		for rep := 0; rep < 3; rep++ {
			for _, n := range n32 {
				src := &xrand.PCGSource{}
				src.Seed(uint64(rng.Int63()))
				for c := 0; c < *per; c++ {
					calls++
					clone := cloneSrc(src)
					face := ds.VerifRoll32(src, int(n))
					ws, ok := consumed(clone, src)
					if !ok || len(ws) == 0 {
						anomalies++
						continue
					}
					emit(32, "roll32", n, ws, uint64(face))
				}
			}
		}
		// informational chi-square over small n (never decides the verdict)
		chi := map[string]float64{}
		for _, n := range []int{2, 3, 6, 10, 20, 100} {
			src := &xrand.PCGSource{}
			src.Seed(uint64(rng.Int63()))
			cnt := make([]int, n)
			const draws = 120000
			for i := 0; i < draws; i++ {
				cnt[int(ds.Roll(src, ds.IntType(n), 0))-1]++
			}
			exp := float64(draws) / float64(n)
			x := 0.0
			for _, c := range cnt {
				d := float64(c) - exp
				x += d * d / exp
			}
			chi[fmt.Sprintf("d%d", n)] = math.Round(x*100) / 100
		}
		emitSummary(map[string]any{"calls": calls, "events": w.n, "rejected_words": rejected, "anomalies": anomalies, "chi_square": chi})
		return 0
	}
}
