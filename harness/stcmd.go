package main

import (
	"encoding/json"
	"fmt"
	"os"
	"strings"

	ds "github.com/sealdice/dicescript"
)

// C18: the st command against spec/StCmd.tla.

var stNames = map[int]struct{ src, name string }{
	1: {"力量", "力量"}, 2: {"敏捷", "敏捷"}, 3: {"hp", "hp"}, 4: {"射击:弓箭", "射击:弓箭"}, 5: {"'a b'", "a b"}, 6: {"'x2'", "x2"}, 7: {"dex", "dex"},
}

type stExp struct {
	Type     string `json:"type"`
	Name     int    `json:"name"`
	N        int64  `json:"n"`
	D        int64  `json:"d"`
	Int      bool   `json:"int"`
	HasExtra bool   `json:"hasExtra"`
	En       int64  `json:"en"`
	Ed       int64  `json:"ed"`
	Eint     bool   `json:"eint"`
	Op       string `json:"op"`
	Comp     bool   `json:"comp"`
	Text     string `json:"text"`
}

type stCall struct {
	Type  string `json:"type"`
	Name  string `json:"name"`
	Val   J      `json:"val"`
	Extra J      `json:"extra"`
	Op    string `json:"op"`
	Text  string `json:"text"`
}

func numMatches(p J, n, d int64, isInt bool) bool {
	if isInt {
		v, _ := asInt(p["v"])
		return p["t"] == "int" && v == n && d == 1
	}
	if p["t"] != "flt" {
		return false
	}
	pn, _ := asInt(p["n"])
	pd, _ := asInt(p["d"])
	return pn*d == n*pd
}

func stMatches(e stExp, c stCall) string {
	if c.Type != e.Type {
		return "type"
	}
	if c.Name != stNames[e.Name].name {
		return "name"
	}
	if c.Op != e.Op {
		return "op"
	}
	if e.Comp {
		if c.Val["t"] != "comp" {
			return "value"
		}
		if strings.Join(strings.Fields(fmt.Sprint(c.Val["expr"])), "") != e.Text {
			return "value"
		}
	} else if !numMatches(c.Val, e.N, e.D, e.Int) {
		return "value"
	}
	if e.HasExtra != (c.Extra != nil) {
		return "extra"
	}
	if e.HasExtra && !numMatches(c.Extra, e.En, e.Ed, e.Eint) {
		return "extra"
	}
	if e.Type == "mod" && strings.Join(strings.Fields(c.Text), "") != e.Text {
		return "text"
	}
	return ""
}

func runSt(input string) (calls []stCall, rest string, err error, pan any) {
	vm := ds.NewVM()
	vm.Config.CallbackSt = func(_type string, name string, val *ds.VMValue, extra *ds.VMValue, op string, detail string) {
		c := stCall{Type: _type, Name: name, Val: project(val, 0), Op: op, Text: detail}
		if val != nil && val.TypeId == ds.VMTypeComputedValue {
			cd, _ := val.ReadComputed()
			c.Val["expr"] = cd.Expr
		}
		if extra != nil {
			c.Extra = project(extra, 0)
		}
		calls = append(calls, c)
	}
	err, pan = runOne(vm, input)
	rest = vm.RestInput
	return
}

func init() {
	subcmds["st-exec"] = func(args []string) int {
		fs := newFlags("st-exec")
		in := fs.String("in", "", "cases prefix")
		out := fs.String("out", "", "mismatch ndjson")
		fs.Parse(args)
		w := newNDWriter(*out)
		defer w.Close()
		n, bad, badRunon := 0, 0, 0
		tails := []string{"", "", " !!", " @", " ；备注", " .", " 。"}
		for _, suf := range []string{"a1", "m1", "a2", "m2", "a3", "m3"} {
			f := fmt.Sprintf("%s.%s", *in, suf)
			if _, err := os.Stat(f); err != nil {
				continue
			}
			readND(f, func(line []byte) {
				var c struct {
					Spell string  `json:"spell"`
					Exp   []stExp `json:"exp"`
					Ok    bool    `json:"ok"`
					Runon bool    `json:"runon"`
				}
				if err := json.Unmarshal(line, &c); err != nil {
					fatal("bad case: %v", err)
				}
				if !c.Ok {
					return
				}
				n++
				src := c.Spell
				for id, nm := range stNames {
					src = strings.ReplaceAll(src, fmt.Sprintf("<N%d>", id), nm.src)
				}
				tail := tails[n%len(tails)]
				calls, rest, err, pan := runSt(src + tail)
				why := ""
				switch {
				case pan != nil:
					why = "panic"
				case err != nil:
					why = "error: " + err.Error()
				case strings.TrimSpace(rest) != strings.TrimSpace(tail):
					why = fmt.Sprintf("rest %q", rest)
				case len(calls) != len(c.Exp):
					why = fmt.Sprintf("%d callbacks for %d edits", len(calls), len(c.Exp))
				default:
					for i := range c.Exp {
						if m := stMatches(c.Exp[i], calls[i]); m != "" {
							why = fmt.Sprintf("edit %d: %s differs", i+1, m)
							break
						}
					}
				}
				if why != "" && c.Runon {
					// failures of lists under the known finding are kept apart, so that they cannot crowd out other failures
					badRunon++
					if badRunon <= 40 {
						w.Write(map[string]any{"input": src + tail, "why": why, "exp": c.Exp, "got": calls, "runon": true})
					}
				} else if why != "" {
					bad++
					if bad <= 400 {
						w.Write(map[string]any{"input": src + tail, "why": why, "exp": c.Exp, "got": calls, "runon": c.Runon})
					}
				}
			})
		}
		emitSummary(map[string]any{"cases": n, "mismatches": bad, "mismatches_runon": badRunon})
		return 0
	}
}
