package main

import (
	"fmt"

	ds "github.com/sealdice/dicescript"
)

func init() {
	subcmds["probe"] = func(args []string) int {
		for _, a := range args {
			vm := ds.NewVM()
			vm.Config.EnableDiceWoD = true
			vm.Config.EnableDiceCoC = true
			vm.Config.EnableDiceFate = true
			vm.Config.EnableDiceDoubleCross = true
			func() {
				defer func() {
					if r := recover(); r != nil {
						fmt.Printf("%q PANIC %v\n", a, r)
					}
				}()
				err := vm.Run(a)
				if err != nil {
					fmt.Printf("%q ERR %v\n", a, err)
					return
				}
				fmt.Printf("%q => %s | matched=%q rest=%q detail=%q\n", a, vm.Ret.ToRepr(), vm.Matched, vm.RestInput, vm.GetDetailText())
			}()
		}
		return 0
	}
}

func init() {
	subcmds["asm"] = func(args []string) int {
		for _, a := range args {
			vm := ds.NewVM()
			vm.Config.EnableDiceWoD, vm.Config.EnableDiceCoC, vm.Config.EnableDiceFate, vm.Config.EnableDiceDoubleCross = true, true, true, true
			if err := vm.Parse(a); err != nil {
				fmt.Printf("%q PARSE-ERR %v\n", a, err)
				continue
			}
			fmt.Printf("%q\n", a)
			for i, in := range vm.VerifCode() {
				fmt.Printf("  %3d %-16s %v\n", i, in.Op, in.Operand)
			}
		}
		return 0
	}
}

func init() {
	subcmds["tojson"] = func(args []string) int {
		for _, a := range args {
			vm := ds.NewVM()
			if err := vm.Run(a); err != nil {
				fmt.Printf("%q ERR %v\n", a, err)
				continue
			}
			b, err := vm.Ret.ToJSON()
			fmt.Printf("%q => %s err=%v\n", a, string(b), err)
		}
		return 0
	}
}
