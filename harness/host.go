package main

import (
	"encoding/json"
	"fmt"
	"math/rand"

	ds "github.com/sealdice/dicescript"
)

// Replay of the call sequences of spec/Host.tla on one real context each.

var hostPool = map[string][]string{
	"pure":   {"1+2*3", "[1,2,3].sum()", "`a{1+1}b`", "7 > 3 ? 'y' : 'n'", "[1,2,3][1:]", "{'k': [1,2]}.k[0]", "func q9(n) { n * 2 }; q9(4)", "i9 = 0; while i9 < 3 { i9 = i9 + 1 }; i9", "abs(-3) + toInt('4')"},
	"fails":  {"null + 1", "[1][5]", "'a' - 1", "1 % 'x'", "[1,2,3].nope()", "undefinedFn9(1)", "{'a':1}[[]] + 1", "-'s'", "3d0"},
	"syntax": {"(2", "'abc", "[1, 2", "@@", "`a{1", "", ")", "{'a':", "\x1eab", "(1 +"},
	"dice":   {"2d6+1", "4d6k3", "d20", "3d10kl1 * 2", "`{1d4}`", "[1d6, 1d6].sum()", "1 + 1 + 1 + 1 + 1 + 1 + 1 + 1 + 1 + 1 + 1 + 1 + 2d10 + 3d6k2", "x7 = 1 + 1 + 1 + 1 + 1 + 1 + 1 + 1; 8 * 8 * 8 + x7 + 4d6"},
	"assign": {"x = 5; x", "x = 2 + 3; x", "x = [1,2].len(); x"},
	"reads":  {"x + 1", "x * 2 - 1", "1 - x"},
}

type hostCall struct {
	Call string `json:"call"`
	C    string `json:"c"`
	Out  string `json:"out"` // prescribed by the model
}

func init() {
	subcmds["host-replay"] = func(args []string) int {
		fs := newFlags("host-replay")
		in := fs.String("in", "", "plans ndjson")
		out := fs.String("out", "", "events ndjson")
		shard := fs.String("shard", "0/1", "i/n")
		every := fs.Int("every", 1, "take every n-th sequence")
		fs.Parse(args)
		var si, sn int
		fmt.Sscanf(*shard, "%d/%d", &si, &sn)
		w := newNDWriter(*out)
		defer w.Close()
		r := rand.New(rand.NewSource(envSeed()*31 + int64(si)))
		// the reference: every text of the pool on a fresh context
		ref := map[string]c11Out{}
		for _, texts := range hostPool {
			for _, t := range texts {
				vm := newSeededVM(1)
				vm.Config.OpCountLimit = 20000
				ref[t] = c11Run(vm, t)
			}
		}
		agg := map[string]map[string]any{}
		var order []string
		n, lineNo := 0, -1
		readND(*in, func(line []byte) {
			lineNo++
			if lineNo%sn != si || ((lineNo/sn)+int(envSeed()))%*every != 0 {
				return
			}
			var pl struct {
				Calls []hostCall `json:"calls"`
			}
			if json.Unmarshal(line, &pl) != nil {
				return
			}
			n++
			vm := newSeededVM(uint64(r.Int63()))
			vm.Config.OpCountLimit = 20000
			obs := []map[string]any{}
			for _, c := range pl.Calls {
				text := ""
				if ts, ok := hostPool[c.C]; ok {
					text = ts[r.Intn(len(ts))]
				}
				o := map[string]any{"call": c.Call, "c": c.C, "pred": c.Out, "out": "value", "same": true, "concat": true, "text": text}
				func() {
					defer func() {
						if rr := recover(); rr != nil {
							o["out"] = "panic"
							fn, msg := panicSig(rr)
							o["panic"] = fn + ": " + msg
						}
					}()
					var err error
					switch c.Call {
					case "Parse":
						err = vm.Parse(text)
					case "RunAfterParsed":
						err = vm.RunAfterParsed()
					case "Run":
						err = vm.Run(text)
						if err == nil {
							o["concat"] = vm.Matched+vm.RestInput == text
							if c.C == "pure" {
								// a text without dice or variables is worth what it is worth on a fresh context
								o["same"] = canon(project(vm.Ret, 0)) == ref[text].Text
							}
						} else if c.C == "syntax" {
							o["same"] = err.Error() == ref[text].Text
						}
					case "RunExpr":
						var v *ds.VMValue
						v, err = vm.RunExpr(text, true)
						if err == nil && c.C == "pure" && v != nil {
							o["same"] = canon(project(v, 0)) == ref[text].Text
						}
					case "GetDetailText":
						a := vm.GetDetailText()
						b := vm.GetDetailText()
						ca, cb := canonDetail(a), canonDetail(b)
						o["same"] = ca == cb
					case "GetAsmText":
						_ = vm.GetAsmText()
					case "RetToString":
						if vm.Ret != nil {
							_ = vm.Ret.ToString()
							_ = vm.Ret.ToRepr()
						}
					case "MatchedRest":
						_ = vm.Matched + vm.RestInput
					}
					if err != nil {
						o["out"] = "error"
					}
				}()
				obs = append(obs, o)
				if o["out"] == "panic" {
					break
				}
			}
			// the contract is per call (given the state the model tracks): merge calls that were prescribed and observed alike
			for i, o := range obs {
				k := fmt.Sprintf("%v/%v/%v/%v/%v/%v", o["call"], o["c"], o["pred"], o["out"], o["same"], o["concat"])
				if old, ok := agg[k]; ok {
					old["count"] = old["count"].(int) + 1
					continue
				}
				var ex []string
				for _, x := range obs[:i+1] {
					ex = append(ex, fmt.Sprintf("%v(%v)", x["call"], x["text"]))
				}
				pn, _ := o["panic"].(string)
				agg[k] = map[string]any{"ev": "host", "call": o["call"], "c": o["c"], "pred": o["pred"], "out": o["out"], "same": o["same"], "concat": o["concat"],
					"panic": pn, "example": ex, "count": 1}
				order = append(order, k)
			}
		})
		for _, k := range order {
			w.Write(agg[k])
		}
		emitSummary(map[string]any{"sequences": n, "signatures": len(order)})
		return 0
	}
}
