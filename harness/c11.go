package main

import (
	"encoding/json"
	"fmt"
	"math/rand"
	"os"
	"os/exec"
	"sync"
	"sync/atomic"
	"time"

	ds "github.com/sealdice/dicescript"
)

// C11: independent VMs are race-free and behave exactly as when run alone.

var c11LangOf = map[string]int{"bi": ds.ParseErrorLanguageBilingual, "cn": ds.ParseErrorLanguageChinese, "en": ds.ParseErrorLanguageEnglish}

type c11Out struct {
	Err    bool   `json:"err"`
	Panic  bool   `json:"panic"`
	Text   string `json:"text"` // error text or canonical value
	Detail string `json:"detail"`
}

func c11Run(vm *ds.Context, src string) (o c11Out) {
	defer func() {
		if r := recover(); r != nil {
			o.Panic, o.Text = true, fmt.Sprint(r)
		}
	}()
	if err := vm.Run(src); err != nil {
		o.Err, o.Text = true, err.Error()
		return
	}
	o.Text = canon(project(vm.Ret, 0))
	o.Detail = canonDetail(vm.GetDetailText())
	return
}

func c11VM(lang string, seeded bool, seed uint64, flags int) *ds.Context {
	var vm *ds.Context
	if seeded {
		vm = newSeededVM(seed)
	} else {
		vm = ds.NewVM()
	}
	vm.Config.EnableDiceCoC, vm.Config.EnableDiceWoD, vm.Config.EnableDiceFate, vm.Config.EnableDiceDoubleCross = flags&1 != 0, flags&2 != 0, flags&4 != 0, flags&8 != 0
	vm.Config.ParseErrorLanguage = c11LangOf[lang]
	vm.Config.OpCountLimit = 30000
	// further settings that change how a text compiles or evaluates (bits 4..8 of flags)
	vm.Config.DisableBitwiseOp = flags&16 != 0
	vm.Config.DefaultDiceSideExpr = c11DefExprs[(flags>>5)&3]
	vm.Config.IgnoreDiv0 = flags&128 != 0
	vm.Config.DisableNDice = flags&256 != 0
	return vm
}

var c11DefExprs = []string{"", "20", "6 | 9", "d4 + 2"}

// programs whose meaning depends on those settings: dice without sides (the default-sides expression is compiled lazily,
// under the VM's own flags, on first use), inside and outside function bodies and computed values
var c11CfgProgs = []string{"d", "2d + 1", "func fd() { d }; fd() + fd()", "&cd = 2d; cd + cd", "d + d", "`{d}`", "3d k1", "5 | 2", "6 & 3", "1/0 + 1", "3d6", "[d, d].sum()"}

// programs: syntax errors of every message kind (their text depends on the language), runtime errors, values with dice
var c11ErrProgs = []string{"1 + (2 * ", "", "[1, 2", "{'a': 1", "'abc", "1 +", "@@", ")", "`a{1", "x = ", "2d6 + * 3", "f(1,", "1 ? 2 :", "力量 + (", "1 +\n  (2 *\n"}

// programs that touch every object the VMs could share: each built-in method and function, computed values, templates, dice
var c11SharedProgs = []string{"[3,1,2].kh(2)", "[3,1,2].kl()", "[1,2,3].sum() + [4,5].sum()", "[1,2,3].len()", "a = [1,2,3]; a.push(4); a.pop(); a.shift(); a", "a = [5,6,7]; a.shuffle(); a.len()",
	"[1,2,3].rand() > 0", "[1,2,3,4].randSize(2).len()", "d = {'a':1,'b':2}; d.len() + d.keys().len() + d.values().len() + d.items().len()", "&cq = 1 + 2; cq.compute()",
	"ceil(1.2) + floor(1.8) + round(2.5) + abs(-3)", "toInt('12') + toFloat('1.5') + toInt(toStr(7))", "toBool([]) ? 1 : 2", "repr([1,'a',{'k':null}])", "typeId(1) + typeId('s') + typeId([])", "dir([]).len() > 0",
	"x = 5; load('x') + 1", "store('zz', 3); zz + 1", "`{[1,2].sum()}-{[3].len()}-{abs(-1)}`", "func mm(v) { v.len() + v.sum() }; mm([1,2,3]) + mm([4])", "[[1,2],[3]].len() + [[1,2],[3]][0].sum()",
	"[1,2,3].kh() + [4,5,6].kl() + [7].sum()", "a = [1]; i = 0; while i < 5 { a.push(i); i = i + 1 }; a.sum()", "4d6kh3 + [1,2].sum()", "[2d6, 2d6].kh()", "`{%a=[1,2]; a.push(3)%}{a.len()}`"}

var c11ValProgs = []string{"2d6 + 3d10 + 1", "x = 5d20k2; x * 2", "func f(n) { n + 2d4 }; f(1) + f(2)", "[1,2,3,4,5].rand() + 1d8", "`r={3d6}`", "&c = 2d6; c + c", "4d6kh3 - 1d100 / 7",
	"a = [1,2,3]; a.shuffle(); a.sum() + 1d4", "i = 0; s = 0; while i < 5 { s = s + 1d6; i = i + 1 }; s", "1/0", "null + 1", "[1,2][5]"}

type c11Job struct {
	Lang   string `json:"lang"`
	Seeded bool   `json:"seeded"`
	Seed   uint64 `json:"seed"`
	Flags  int    `json:"flags"`
	Src    string `json:"src"`
}

func init() {
	// replay of the schedules of spec/Shared.tla: goroutines are parked at the gates and released in the given order
	subcmds["c11-sched"] = func(args []string) int {
		fs := newFlags("c11-sched")
		in := fs.String("in", "", "schedules ndjson")
		out := fs.String("out", "", "events ndjson")
		every := fs.Int("every", 1, "take every n-th schedule")
		fs.Parse(args)
		w := newNDWriter(*out)
		defer w.Close()
		r := rand.New(rand.NewSource(envSeed()))
		n, lineNo := 0, -1
		type parkMsg struct {
			vm   int
			done bool
		}
		readND(*in, func(line []byte) {
			lineNo++
			if (lineNo+int(envSeed()))%*every != 0 {
				return
			}
			var pl struct {
				Lang     []string `json:"lang"`
				Unseeded []bool   `json:"unseeded"`
				Order    []int    `json:"order"`
			}
			if err := json.Unmarshal(line, &pl); err != nil {
				fatal("bad schedule: %v", err)
			}
			nv := len(pl.Lang)
			srcs := make([]string, nv)
			seeds := make([]uint64, nv)
			iso := make([]c11Out, nv)
			for i := 0; i < nv; i++ {
				if pl.Unseeded[i] {
					srcs[i] = c11ValProgs[r.Intn(len(c11ValProgs))]
				} else if r.Intn(3) == 0 {
					srcs[i] = c11ValProgs[r.Intn(len(c11ValProgs))]
				} else {
					srcs[i] = c11ErrProgs[r.Intn(len(c11ErrProgs))]
				}
				seeds[i] = uint64(r.Int63())
				// the isolated run: alone, same seed, same configuration
				iso[i] = c11Run(c11VM(pl.Lang[i], !pl.Unseeded[i], seeds[i], 15), srcs[i])
			}
			// the concurrent run
			vms := make([]*ds.Context, nv)
			index := map[*ds.Context]int{}
			resume := make([]chan struct{}, nv)
			parked := make(chan parkMsg, 8)
			for i := 0; i < nv; i++ {
				vms[i] = c11VM(pl.Lang[i], !pl.Unseeded[i], seeds[i], 15)
				index[vms[i]] = i
				resume[i] = make(chan struct{})
			}
			ds.VerifGateHook = func(name string, ctx *ds.Context) {
				i, ok := index[ctx]
				if !ok {
					return // a nested parse (function body, computed value)
				}
				parked <- parkMsg{i, false}
				<-resume[i]
			}
			conc := make([]c11Out, nv)
			finished := make([]bool, nv)
			started := make([]bool, nv)
			atGate := make([]bool, nv)
			var wg sync.WaitGroup
			timedOut := false
			step := func(i int) {
				// release VM i for one segment and wait until it parks again or finishes
				if finished[i] {
					return
				}
				if !started[i] {
					started[i] = true
					wg.Add(1)
					go func() {
						defer wg.Done()
						conc[i] = c11Run(vms[i], srcs[i])
						parked <- parkMsg{i, true}
					}()
				} else if atGate[i] {
					atGate[i] = false
					resume[i] <- struct{}{}
				}
				select {
				case m := <-parked:
					if m.done {
						finished[m.vm] = true
					} else {
						atGate[m.vm] = true
					}
				case <-time.After(20 * time.Second):
					timedOut = true
				}
			}
			for _, i := range pl.Order {
				if timedOut {
					break
				}
				step(i - 1)
			}
			// drain: whatever is left runs to the end, one VM at a time
			for i := 0; i < nv && !timedOut; i++ {
				for guard := 0; !finished[i] && guard < 10 && !timedOut; guard++ {
					step(i)
				}
			}
			ds.VerifGateHook = nil
			if timedOut {
				fatal("schedule replay stalled: %s", string(line))
			}
			wg.Wait()
			vmsJ := make([]map[string]any, nv)
			for i := 0; i < nv; i++ {
				vmsJ[i] = map[string]any{"lang": pl.Lang[i], "seeded": !pl.Unseeded[i], "src": srcs[i], "iso": iso[i], "conc": conc[i]}
			}
			w.Write(map[string]any{"ev": "c11s", "order": pl.Order, "vms": vmsJ})
			n++
		})
		emitSummary(map[string]any{"schedules": n})
		return 0
	}

	// free-running goroutines (built with -race by the check): every goroutine owns its VMs, nothing is shared
	// one evaluation in a process of its own
	subcmds["c11-one"] = func(args []string) int {
		fs := newFlags("c11-one")
		job := fs.String("job", "", "json")
		fs.Parse(args)
		var j c11Job
		if err := json.Unmarshal([]byte(*job), &j); err != nil {
			fatal("c11-one: %v", err)
		}
		b, _ := json.Marshal(c11Run(c11VM(j.Lang, j.Seeded, j.Seed, j.Flags), j.Src))
		fmt.Println(string(b))
		return 0
	}
	subcmds["c11-free"] = func(args []string) int {
		fs := newFlags("c11-free")
		out := fs.String("out", "", "events ndjson")
		gor := fs.Int("goroutines", 8, "goroutines")
		rounds := fs.Int("rounds", 200, "programs per goroutine")
		gen := fs.String("gen", "", "generated programs ndjson {src}")
		isoexe := fs.String("isoexe", "", "harness binary (built without the race detector) that computes the isolated references, one fresh process per evaluation")
		fs.Parse(args)
		if *isoexe == "" {
			*isoexe = os.Args[0]
		}
		var pool []string
		pool = append(pool, c11ErrProgs...)
		pool = append(pool, c11ValProgs...)
		if *gen != "" {
			readND(*gen, func(line []byte) {
				var rec struct {
					Src string `json:"src"`
				}
				if json.Unmarshal(line, &rec) == nil && len(rec.Src) < 300 {
					for _, u := range []string{"dir(", ".keys(", ".values(", ".items("} {
						if contains(rec.Src, u) {
							return
						}
					}
					pool = append(pool, rec.Src)
				}
			})
		}
		langs := []string{"bi", "cn", "en"}
		type job struct {
			lang   string
			seeded bool
			seed   uint64
			flags  int
			src    string
		}
		r := rand.New(rand.NewSource(envSeed()))
		jobs := make([][]job, *gor)
		for g := range jobs {
			for k := 0; k < *rounds; k++ {
				src := pool[r.Intn(len(pool))]
				if k%2 == 0 { // every second evaluation uses the objects VMs could share
					src = c11SharedProgs[r.Intn(len(c11SharedProgs))]
				}
				flags := r.Intn(16)
				if k%4 == 1 { // and every fourth one a program that depends on the further settings, which are drawn for it
					src = c11CfgProgs[r.Intn(len(c11CfgProgs))]
					flags = r.Intn(512)
				}
				jobs[g] = append(jobs[g], job{langs[(g+k/7)%3], (g+k)%3 != 0, uint64(r.Int63()), flags, src})
			}
		}
		// The concurrent runs come FIRST, in a process in which nothing has been evaluated yet: lazily initialised state is
		// then first touched concurrently.  The references are computed afterwards, each in a process of its own: "in
		// isolation" means that no other VM exists, before or beside this one.
		conc := make([][]c11Out, *gor)
		var wg sync.WaitGroup
		start := make(chan struct{})
		for g := range jobs {
			wg.Add(1)
			go func(g int) {
				defer wg.Done()
				<-start
				for _, j := range jobs[g] {
					conc[g] = append(conc[g], c11Run(c11VM(j.lang, j.seeded, j.seed, j.flags), j.src))
				}
			}(g)
		}
		close(start)
		wg.Wait()
		iso := make([][]c11Out, *gor)
		for g := range jobs {
			iso[g] = make([]c11Out, len(jobs[g]))
		}
		sem := make(chan struct{}, 12)
		var failed atomic.Int64
		for g := range jobs {
			for k, j := range jobs[g] {
				wg.Add(1)
				sem <- struct{}{}
				go func(g, k int, j job) {
					defer wg.Done()
					defer func() { <-sem }()
					jb, _ := json.Marshal(c11Job{j.lang, j.seeded, j.seed, j.flags, j.src})
					cmd := exec.Command(*isoexe, "c11-one", "-job", string(jb))
					outb, err := cmd.Output()
					if err != nil || json.Unmarshal(outb, &iso[g][k]) != nil {
						failed.Add(1)
					}
				}(g, k, j)
			}
		}
		wg.Wait()
		if failed.Load() > 0 {
			fatal("c11-free: %d isolated reference processes failed", failed.Load())
		}
		w := newNDWriter(*out)
		defer w.Close()
		n := 0
		for g := range jobs {
			for k, j := range jobs[g] {
				w.Write(map[string]any{"ev": "c11f", "goroutine": g, "lang": j.lang, "seeded": j.seeded, "flags": j.flags, "src": j.src, "iso": iso[g][k], "conc": conc[g][k]})
				n++
			}
		}
		emitSummary(map[string]any{"runs": n, "goroutines": *gor})
		_ = os.Stdout
		return 0
	}
}

func contains(s, sub string) bool {
	return len(sub) == 0 || (len(s) >= len(sub) && indexOf(s, sub) >= 0)
}

func indexOf(s, sub string) int {
	for i := 0; i+len(sub) <= len(s); i++ {
		if s[i:i+len(sub)] == sub {
			return i
		}
	}
	return -1
}
