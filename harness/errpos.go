package main

import (
	"encoding/json"
	"fmt"
	"os"
	"regexp"
	"strconv"
	"strings"
	"unicode/utf8"

	ds "github.com/sealdice/dicescript"
)

// C19: syntax-error texts of the real parser, projected for Trace_ErrPos.

type perrJ struct {
	Line int `json:"line"`
	Col  int `json:"col"`
	O    int `json:"o"`
}

type friendlyJ struct {
	Present    bool   `json:"present"`
	O          int    `json:"o"`
	Line       int    `json:"line"`
	Col        int    `json:"col"`
	Header     string `json:"header"`
	HasContext bool   `json:"hasContext"`
	Quoted     string `json:"quoted"`
	Caret      int    `json:"caret"`
	HasCn      bool   `json:"hasCn"`
	HasEn      bool   `json:"hasEn"`
	Cn         string `json:"cn"`
	En         string `json:"en"`
	CnLine     int    `json:"cnLine"`
	CnCol      int    `json:"cnCol"`
	EnLine     int    `json:"enLine"`
	EnCol      int    `json:"enCol"`
}

type errEv struct {
	Input    string    `json:"input"`
	Lang     int       `json:"lang"`
	Ws       []int     `json:"ws"`
	Lf       []bool    `json:"lf"`
	Lines    []string  `json:"lines"`
	Perr     []perrJ   `json:"perr"`
	Friendly friendlyJ `json:"friendly"`
	Text     string    `json:"text"`
}

var rePrefix = regexp.MustCompile(`(?m)^(\d+):(\d+) \((\d+)\):`)
var rePosCn = regexp.MustCompile(`^  位置 (\d+):(\d+) - (.*)$`)
var rePosEn = regexp.MustCompile(`^  Pos (\d+):(\d+) - (.*)$`)
var reQuotedChar = regexp.MustCompile(`'(?s:.)' `)

// displayed form of a source line (documented truncation of long lines)
func displayLine(s string) string {
	if len(s) > 60 {
		return s[:57] + "..."
	}
	return s
}

// normMsg replaces the quoted character of a message by %c (the closing-bracket messages keep theirs)
func normMsg(m string) string {
	for _, fixed := range []string{"')'", "'}'", "']'"} {
		if strings.Contains(m, fixed) && (strings.Contains(m, "缺少") || strings.Contains(m, "Missing")) {
			return m
		}
	}
	rs := []rune(m)
	for i := 0; i+2 < len(rs); i++ {
		if rs[i] == '\'' && rs[i+2] == '\'' {
			return string(rs[:i]) + "'%c'" + string(rs[i+3:])
		}
	}
	// a NUL or multi-rune rendering of %c
	return m
}

func projectError(input string, lang int, text string) errEv {
	ev := errEv{Input: input, Lang: lang, Ws: []int{}, Lf: []bool{}, Lines: []string{}, Perr: []perrJ{}, Text: text}
	for i := 0; i < len(input); {
		r, w := utf8.DecodeRuneInString(input[i:])
		ev.Ws = append(ev.Ws, w)
		ev.Lf = append(ev.Lf, r == '\n')
		i += w
	}
	for _, ln := range strings.Split(input, "\n") {
		ev.Lines = append(ev.Lines, displayLine(ln))
	}
	for _, m := range rePrefix.FindAllStringSubmatch(text, -1) {
		l, _ := strconv.Atoi(m[1])
		c, _ := strconv.Atoi(m[2])
		o, _ := strconv.Atoi(m[3])
		ev.Perr = append(ev.Perr, perrJ{l, c, o})
	}
	lines := strings.Split(text, "\n")
	for i, ln := range lines {
		m := rePrefix.FindStringSubmatch(ln)
		if m == nil {
			continue
		}
		rest := strings.TrimSpace(ln[len(m[0]):])
		if rest != "语法错误" && rest != "Syntax Error" && rest != "语法错误 Syntax Error" {
			continue
		}
		f := &ev.Friendly
		f.Present = true
		f.Line, _ = strconv.Atoi(m[1])
		f.Col, _ = strconv.Atoi(m[2])
		f.O, _ = strconv.Atoi(m[3])
		f.Header = rest
		j := i + 1
		if j+3 < len(lines) && lines[j] == "  |" && strings.HasPrefix(lines[j+1], "  |  ") {
			f.HasContext = true
			f.Quoted = lines[j+1][len("  |  "):]
			// the quoted line itself may contain line breaks only if the split was wrong; the caret line follows
			caretLine := lines[j+2]
			if strings.HasPrefix(caretLine, "  |  ") {
				body := caretLine[len("  |  "):]
				f.Caret = len([]rune(strings.TrimSuffix(body, "^")))
				if !strings.HasSuffix(body, "^") || strings.TrimLeft(body, " ") != "^" {
					f.Caret = -1
				}
			} else {
				f.Caret = -1
			}
			j += 4
		}
		f.CnLine, f.CnCol, f.EnLine, f.EnCol = -1, -1, -1, -1
		for ; j < len(lines); j++ {
			if mm := rePosCn.FindStringSubmatch(lines[j]); mm != nil {
				f.HasCn = true
				f.CnLine, _ = strconv.Atoi(mm[1])
				f.CnCol, _ = strconv.Atoi(mm[2])
				f.Cn = normMsg(mm[3])
			} else if mm := rePosEn.FindStringSubmatch(lines[j]); mm != nil {
				f.HasEn = true
				f.EnLine, _ = strconv.Atoi(mm[1])
				f.EnCol, _ = strconv.Atoi(mm[2])
				f.En = normMsg(mm[3])
			} else if rePrefix.MatchString(lines[j]) {
				break
			}
		}
		break
	}
	return ev
}

func parseErrorText(input string, lang int) (string, bool) {
	vm := ds.NewVM()
	vm.Config.ParseErrorLanguage = lang
	var text string
	var rejected bool
	func() {
		defer func() {
			if r := recover(); r != nil {
				rejected = false
			}
		}()
		if err := vm.Parse(input); err != nil {
			text, rejected = err.Error(), true
		}
	}()
	return text, rejected
}

func init() {
	subcmds["errpos-exec"] = func(args []string) int {
		fs := newFlags("errpos-exec")
		in := fs.String("in", "", "inputs prefix (files <prefix>.<n> with {s: [symbols]}) or a ndjson of {src}")
		out := fs.String("out", "", "events ndjson")
		fs.Parse(args)
		w := newNDWriter(*out)
		defer w.Close()
		n, rej := 0, 0
		handle := func(input string) {
			n++
			for lang := 0; lang <= 2; lang++ {
				text, rejected := parseErrorText(input, lang)
				if !rejected {
					continue
				}
				rej++
				w.Write(projectError(input, lang, text))
			}
		}
		if st, err := os.Stat(*in); err == nil && !st.IsDir() {
			readND(*in, func(line []byte) {
				var rec struct {
					Src string `json:"src"`
				}
				if json.Unmarshal(line, &rec) == nil {
					handle(rec.Src)
				}
			})
		} else {
			for k := 0; ; k++ {
				f := fmt.Sprintf("%s.%d", *in, k)
				if _, err := os.Stat(f); err != nil {
					break
				}
				readND(f, func(line []byte) {
					var rec struct {
						S []string `json:"s"`
					}
					if json.Unmarshal(line, &rec) == nil {
						handle(charsToString(rec.S))
					}
				})
			}
		}
		emitSummary(map[string]any{"inputs": n, "rejected_events": rej})
		return 0
	}
}

func init() {
	// rejected inputs the small alphabet cannot express: every truncation of the repository's multi-line inputs,
	// long lines (beyond the truncation width) with the error before / inside / after the cut, multi-byte text before the error
	subcmds["errpos-inputs"] = func(args []string) int {
		out := args[0]
		w := newNDWriter(out)
		defer w.Close()
		seen := map[string]bool{}
		add := func(s string) {
			if !seen[s] && len(s) < 400 {
				seen[s] = true
				w.Write(map[string]any{"src": s})
			}
		}
		for _, s := range repoCorpus(repoDir()) {
			if !strings.Contains(s, "\n") && len(s) < 24 {
				continue
			}
			rs := []rune(s)
			step := 1
			if len(rs) > 60 {
				step = len(rs) / 60
			}
			for i := 1; i < len(rs); i += step {
				add(string(rs[:i]))
				add(string(rs[:i]) + "(")
			}
		}
		long := strings.Repeat("1+", 40)
		cjk := strings.Repeat("力量+", 20)
		for _, tail := range []string{"(", "[1,", "'abc", "1 +", ")", "`a{", "@"} {
			add(long + tail)
			add(cjk + tail)
			add("x = 1\n" + long + tail)
			add(long + "1\n" + tail)
			add("力量 = 2\n" + cjk + tail + "\n3")
			for _, pre := range []string{"1 + ", "力量 + ", "😀", "\n\n", " \n\t"} {
				add(pre + tail)
			}
		}
		for n := 50; n <= 66; n++ {
			add(strings.Repeat("a", n) + " (")
			add("(" + strings.Repeat("1", n))
		}
		emitSummary(map[string]any{"inputs": w.n})
		return 0
	}
}
