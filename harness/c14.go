package main

import (
	"fmt"
	"math/rand"
	"regexp"
	"strings"

	ds "github.com/sealdice/dicescript"
)

// C14: the calculation-process text of arithmetic over dice terms.

type c14Slot struct {
	Kind   string // term, var, computed, nested
	Text   string // source text of the slot
	Terms  []int  // indexes (0-based) into terms, in evaluation order; the last one carries the slot's value
	Name   string
	Value  int64  // var: assigned value
	Marks  int    // mark.detail steps the slot executes at depth 0
	Prefix string // statement that must precede the expression
	InnerOff, OuterOff int // nested: where the inner and the outer span begin inside Text
}

type c14Gen struct {
	r     *rand.Rand
	terms []dicePlan
	texts []string
	slots []c14Slot
}

var c14Names = []string{"力量", "敏捷", "hp", "理智值", "san值", "_x1", "ＭＰ", "생명"}

func (g *c14Gen) sp() string { return []string{"", " ", " ", "  ", "\n", " \n "}[g.r.Intn(6)] }

func (g *c14Gen) term() (N, string) {
	p := diceP{Mn: -1, Mx: -1}
	pl := dicePlan{Faces: []int64{}}
	switch g.r.Intn(10) {
	case 0, 1, 2, 3:
		pl.Fam = "common"
		p.Times, p.Sides, p.Kind = 1+g.r.Int63n(4), 2+g.r.Int63n(19), g.r.Int63n(5)
		if p.Kind != 0 {
			p.Cnt = 1 + g.r.Int63n(p.Times)
		}
		switch g.r.Intn(5) {
		case 0:
			p.Mn = 1 + g.r.Int63n(p.Sides)
		case 1:
			p.Mx = 1 + g.r.Int63n(p.Sides)
		}
	case 4:
		pl.Fam = "fate"
	case 5, 6:
		pl.Fam = "coc"
		p.N, p.Bonus = g.r.Int63n(3), g.r.Intn(2) == 0
	case 7, 8:
		pl.Fam = "wod"
		p.Pool, p.Sides, p.Add, p.Thr, p.GE = 1+g.r.Int63n(6), 10, []int64{0, 9, 10, 11}[g.r.Intn(4)], 1+g.r.Int63n(10), g.r.Intn(3) != 0
	default:
		pl.Fam = "dc"
		p.Pool, p.Sides, p.Add = 1+g.r.Int63n(5), 10, 7+g.r.Int63n(5)
	}
	pl.P = p
	txt, _ := vmSource(pl.Fam, p, g.r.Intn(1000))
	g.terms = append(g.terms, pl)
	g.texts = append(g.texts, txt)
	g.slots = append(g.slots, c14Slot{Kind: "term", Text: txt, Terms: []int{len(g.terms) - 1}, Marks: 1})
	return N{"k": "slot", "i": len(g.slots)}, "\x00" // placeholder, replaced when the text is assembled
}

func (g *c14Gen) usedName() string {
	for {
		n := c14Names[g.r.Intn(len(c14Names))] + []string{"", "", "2", "_b", "三"}[g.r.Intn(5)]
		ok := true
		for _, s := range g.slots {
			if s.Name == n {
				ok = false
			}
		}
		if ok {
			return n
		}
	}
}

// variable, computed value or a dice term whose count is itself rolled
func (g *c14Gen) special() (N, string) {
	// a name may be used more than once
	if len(g.slots) > 0 && g.r.Intn(4) == 0 {
		if old := g.slots[g.r.Intn(len(g.slots))]; old.Kind == "var" || old.Kind == "computed" {
			old.Prefix = ""
			g.slots = append(g.slots, old)
			return N{"k": "slot", "i": len(g.slots)}, "\x00"
		}
	}
	switch g.r.Intn(3) {
	case 0:
		n, v := g.usedName(), g.r.Int63n(90)
		g.slots = append(g.slots, c14Slot{Kind: "var", Text: n, Name: n, Value: v, Marks: 1, Prefix: fmt.Sprintf("%s = %d", n, v)})
	case 1:
		n := g.usedName()
		x, y, c := 1+g.r.Int63n(3), 2+g.r.Int63n(8), g.r.Int63n(5)
		g.slots = append(g.slots, c14Slot{Kind: "computed", Text: n, Name: n, Marks: 1, Prefix: fmt.Sprintf("&%s = %dd%d+%d", n, x, y, c)})
	default:
		x, y, sd := 1+g.r.Int63n(3), 1+g.r.Int63n(4), 2+g.r.Int63n(9)
		in := dicePlan{Fam: "common", Faces: []int64{}, P: diceP{Times: x, Sides: y, Mn: -1, Mx: -1}}
		out := dicePlan{Fam: "common", Faces: []int64{}, P: diceP{Times: -1, Sides: sd, Mn: -1, Mx: -1}} // count known after the run
		inner := fmt.Sprintf("%dd%d", x, y)
		txt := fmt.Sprintf("(%s)d%d", inner, sd)
		io, oo := 1, 0
		if g.r.Intn(3) == 0 { // chained form XdYdS: the second span starts at its own d
			txt = fmt.Sprintf("%sd%d", inner, sd)
			io, oo = 0, len(inner)
		}
		g.terms = append(g.terms, in, out)
		g.texts = append(g.texts, inner, txt)
		g.slots = append(g.slots, c14Slot{Kind: "nested", Text: txt, Name: inner, Terms: []int{len(g.terms) - 2, len(g.terms) - 1}, Marks: 2, InnerOff: io, OuterOff: oo})
	}
	return N{"k": "slot", "i": len(g.slots)}, "\x00"
}

// expr returns the AST and the text with \x00 standing for the next dice term
func (g *c14Gen) expr(d int) (N, string) {
	if d <= 0 || g.r.Intn(4) == 0 {
		if g.r.Intn(3) == 0 {
			v := g.r.Intn(20)
			return N{"k": "num", "v": v}, fmt.Sprint(v)
		}
		if g.r.Intn(4) == 0 {
			return g.special()
		}
		return g.term()
	}
	switch g.r.Intn(6) {
	case 0:
		a, t := g.expr(d - 1)
		return N{"k": "paren", "e": a}, "(" + g.sp() + t + ")"
	case 1:
		// unary minus applies to a dice term, a number or a parenthesis
		a, t := g.expr(0)
		return N{"k": "neg", "e": a}, "-" + t
	default:
		op := []string{"+", "-", "*", "+"}[g.r.Intn(4)]
		la, lt := g.expr(d - 1)
		ra, rt := g.expr(d - 1)
		// precedence: operands of * that are sums need parentheses; right operands of - that are sums/differences too
		wrap := func(a N, t string, need bool) (N, string) {
			if need && a["k"] == "bin" {
				return N{"k": "paren", "e": a}, "(" + t + ")"
			}
			return a, t
		}
		lowL := la["k"] == "bin" && (la["op"] == "+" || la["op"] == "-")
		lowR := ra["k"] == "bin" && (ra["op"] == "+" || ra["op"] == "-")
		if op == "*" {
			la, lt = wrap(la, lt, lowL)
			ra, rt = wrap(ra, rt, ra["k"] == "bin")
		} else if op == "-" {
			ra, rt = wrap(ra, rt, lowR)
		}
		if ra["k"] == "neg" {
			ra, rt = N{"k": "paren", "e": ra}, "("+rt+")"
		}
		return N{"k": "bin", "op": op, "l": la, "r": ra}, lt + g.sp() + op + g.sp() + rt
	}
}

var reLeadInt = regexp.MustCompile(`^-?\d+`)

// segment cuts the real text into chunk / value[annotation] pieces following the known chunk texts
func segment(detail string, chunks []string) (vals []int64, annots []string, ok bool) {
	pos := 0
	for i := 0; i < len(chunks)-1; i++ {
		if !strings.HasPrefix(detail[pos:], chunks[i]) {
			return nil, nil, false
		}
		pos += len(chunks[i])
		m := reLeadInt.FindString(detail[pos:])
		if m == "" {
			return nil, nil, false
		}
		v, _ := atoi64(m)
		vals = append(vals, v)
		pos += len(m)
		ann := ""
		if pos < len(detail) && detail[pos] == '[' {
			depth, j := 0, pos
			for ; j < len(detail); j++ {
				if detail[j] == '[' {
					depth++
				} else if detail[j] == ']' {
					depth--
					if depth == 0 {
						break
					}
				}
			}
			if j >= len(detail) {
				return nil, nil, false
			}
			ann = detail[pos+1 : j]
			pos = j + 1
		}
		annots = append(annots, ann)
	}
	if detail[pos:] != chunks[len(chunks)-1] {
		return nil, nil, false
	}
	return vals, annots, true
}

var reCompAnn = regexp.MustCompile(`^(.*?)=(.*)=(-?\d+)$`)
var reSubAnn = regexp.MustCompile(`,([^,=\]]+)=(-?\d+)$`)

func init() {
	subcmds["c14-exec"] = func(args []string) int {
		fs := newFlags("c14-exec")
		out := fs.String("out", "", "events ndjson")
		n := fs.Int("n", 500, "expressions")
		fs.Parse(args)
		installRollHook()
		r := rand.New(rand.NewSource(envSeed()))
		w := newNDWriter(*out)
		defer w.Close()
		var marks []int
		ds.VerifStepHook = func(info *ds.VerifStepInfo) {
			if info.Depth == 0 && info.Op == "mark.detail" {
				marks = append(marks, len(rollLog))
			}
		}
		defer func() { ds.VerifStepHook = nil }()
		var vm *ds.Context
		reused := 0
		for i := 0; i < *n; i++ {
			g := &c14Gen{r: r}
			ast, tmpl := g.expr(1 + r.Intn(3))
			for len(g.slots) == 0 && r.Intn(20) != 0 {
				ast, tmpl = g.expr(1 + r.Intn(3))
			}
			// statements before the expression: a remark and the definitions the slots need
			prefix := ""
			if r.Intn(4) == 0 {
				prefix = []string{"'备注';", "\"note\" ;\n", "'力量检定'; "}[r.Intn(3)]
			}
			for _, sl := range g.slots {
				if sl.Prefix != "" {
					prefix += sl.Prefix + []string{";", "; ", ";\n", " ;\n  "}[r.Intn(4)]
				}
			}
			// assemble the source, the chunks around the slots and the byte range of every slot
			parts := strings.Split(tmpl, "\x00")
			parts[0] = prefix + parts[0]
			var sb strings.Builder
			begins := make([]int, len(g.slots))
			for k, p := range parts {
				sb.WriteString(p)
				if k < len(g.slots) {
					begins[k] = sb.Len()
					sb.WriteString(g.slots[k].Text)
				}
			}
			src := sb.String()
			// half of the expressions run on the VM of the previous one (the text must be the one of the latest run)
			if vm == nil || r.Intn(2) == 0 {
				vm = newSeededVM(uint64(r.Int63()))
				vm.Config.OpCountLimit = 100000
			} else {
				reused++
			}
			expectSrc = vm.RandSrc
			resetRolls(nil, false)
			marks = marks[:0]
			ev := map[string]any{"ev": "c14", "src": src, "ast": ast, "chunks": parts, "terms": []any{}, "slots": []any{}, "err": false, "errtext": "", "ret": 0, "detail": "", "detail2": "",
				"detailPanic": false, "retAfter": 0, "varsBefore": "", "varsAfter": "", "seedBefore": "", "seedAfter": "", "aligned": false, "shownValues": []int64{}, "annots": []string{}}
			err, pan := runOne(vm, src)
			if err != nil || pan != nil || vm.RestInput != "" {
				ev["err"] = true
				ev["errtext"] = fmt.Sprint(err, pan, vm.RestInput)
				w.Write(ev)
				continue
			}
			rv, isInt := vm.Ret.ReadInt()
			if !isInt {
				ev["err"], ev["errtext"] = true, "non-int result "+vm.Ret.ToString()
				w.Write(ev)
				continue
			}
			ev["ret"] = int64(rv)
			rolls := copyRolls()
			mk := append([]int{}, marks...)
			sdB, _ := vm.GetCurSeed()
			ev["varsBefore"], ev["seedBefore"] = varsOf(vm), fmt.Sprintf("%x", sdB)
			var d1, d2 string
			gd := guard("GetDetailText", func() { d1 = vm.GetDetailText(); d2 = vm.GetDetailText() })
			ev["detailPanic"] = gd.Panic
			ev["detail"], ev["detail2"] = d1, d2
			ra, _ := vm.Ret.ReadInt()
			sdA, _ := vm.GetCurSeed()
			ev["retAfter"], ev["varsAfter"], ev["seedAfter"] = int64(ra), varsOf(vm), fmt.Sprintf("%x", sdA)
			// the text, cut along the known chunks (the text itself is trimmed at both ends)
			chunks := append([]string{}, parts...)
			chunks[0] = strings.TrimLeft(chunks[0], " \n\t")
			chunks[len(chunks)-1] = strings.TrimRight(chunks[len(chunks)-1], " \n\t")
			vals, annots, ok := segment(d1, chunks)
			ev["aligned"] = ok
			if ok {
				ev["shownValues"], ev["annots"] = vals, annots
			}
			// spans by byte range
			spanAt := func(b, e int) *ds.BufferSpan {
				for k := range vm.DetailSpans {
					sp := &vm.DetailSpans[k]
					if int(sp.Begin) == b && int(sp.End) == e {
						return sp
					}
				}
				return nil
			}
			// roll ranges per executed mark, in evaluation order
			rng := func(m int) []rollRec {
				lo, hi := len(rolls), len(rolls)
				if m < len(mk) {
					lo = mk[m]
				}
				if m+1 < len(mk) {
					hi = mk[m+1]
				}
				if lo <= hi && hi <= len(rolls) {
					return rolls[lo:hi]
				}
				return []rollRec{}
			}
			terms := make([]any, len(g.terms))
			var slots []any
			mi := 0
			for k, sl := range g.slots {
				srec := map[string]any{"k": sl.Kind, "ti": 0, "value": int64(0), "hasSpan": false, "name": sl.Name, "annotName": "", "annotValue": int64(0), "annotOk": false, "sub": 0}
				b := begins[k]
				outer := spanAt(b+sl.OuterOff, b+len(sl.Text))
				ann := ""
				if ok {
					ann = annots[k]
				}
				if outer != nil && outer.Ret != nil {
					if v, isI := outer.Ret.ReadInt(); isI {
						srec["hasSpan"], srec["value"] = true, int64(v)
					}
				}
				mkTerm := func(ti int, sp *ds.BufferSpan, m int) {
					pl := g.terms[ti]
					te := diceEv{Ev: "term", Fam: pl.Fam, Via: "vm", Src: g.texts[ti], P: pl.P, Shown: newShown(), Rolls: rng(m)}
					if sp != nil && sp.Ret != nil {
						if v, isI := sp.Ret.ReadInt(); isI {
							te.Total = int64(v)
						}
						te.Text = sp.Text
						te.Shown = parseShown(pl.Fam, sp.Text)
					} else {
						te.Err = true
					}
					terms[ti] = &te
				}
				switch sl.Kind {
				case "term":
					mkTerm(sl.Terms[0], outer, mi)
					te := terms[sl.Terms[0]].(*diceEv)
					srec["ti"] = sl.Terms[0] + 1
					// the annotation printed in the text must be the one of this roll (a text equal to the value is not repeated)
					srec["annotOk"] = ann == "" || ann == "略" || te.Text == "" || te.Text == fmt.Sprint(te.Total) || strings.Contains(ann, te.Text)
				case "nested":
					inner := spanAt(b+sl.InnerOff, b+sl.InnerOff+len(sl.Name))
					mkTerm(sl.Terms[0], inner, mi)
					it := terms[sl.Terms[0]].(*diceEv)
					g.terms[sl.Terms[1]].P.Times = it.Total // the outer count is the inner total
					mkTerm(sl.Terms[1], outer, mi+1)
					ot := terms[sl.Terms[1]].(*diceEv)
					srec["ti"], srec["sub"] = sl.Terms[1]+1, sl.Terms[0]+1
					if m := reSubAnn.FindStringSubmatch(ann); m != nil {
						srec["annotName"] = m[1]
						srec["annotValue"], _ = atoi64(m[2])
						srec["annotOk"] = ot.Text == "" || ot.Text == fmt.Sprint(ot.Total) || strings.Contains(ann, ot.Text)
					}
				case "var":
					srec["annotName"], srec["annotOk"] = ann, true
				case "computed":
					if m := reCompAnn.FindStringSubmatch(ann); m != nil {
						srec["annotName"] = m[1]
						srec["annotValue"], _ = atoi64(m[3])
						srec["annotOk"] = true
					}
				}
				mi += sl.Marks
				slots = append(slots, srec)
			}
			tl := []any{}
			for _, t := range terms {
				if te, isT := t.(*diceEv); isT {
					tl = append(tl, te.compact())
				}
			}
			if slots == nil {
				slots = []any{}
			}
			ev["terms"], ev["slots"], ev["marks"] = tl, slots, len(mk)
			w.Write(ev)
		}
		emitSummary(map[string]any{"events": w.n, "reused": reused})
		return 0
	}
}
