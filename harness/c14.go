package main

import (
	"fmt"
	"math/rand"
	"regexp"
	"strings"

	ds "github.com/sealdice/dicescript"
)

// C14: the calculation-process text of arithmetic over dice terms.

type c14Slot struct {
	Kind                       string // term, var, computed, nested
	Text                       string // source text of the slot
	Terms                      []int  // indexes (0-based) into terms, in evaluation order; the last one carries the slot's value
	Name                       string
	Value                      int64  // var: assigned value
	Marks                      int    // mark.detail steps the slot executes at depth 0
	Prefix                     string // statement that must precede the expression
	OuterOff                   int    // nested: where the outer span begins inside Text
	Subs                       []c14Sub
	TimesAst, SidesAst, CntAst N // nested: the operands of the outer term over the values of Subs
}

// c14Sub is a roll or variable inside an operand of a dice term
type c14Sub struct {
	Kind  string // term, var
	Text  string
	Off   int // offset inside the slot's text
	Term  int // index into terms
	Value int64
}

type c14Gen struct {
	names map[string]bool
	r     *rand.Rand
	terms []dicePlan
	texts []string
	slots []c14Slot
}

var c14Names = []string{"力量", "敏捷", "hp", "理智值", "san值", "_x1", "ＭＰ", "생명"}

func (g *c14Gen) sp() string { return []string{"", " ", " ", "  ", "\n", " \n "}[g.r.Intn(6)] }

func (g *c14Gen) term() (N, string) {
	p := diceP{Mn: -1, Mx: -1}
	pl := dicePlan{Faces: []int64{}}
	switch g.r.Intn(10) {
	case 0, 1, 2, 3:
		pl.Fam = "common"
		p.Times, p.Sides, p.Kind = 1+g.r.Int63n(4), 2+g.r.Int63n(19), g.r.Int63n(5)
		if p.Kind != 0 {
			p.Cnt = 1 + g.r.Int63n(p.Times+2) // also more than there are dice
		}
		switch g.r.Intn(5) {
		case 0:
			p.Mn = 1 + g.r.Int63n(p.Sides)
		case 1:
			p.Mx = 1 + g.r.Int63n(p.Sides)
		}
	case 4:
		pl.Fam = "fate"
	case 5, 6:
		pl.Fam = "coc"
		p.N, p.Bonus = g.r.Int63n(3), g.r.Intn(2) == 0
	case 7, 8:
		pl.Fam = "wod"
		p.Pool, p.Sides, p.Add, p.Thr, p.GE = 1+g.r.Int63n(6), 10, []int64{0, 9, 10, 11}[g.r.Intn(4)], 1+g.r.Int63n(10), g.r.Intn(3) != 0
	default:
		pl.Fam = "dc"
		p.Pool, p.Sides, p.Add = 1+g.r.Int63n(5), 10, 7+g.r.Int63n(5)
	}
	pl.P = p
	txt, _ := vmSource(pl.Fam, p, g.r.Intn(1000))
	g.terms = append(g.terms, pl)
	g.texts = append(g.texts, txt)
	g.slots = append(g.slots, c14Slot{Kind: "term", Text: txt, Terms: []int{len(g.terms) - 1}, Marks: 1})
	return N{"k": "slot", "i": len(g.slots)}, "\x00" // placeholder, replaced when the text is assembled
}

func (g *c14Gen) usedName() string {
	if g.names == nil {
		g.names = map[string]bool{}
	}
	for {
		n := c14Names[g.r.Intn(len(c14Names))] + []string{"", "", "2", "_b", "三"}[g.r.Intn(5)]
		if !g.names[n] {
			g.names[n] = true
			return n
		}
	}
}

// hole writes one operand of a dice term: a literal, or a parenthesised sum over rolls and variables
func (g *c14Gen) hole(sl *c14Slot, sb *strings.Builder, allowPlain bool, lo int64) N {
	if allowPlain && g.r.Intn(3) == 0 {
		v := lo + g.r.Int63n(6)
		sb.WriteString(fmt.Sprint(v))
		return N{"k": "num", "v": v}
	}
	sub := func() N {
		if g.r.Intn(4) == 0 {
			n, v := g.usedName(), 1+g.r.Int63n(3)
			if sl.Prefix != "" {
				sl.Prefix += "; "
			}
			sl.Prefix += fmt.Sprintf("%s = %d", n, v)
			sl.Subs = append(sl.Subs, c14Sub{Kind: "var", Text: n, Off: sb.Len(), Value: v})
			sb.WriteString(n)
		} else {
			x, y := 1+g.r.Int63n(2), 2+g.r.Int63n(2)
			t := fmt.Sprintf("%dd%d", x, y)
			g.terms = append(g.terms, dicePlan{Fam: "common", Faces: []int64{}, P: diceP{Times: x, Sides: y, Mn: -1, Mx: -1}})
			g.texts = append(g.texts, t)
			sl.Subs = append(sl.Subs, c14Sub{Kind: "term", Text: t, Off: sb.Len(), Term: len(g.terms) - 1})
			sb.WriteString(t)
		}
		return N{"k": "slot", "i": len(sl.Subs)}
	}
	sb.WriteString("(")
	var a N
	switch g.r.Intn(4) {
	case 0:
		a = sub()
	case 1:
		l := sub()
		sb.WriteString([]string{"+", " + ", "+ "}[g.r.Intn(3)])
		a = N{"k": "bin", "op": "+", "l": l, "r": sub()}
	case 2:
		l := sub()
		v := g.r.Int63n(3)
		sb.WriteString("+" + fmt.Sprint(v))
		a = N{"k": "bin", "op": "+", "l": l, "r": N{"k": "num", "v": v}}
	default:
		v := 1 + g.r.Int63n(2)
		sb.WriteString(fmt.Sprint(v) + "+")
		a = N{"k": "bin", "op": "+", "l": N{"k": "num", "v": v}, "r": sub()}
	}
	sb.WriteString(")")
	return a
}

func evalN(a N, vals []int64) int64 {
	switch a["k"] {
	case "num":
		switch v := a["v"].(type) {
		case int64:
			return v
		case int:
			return int64(v)
		}
	case "slot":
		return vals[a["i"].(int)-1]
	case "bin":
		return evalN(a["l"].(N), vals) + evalN(a["r"].(N), vals)
	}
	return 0
}

// variable, computed value or a dice term whose count is itself rolled
func (g *c14Gen) special() (N, string) {
	// a name may be used more than once
	if len(g.slots) > 0 && g.r.Intn(4) == 0 {
		if old := g.slots[g.r.Intn(len(g.slots))]; old.Kind == "var" || old.Kind == "computed" {
			old.Prefix = ""
			g.slots = append(g.slots, old)
			return N{"k": "slot", "i": len(g.slots)}, "\x00"
		}
	}
	switch g.r.Intn(3) {
	case 0:
		n, v := g.usedName(), g.r.Int63n(90)
		g.slots = append(g.slots, c14Slot{Kind: "var", Text: n, Name: n, Value: v, Marks: 1, Prefix: fmt.Sprintf("%s = %d", n, v)})
	case 1:
		n := g.usedName()
		x, y, c := 1+g.r.Int63n(3), 2+g.r.Int63n(8), g.r.Int63n(5)
		g.slots = append(g.slots, c14Slot{Kind: "computed", Text: n, Name: n, Marks: 1, Prefix: fmt.Sprintf("&%s = %dd%d+%d", n, x, y, c)})
	default:
		sl := c14Slot{Kind: "nested"}
		var sb strings.Builder
		out := dicePlan{Fam: "common", Faces: []int64{}, P: diceP{Times: -1, Sides: -1, Mn: -1, Mx: -1}} // operands known after the run
		switch g.r.Intn(4) {
		case 0: // chained form XdYdS: the second span starts at its own d
			x, y, sd := 1+g.r.Int63n(3), 1+g.r.Int63n(4), 2+g.r.Int63n(9)
			t := fmt.Sprintf("%dd%d", x, y)
			g.terms = append(g.terms, dicePlan{Fam: "common", Faces: []int64{}, P: diceP{Times: x, Sides: y, Mn: -1, Mx: -1}})
			g.texts = append(g.texts, t)
			sl.Subs = []c14Sub{{Kind: "term", Text: t, Off: 0, Term: len(g.terms) - 1}}
			sb.WriteString(t)
			sl.OuterOff = sb.Len()
			sb.WriteString(fmt.Sprintf("d%d", sd))
			sl.TimesAst, sl.SidesAst = N{"k": "slot", "i": 1}, N{"k": "num", "v": sd}
		case 1: // literal count, rolled sides and keep-count
			sb.WriteString("3d")
			sl.TimesAst = N{"k": "num", "v": int64(3)}
			sl.SidesAst = g.hole(&sl, &sb, true, 2)
			sb.WriteString("k")
			sl.CntAst = g.hole(&sl, &sb, false, 1)
			out.P.Kind = 2
		default:
			sl.TimesAst = g.hole(&sl, &sb, false, 1)
			sb.WriteString([]string{"d", "D"}[g.r.Intn(2)])
			sl.SidesAst = g.hole(&sl, &sb, true, 2)
		}
		sl.Text = sb.String()
		g.terms = append(g.terms, out)
		g.texts = append(g.texts, sl.Text)
		sl.Terms = []int{len(g.terms) - 1}
		sl.Marks = len(sl.Subs) + 1
		g.slots = append(g.slots, sl)
	}
	return N{"k": "slot", "i": len(g.slots)}, "\x00"
}

// expr returns the AST and the text with \x00 standing for the next dice term
func (g *c14Gen) expr(d int) (N, string) {
	if d <= 0 || g.r.Intn(4) == 0 {
		if g.r.Intn(3) == 0 {
			v := g.r.Intn(20)
			return N{"k": "num", "v": v}, fmt.Sprint(v)
		}
		if g.r.Intn(4) == 0 {
			return g.special()
		}
		return g.term()
	}
	switch g.r.Intn(6) {
	case 0:
		a, t := g.expr(d - 1)
		return N{"k": "paren", "e": a}, "(" + g.sp() + t + ")"
	case 1:
		// unary minus applies to a dice term, a number or a parenthesis
		a, t := g.expr(0)
		return N{"k": "neg", "e": a}, "-" + t
	default:
		op := []string{"+", "-", "*", "+"}[g.r.Intn(4)]
		la, lt := g.expr(d - 1)
		ra, rt := g.expr(d - 1)
		// precedence: operands of * that are sums need parentheses; right operands of - that are sums/differences too
		wrap := func(a N, t string, need bool) (N, string) {
			if need && a["k"] == "bin" {
				return N{"k": "paren", "e": a}, "(" + t + ")"
			}
			return a, t
		}
		lowL := la["k"] == "bin" && (la["op"] == "+" || la["op"] == "-")
		lowR := ra["k"] == "bin" && (ra["op"] == "+" || ra["op"] == "-")
		if op == "*" {
			la, lt = wrap(la, lt, lowL)
			ra, rt = wrap(ra, rt, ra["k"] == "bin")
		} else if op == "-" {
			ra, rt = wrap(ra, rt, lowR)
		}
		if ra["k"] == "neg" {
			ra, rt = N{"k": "paren", "e": ra}, "("+rt+")"
		}
		return N{"k": "bin", "op": op, "l": la, "r": ra}, lt + g.sp() + op + g.sp() + rt
	}
}

var reLeadInt = regexp.MustCompile(`^-?\d+`)

// segment cuts the real text into chunk / value[annotation] pieces following the known chunk texts
func segment(detail string, chunks []string) (vals []int64, annots []string, ok bool) {
	pos := 0
	for i := 0; i < len(chunks)-1; i++ {
		if !strings.HasPrefix(detail[pos:], chunks[i]) {
			// a term ending in a parenthesis takes the blanks after it into its annotation
			if t := strings.TrimLeft(chunks[i], " \n\t"); i > 0 && strings.HasPrefix(detail[pos:], t) {
				chunks[i] = t
			} else {
				return nil, nil, false
			}
		}
		pos += len(chunks[i])
		m := reLeadInt.FindString(detail[pos:])
		if m == "" {
			return nil, nil, false
		}
		v, _ := atoi64(m)
		vals = append(vals, v)
		pos += len(m)
		ann := ""
		if pos < len(detail) && detail[pos] == '[' {
			depth, j := 0, pos
			for ; j < len(detail); j++ {
				if detail[j] == '[' {
					depth++
				} else if detail[j] == ']' {
					depth--
					if depth == 0 {
						break
					}
				}
			}
			if j >= len(detail) {
				return nil, nil, false
			}
			ann = detail[pos+1 : j]
			pos = j + 1
		}
		annots = append(annots, ann)
	}
	if detail[pos:] != chunks[len(chunks)-1] && detail[pos:] != strings.TrimLeft(chunks[len(chunks)-1], " \n\t") {
		return nil, nil, false
	}
	return vals, annots, true
}

var reCompAnn = regexp.MustCompile(`^(.*?)=(.*)=(-?\d+)$`)
var reSubAnn = regexp.MustCompile(`,([^,=\]]+)=(-?\d+)$`)

func init() {
	subcmds["c14-exec"] = func(args []string) int {
		fs := newFlags("c14-exec")
		out := fs.String("out", "", "events ndjson")
		n := fs.Int("n", 500, "expressions")
		fs.Parse(args)
		installRollHook()
		r := rand.New(rand.NewSource(envSeed()))
		w := newNDWriter(*out)
		defer w.Close()
		var marks []int
		ds.VerifStepHook = func(info *ds.VerifStepInfo) {
			if info.Depth == 0 && info.Op == "mark.detail" {
				marks = append(marks, len(rollLog))
			}
		}
		defer func() { ds.VerifStepHook = nil }()
		var vm *ds.Context
		reused := 0
		for i := 0; i < *n; i++ {
			g := &c14Gen{r: r}
			ast, tmpl := g.expr(1 + r.Intn(3))
			for len(g.slots) == 0 && r.Intn(20) != 0 {
				ast, tmpl = g.expr(1 + r.Intn(3))
			}
			// statements before the expression: a remark and the definitions the slots need
			prefix := ""
			if r.Intn(4) == 0 {
				prefix = []string{"'备注';", "\"note\" ;\n", "'力量检定'; "}[r.Intn(3)]
			}
			for _, sl := range g.slots {
				if sl.Prefix != "" {
					prefix += sl.Prefix + []string{";", "; ", ";\n", " ;\n  "}[r.Intn(4)]
				}
			}
			// assemble the source, the chunks around the slots and the byte range of every slot
			parts := strings.Split(tmpl, "\x00")
			parts[0] = prefix + parts[0]
			var sb strings.Builder
			begins := make([]int, len(g.slots))
			for k, p := range parts {
				sb.WriteString(p)
				if k < len(g.slots) {
					begins[k] = sb.Len()
					sb.WriteString(g.slots[k].Text)
				}
			}
			src := sb.String()
			// half of the expressions run on the VM of the previous one (the text must be the one of the latest run)
			if vm == nil || r.Intn(2) == 0 {
				vm = newSeededVM(uint64(r.Int63()))
				vm.Config.OpCountLimit = 100000
			} else {
				reused++
			}
			expectSrc = vm.RandSrc
			resetRolls(nil, false)
			marks = marks[:0]
			ev := map[string]any{"ev": "c14", "src": src, "ast": ast, "chunks": parts, "terms": []any{}, "slots": []any{}, "err": false, "errtext": "", "ret": 0, "detail": "", "detail2": "",
				"detailPanic": false, "retAfter": 0, "varsBefore": "", "varsAfter": "", "seedBefore": "", "seedAfter": "", "aligned": false, "shownValues": []int64{}, "annots": []string{}}
			// a third of the expressions are parsed once and evaluated twice, the text requested in between: the text observed below
			// must be the one of the SECOND evaluation (whose rolls and result are the ones recorded)
			var err error
			var pan any
			if r.Intn(3) == 0 {
				err, pan = func() (e error, p any) {
					defer func() {
						if rr := recover(); rr != nil {
							p = rr
						}
					}()
					if e = vm.Parse(src); e != nil {
						return
					}
					if e = vm.RunAfterParsed(); e != nil {
						return
					}
					_ = vm.GetDetailText()
					resetRolls(nil, false)
					marks = marks[:0]
					e = vm.RunAfterParsed()
					return
				}()
			} else {
				err, pan = runOne(vm, src)
			}
			if err != nil || pan != nil || vm.RestInput != "" {
				ev["err"] = true
				ev["errtext"] = fmt.Sprint(err, pan, vm.RestInput)
				w.Write(ev)
				continue
			}
			rv, isInt := vm.Ret.ReadInt()
			if !isInt {
				ev["err"], ev["errtext"] = true, "non-int result "+vm.Ret.ToString()
				w.Write(ev)
				continue
			}
			ev["ret"] = int64(rv)
			rolls := copyRolls()
			mk := append([]int{}, marks...)
			sdB, _ := vm.GetCurSeed()
			ev["varsBefore"], ev["seedBefore"] = varsOf(vm), fmt.Sprintf("%x", sdB)
			var d1, d2 string
			gd := guard("GetDetailText", func() { d1 = vm.GetDetailText(); d2 = vm.GetDetailText() })
			ev["detailPanic"] = gd.Panic
			ev["detail"], ev["detail2"] = d1, d2
			ra, _ := vm.Ret.ReadInt()
			sdA, _ := vm.GetCurSeed()
			ev["retAfter"], ev["varsAfter"], ev["seedAfter"] = int64(ra), varsOf(vm), fmt.Sprintf("%x", sdA)
			// the text, cut along the known chunks (the text itself is trimmed at both ends)
			chunks := append([]string{}, parts...)
			chunks[0] = strings.TrimLeft(chunks[0], " \n\t")
			chunks[len(chunks)-1] = strings.TrimRight(chunks[len(chunks)-1], " \n\t")
			vals, annots, ok := segment(d1, chunks)
			ev["aligned"] = ok
			if ok {
				ev["shownValues"], ev["annots"] = vals, annots
			}
			// spans by byte range
			spanAt := func(b, e int) *ds.BufferSpan {
				for k := range vm.DetailSpans {
					sp := &vm.DetailSpans[k]
					// a term ending in a parenthesis takes the blanks after it into its span
					if int(sp.Begin) == b && int(sp.End) >= e && int(sp.End) <= len(src) && strings.TrimSpace(src[e:sp.End]) == "" {
						return sp
					}
				}
				return nil
			}
			// roll ranges per executed mark, in evaluation order
			rng := func(m int) []rollRec {
				lo, hi := len(rolls), len(rolls)
				if m < len(mk) {
					lo = mk[m]
				}
				if m+1 < len(mk) {
					hi = mk[m+1]
				}
				if lo <= hi && hi <= len(rolls) {
					return rolls[lo:hi]
				}
				return []rollRec{}
			}
			terms := make([]any, len(g.terms))
			var slots []any
			mi := 0
			for k, sl := range g.slots {
				srec := map[string]any{"k": sl.Kind, "ti": 0, "value": int64(0), "hasSpan": false, "name": sl.Name, "annotName": "", "annotValue": int64(0), "annotOk": false}
				b := begins[k]
				outer := spanAt(b+sl.OuterOff, b+len(sl.Text))
				ann := ""
				if ok {
					ann = annots[k]
				}
				if outer != nil && outer.Ret != nil {
					if v, isI := outer.Ret.ReadInt(); isI {
						srec["hasSpan"], srec["value"] = true, int64(v)
					}
				}
				mkTerm := func(ti int, sp *ds.BufferSpan, m int) {
					pl := g.terms[ti]
					te := diceEv{Ev: "term", Fam: pl.Fam, Via: "vm", Src: g.texts[ti], P: pl.P, Shown: newShown(), Rolls: rng(m)}
					if sp != nil && sp.Ret != nil {
						if v, isI := sp.Ret.ReadInt(); isI {
							te.Total = int64(v)
						}
						te.Text = sp.Text
						te.Shown = parseShown(pl.Fam, sp.Text)
					} else {
						te.Err = true
					}
					terms[ti] = &te
				}
				switch sl.Kind {
				case "term":
					mkTerm(sl.Terms[0], outer, mi)
					te := terms[sl.Terms[0]].(*diceEv)
					srec["ti"] = sl.Terms[0] + 1
					// the annotation printed in the text must be the one of this roll (a text equal to the value is not repeated)
					srec["annotOk"] = ann == "" || ann == "略" || te.Text == "" || te.Text == fmt.Sprint(te.Total) || strings.Contains(ann, te.Text)
				case "nested":
					vals := make([]int64, len(sl.Subs))
					subs := []any{}
					for si, sub := range sl.Subs {
						sp := spanAt(b+sub.Off, b+sub.Off+len(sub.Text))
						rec := map[string]any{"k": sub.Kind, "ti": 0, "name": sub.Text, "value": int64(0), "assigned": sub.Value, "hasSpan": sp != nil}
						if sub.Kind == "term" {
							mkTerm(sub.Term, sp, mi+si)
							rec["ti"] = sub.Term + 1
							vals[si] = terms[sub.Term].(*diceEv).Total
						} else if sp != nil && sp.Ret != nil {
							v, _ := sp.Ret.ReadInt()
							vals[si] = int64(v)
						}
						rec["value"] = vals[si]
						subs = append(subs, rec)
					}
					// the operands of the outer term are what its sub-expressions evaluated to
					op := &g.terms[sl.Terms[0]].P
					op.Times, op.Sides = evalN(sl.TimesAst, vals), evalN(sl.SidesAst, vals)
					cnt := N{"k": "num", "v": int64(0)}
					if sl.CntAst != nil {
						op.Cnt = evalN(sl.CntAst, vals)
						cnt = sl.CntAst
					}
					mkTerm(sl.Terms[0], outer, mi+len(sl.Subs))
					ot := terms[sl.Terms[0]].(*diceEv)
					srec["ti"], srec["subs"], srec["timesAst"], srec["sidesAst"], srec["cntAst"] = sl.Terms[0]+1, subs, sl.TimesAst, sl.SidesAst, cnt
					// sub-rolls are listed after the main part as ,text=value
					as := []any{}
					pieces := strings.Split(ann, ",")
					if len(pieces) > len(sl.Subs) {
						for _, pc := range pieces[len(pieces)-len(sl.Subs):] {
							if m := reSubAnn.FindStringSubmatch("," + pc); m != nil {
								v, _ := atoi64(m[2])
								as = append(as, map[string]any{"name": m[1], "value": v})
							}
						}
						srec["annotOk"] = ot.Text == "" || ot.Text == fmt.Sprint(ot.Total) || strings.Contains(ann, ot.Text)
					}
					srec["annotSubs"] = as
				case "var":
					srec["annotName"], srec["annotOk"] = ann, true
				case "computed":
					if m := reCompAnn.FindStringSubmatch(ann); m != nil {
						srec["annotName"] = m[1]
						srec["annotValue"], _ = atoi64(m[3])
						srec["annotOk"] = true
					}
				}
				mi += sl.Marks
				slots = append(slots, srec)
			}
			tl := []any{}
			for _, t := range terms {
				if te, isT := t.(*diceEv); isT {
					tl = append(tl, te.compact())
				}
			}
			if slots == nil {
				slots = []any{}
			}
			ev["terms"], ev["slots"], ev["marks"] = tl, slots, len(mk)
			w.Write(ev)
		}
		emitSummary(map[string]any{"events": w.n, "reused": reused})
		return 0
	}
}
