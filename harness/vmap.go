package main

import (
	"encoding/json"
	"fmt"
	"math/rand"
	"sort"
	"sync"
	"sync/atomic"

	ds "github.com/sealdice/dicescript"
)

// C12: ValueMap against the abstract map of spec/VMapDefs.tla.

type vmCall struct {
	Op string `json:"op"`
	K  string `json:"k"`
	V  int    `json:"v"`
}

type kv struct {
	K string `json:"k"`
	V int    `json:"v"`
}

type vmRes struct {
	Res int  `json:"res"`
	Ok  bool `json:"ok"`
	Rng []kv `json:"rng"`
}

type vmCase struct {
	Ops []vmCall `json:"ops"`
	Exp []vmRes  `json:"exp"`
}

func ival(v *ds.VMValue) int {
	if v == nil {
		return 0
	}
	i, ok := v.ReadInt()
	if !ok {
		return -999
	}
	return int(i)
}

func vmApply(m *ds.ValueMap, c vmCall) vmRes {
	r := vmRes{Rng: []kv{}}
	switch c.Op {
	case "Store":
		m.Store(c.K, ds.NewIntVal(ds.IntType(c.V)))
	case "Load":
		v, ok := m.Load(c.K)
		r.Res, r.Ok = ival(v), ok
	case "LoadOrStore":
		v, ok := m.LoadOrStore(c.K, ds.NewIntVal(ds.IntType(c.V)))
		r.Res, r.Ok = ival(v), ok
	case "LoadAndDelete":
		v, ok := m.LoadAndDelete(c.K)
		r.Res, r.Ok = ival(v), ok
	case "Delete":
		m.Delete(c.K)
	case "Clear":
		m.Clear()
	case "Range":
		m.Range(func(k string, v *ds.VMValue) bool {
			r.Rng = append(r.Rng, kv{k, ival(v)})
			return true
		})
		sort.Slice(r.Rng, func(i, j int) bool { return r.Rng[i].K < r.Rng[j].K })
	case "Length":
		r.Res = m.Length()
	default:
		fatal("unknown map op %q", c.Op)
	}
	return r
}

func sameRes(a, b vmRes) bool {
	if a.Res != b.Res || a.Ok != b.Ok || len(a.Rng) != len(b.Rng) {
		return false
	}
	x := append([]kv{}, a.Rng...)
	y := append([]kv{}, b.Rng...)
	sort.Slice(x, func(i, j int) bool { return x[i].K < x[j].K })
	sort.Slice(y, func(i, j int) bool { return y[i].K < y[j].K })
	for i := range x {
		if x[i] != y[i] {
			return false
		}
	}
	return true
}

// script-level observation of a dict built by the same history: len(), truthiness, ==, keys()
type dictObs struct {
	Len    int  `json:"len"`
	Truthy bool `json:"truthy"`
	EqSelf bool `json:"eqself"` // d == fresh dict with the same live pairs
	EqMore bool `json:"eqmore"` // d == fresh dict with the same pairs plus one extra key
	NKeys  int  `json:"nkeys"`
}

func observeDict(m *ds.ValueMap, live []kv, script bool) dictObs {
	d := ds.NewDictVal(m).V()
	o := dictObs{}
	fresh := &ds.ValueMap{}
	for _, p := range live {
		fresh.Store(p.K, ds.NewIntVal(ds.IntType(p.V)))
	}
	e := ds.NewDictVal(fresh).V()
	more := &ds.ValueMap{}
	for _, p := range live {
		more.Store(p.K, ds.NewIntVal(ds.IntType(p.V)))
	}
	more.Store("zz_extra", ds.NewIntVal(7))
	f := ds.NewDictVal(more).V()
	if !script {
		// the same observations through the Go API the VM uses for them
		ctx := ds.NewVM()
		o.Len = int(d.Length(ctx))
		o.Truthy = d.AsBool()
		o.EqSelf = ds.ValueEqual(d, e, true) && ds.ValueEqual(e, d, true)
		o.EqMore = ds.ValueEqual(d, f, true) || ds.ValueEqual(f, d, true)
		n := 0
		m.Range(func(string, *ds.VMValue) bool { n++; return true })
		o.NKeys = n
		return o
	}
	vm := ds.NewVM()
	vm.Attrs.Store("xx", d)
	vm.Attrs.Store("yy", e)
	vm.Attrs.Store("zz", f)
	run := func(src string) int {
		if err := vm.Run(src); err != nil {
			return -1000
		}
		return ival(vm.Ret)
	}
	o.Len = run("xx.len()")
	o.Truthy = run("xx ? 1 : 0") == 1
	o.EqSelf = run("xx == yy") == 1 && run("yy == xx") == 1
	o.EqMore = run("xx == zz") == 1 || run("zz == xx") == 1
	o.NKeys = run("xx.keys().len()")
	return o
}

func init() {
	// replay TLC-generated cases on the real map
	subcmds["vmap-replay"] = func(args []string) int {
		fs := newFlags("vmap-replay")
		in := fs.String("in", "", "cases ndjson")
		out := fs.String("out", "", "mismatch ndjson")
		dict := fs.Bool("dict", true, "also observe the history through script-level dict operations")
		fs.Parse(args)
		w := newNDWriter(*out)
		defer w.Close()
		n, bad, calls := 0, 0, 0
		distinct := 0
		readND(*in, func(line []byte) {
			var c vmCase
			if err := json.Unmarshal(line, &c); err != nil {
				fatal("bad case: %v", err)
			}
			n++
			if len(c.Ops) >= 2 {
				distinct++
			}
			m := &ds.ValueMap{}
			var obs []vmRes
			fail := -1
			for i, op := range c.Ops {
				r := vmApply(m, op)
				calls++
				obs = append(obs, r)
				if fail < 0 && !sameRes(r, c.Exp[i]) {
					fail = i
				}
			}
			// final contents per the abstract map = replay of exp: recompute with a Go map only for the
			// script-level observation (live pairs), taken from a Range on the real map cross-checked below
			if fail < 0 && *dict {
				final := vmApply(m, vmCall{Op: "Range"})
				// expected live pairs: derive from the spec's outcomes by simulating the ops on a plain map
				exp := map[string]int{}
				for _, op := range c.Ops {
					switch op.Op {
					case "Store":
						exp[op.K] = op.V
					case "LoadOrStore":
						if _, ok := exp[op.K]; !ok {
							exp[op.K] = op.V
						}
					case "LoadAndDelete", "Delete":
						delete(exp, op.K)
					case "Clear":
						exp = map[string]int{}
					}
				}
				var live []kv
				for k, v := range exp {
					live = append(live, kv{k, v})
				}
				sort.Slice(live, func(i, j int) bool { return live[i].K < live[j].K })
				if !sameRes(final, vmRes{Rng: live}) {
					fail = len(c.Ops)
					obs = append(obs, final)
				} else {
					// rebuild (Range promoted the map; rebuild the un-promoted history for the script view)
					m2 := &ds.ValueMap{}
					for _, op := range c.Ops {
						vmApply(m2, op)
					}
					o := observeDict(m2, live, n%29 == 0)
					want := dictObs{Len: len(live), Truthy: len(live) > 0, EqSelf: true, EqMore: false, NKeys: len(live)}
					if o != want {
						bad++
						w.Write(map[string]any{"kind": "dict", "ops": c.Ops, "want": want, "got": o})
						return
					}
				}
			}
			if fail >= 0 {
				bad++
				w.Write(map[string]any{"kind": "call", "ops": c.Ops, "exp": c.Exp, "obs": obs, "at": fail})
			}
		})
		emitSummary(map[string]any{"cases": n, "calls": calls, "mismatches": bad, "distinct_nontrivial": distinct})
		return 0
	}

	// random long sequential histories, logged for trace validation (with the internals snapshot as Aux)
	subcmds["vmap-trace"] = func(args []string) int {
		fs := newFlags("vmap-trace")
		out := fs.String("out", "", "trace ndjson")
		n := fs.Int("n", 200, "histories")
		ln := fs.Int("len", 40, "calls per history")
		nk := fs.Int("keys", 4, "keys")
		fs.Parse(args)
		rng := rand.New(rand.NewSource(envSeed()))
		keys := []string{"a", "b", "c", "d", "e", "f"}[:*nk]
		ops := []string{"Store", "Store", "Load", "Load", "LoadOrStore", "LoadAndDelete", "Delete", "Range", "Length", "Clear"}
		w := newNDWriter(*out)
		defer w.Close()
		events := 0
		for h := 0; h < *n; h++ {
			w.Write(map[string]any{"ev": "reset", "op": "", "k": "", "v": 0, "res": 0, "ok": false, "rng": []kv{}, "aux": shapeOf(&ds.ValueMap{})})
			m := &ds.ValueMap{}
			for i := 0; i < *ln; i++ {
				op := ops[rng.Intn(len(ops))]
				if op == "Clear" && rng.Intn(4) != 0 {
					op = "Load"
				}
				c := vmCall{Op: op}
				switch op {
				case "Store", "LoadOrStore":
					c.K, c.V = keys[rng.Intn(len(keys))], 1+rng.Intn(3)
				case "Load", "LoadAndDelete", "Delete":
					c.K = keys[rng.Intn(len(keys))]
				}
				r := vmApply(m, c)
				w.Write(map[string]any{"ev": "call", "op": c.Op, "k": c.K, "v": c.V, "res": r.Res, "ok": r.Ok, "rng": r.Rng, "aux": shapeOf(m)})
				events++
			}
		}
		emitSummary(map[string]any{"histories": *n, "events": events})
		return 0
	}

	// Length under concurrency: one writer moves a token round a ring of keys (store the next, delete the previous: 1 or 2 live
	// keys after every prefix of its operations), readers call Length all the while
	subcmds["vmap-len"] = func(args []string) int {
		fs := newFlags("vmap-len")
		out := fs.String("out", "", "events ndjson")
		runs := fs.Int("runs", 4, "runs")
		calls := fs.Int("calls", 100000, "Length calls per reader")
		fs.Parse(args)
		w := newNDWriter(*out)
		defer w.Close()
		for run := 0; run < *runs; run++ {
			ring := 4 + run%3
			keys := make([]string, ring)
			for i := range keys {
				keys[i] = fmt.Sprintf("t%d", i)
			}
			m := &ds.ValueMap{}
			m.Store(keys[0], ds.NewIntVal(1))
			var stop atomic.Bool
			var wg sync.WaitGroup
			wg.Add(1)
			go func() {
				defer wg.Done()
				for i := 0; !stop.Load(); i++ {
					m.Store(keys[(i+1)%ring], ds.NewIntVal(1))
					m.Delete(keys[i%ring])
				}
			}()
			readers := 2
			seen := make([]map[int]bool, readers)
			var rg sync.WaitGroup
			for g := 0; g < readers; g++ {
				seen[g] = map[int]bool{}
				rg.Add(1)
				go func(g int) {
					defer rg.Done()
					for c := 0; c < *calls; c++ {
						seen[g][m.Length()] = true
					}
				}(g)
			}
			rg.Wait()
			stop.Store(true)
			wg.Wait()
			all := map[int]bool{}
			for _, sg := range seen {
				for v := range sg {
					all[v] = true
				}
			}
			vals := []int{}
			for v := range all {
				vals = append(vals, v)
			}
			sort.Ints(vals)
			// quiescent: exactly the token's key is live
			w.Write(map[string]any{"ev": "c12len", "ring": ring, "lo": 1, "hi": 2, "seen": vals, "calls": readers * *calls, "final": m.Length(), "finalExpected": 1})
		}
		emitSummary(map[string]any{"runs": *runs})
		return 0
	}

	// concurrent histories: invocation/response tickets from a global atomic counter taken inside the call window
	// amplified scenarios: many keys are driven into the same internal shape (stored / promoted / deleted after promotion /
	// expunged), then one goroutine applies an operation to each of them in turn while another one performs a single
	// operation that restructures the map (a store of a new key, Length, Range, Clear, misses): every key is one chance
	// for the two to meet inside the window
	subcmds["vmap-amp"] = func(args []string) int {
		fs := newFlags("vmap-amp")
		out := fs.String("out", "", "trace ndjson")
		reps := fs.Int("reps", 20, "repetitions per scenario")
		fs.Parse(args)
		rng := rand.New(rand.NewSource(envSeed()))
		const M = 32
		keys := make([]string, M)
		for i := range keys {
			keys[i] = fmt.Sprintf("k%02d", i+1)
		}
		preps := []string{"none", "stored", "promoted", "promoted-deleted", "expunged", "stored-deleted"}
		opsA := []string{"Store", "LoadOrStore", "Delete", "LoadAndDelete", "Load"}
		opsB := []string{"StoreNew", "Length", "Range", "Clear", "Misses"}
		w := newNDWriter(*out)
		defer w.Close()
		n := 0
		for _, prep := range preps {
			for _, oa := range opsA {
				for _, ob := range opsB {
					// scenarios in which entries are promoted / deleted / expunged while they are being written get more repetitions
					nrep := *reps
					if (prep == "promoted" || prep == "promoted-deleted" || prep == "expunged") && oa != "Load" && (ob == "StoreNew" || ob == "Misses" || ob == "Clear") {
						nrep *= 6
					}
					for rep := 0; rep < nrep; rep++ {
						m := &ds.ValueMap{}
						init := []kv{}
						live := prep == "stored" || prep == "promoted"
						if prep != "none" {
							for i, k := range keys {
								m.Store(k, ds.NewIntVal(ds.IntType(100+i)))
							}
						}
						switch prep {
						case "promoted":
							m.Length()
						case "promoted-deleted":
							m.Length()
							for _, k := range keys {
								m.Delete(k)
							}
						case "expunged":
							m.Length()
							for _, k := range keys {
								m.Delete(k)
							}
							m.Store("j", ds.NewIntVal(7)) // rebuilds dirty: the deleted entries become expunged
							init = append(init, kv{"j", 7})
						case "stored-deleted":
							for _, k := range keys {
								m.Delete(k)
							}
						}
						if live {
							for i, k := range keys {
								init = append(init, kv{k, 100 + i})
							}
						}
						var ticket int64
						var all []map[string]any
						var mu sync.Mutex
						rec := func(g, seq int, c vmCall, r vmRes, inv, rsp int64) {
							mu.Lock()
							all = append(all, map[string]any{"g": g, "seq": seq, "op": c.Op, "k": c.K, "v": c.V, "res": r.Res, "ok": r.Ok, "inv": inv, "rsp": rsp})
							mu.Unlock()
						}
						var ready int64
						var wg sync.WaitGroup
						wg.Add(2)
						delay := rng.Intn(800)
						go func() {
							defer wg.Done()
							atomic.AddInt64(&ready, 1)
							for atomic.LoadInt64(&ready) < 2 {
							}
							for i, k := range keys {
								c := vmCall{Op: oa, K: k}
								if oa == "Store" || oa == "LoadOrStore" {
									c.V = 200 + i
								}
								inv := atomic.AddInt64(&ticket, 1)
								r := vmApply(m, c)
								rsp := atomic.AddInt64(&ticket, 1)
								rec(0, i, c, r, inv, rsp)
							}
						}()
						go func() {
							defer wg.Done()
							atomic.AddInt64(&ready, 1)
							for atomic.LoadInt64(&ready) < 2 {
							}
							for spin := 0; spin < delay; spin++ {
								atomic.LoadInt64(&ticket)
							}
							var cs []vmCall
							switch ob {
							case "StoreNew":
								cs = []vmCall{{Op: "Store", K: "n", V: 9}}
							case "Length":
								cs = []vmCall{{Op: "Length"}}
							case "Range":
								cs = []vmCall{{Op: "Range"}}
							case "Clear":
								cs = []vmCall{{Op: "Clear"}}
							case "Misses":
								cs = []vmCall{{Op: "Load", K: "z"}, {Op: "Load", K: "z"}, {Op: "Load", K: "z"}, {Op: "Store", K: "n", V: 9}}
							}
							for i, c := range cs {
								inv := atomic.AddInt64(&ticket, 1)
								r := vmApply(m, c)
								rsp := atomic.AddInt64(&ticket, 1)
								rec(1, i, c, r, inv, rsp)
							}
						}()
						wg.Wait()
						// quiescent contents, observed twice and by point reads (promotion happens in between)
						f1 := vmApply(m, vmCall{Op: "Range"})
						okPoint := true
						for _, p := range f1.Rng {
							if v, ok := m.Load(p.K); !ok || ival(v) != p.V {
								okPoint = false
							}
						}
						f2 := vmApply(m, vmCall{Op: "Range"})
						ln := m.Length()
						stable := okPoint && sameRes(f1, f2) && ln == len(f1.Rng)
						w.Write(map[string]any{"init": init, "ops": all, "final": f1.Rng, "stable": stable, "scenario": prep + "/" + oa + "/" + ob})
						n++
					}
				}
			}
		}
		emitSummary(map[string]any{"histories": n, "scenarios": len(preps) * len(opsA) * len(opsB)})
		return 0
	}
	subcmds["vmap-conc"] = func(args []string) int {
		fs := newFlags("vmap-conc")
		out := fs.String("out", "", "trace ndjson")
		n := fs.Int("n", 100, "histories")
		g := fs.Int("g", 3, "goroutines")
		per := fs.Int("ops", 3, "ops per goroutine")
		fs.Parse(args)
		rng := rand.New(rand.NewSource(envSeed()))
		keys := []string{"a", "b"}
		ops := []string{"Store", "Load", "LoadOrStore", "LoadAndDelete", "Delete", "Store", "Load"}
		w := newNDWriter(*out)
		defer w.Close()
		overlaps, overlapsSameKey := 0, 0
		for h := 0; h < *n; h++ {
			m := &ds.ValueMap{}
			// sequential set-up prefix so that promoted / tombstoned shapes are reached
			pre := rng.Intn(5)
			var setup []vmCall
			for i := 0; i < pre; i++ {
				op := []string{"Store", "Load", "Delete", "Range", "LoadOrStore"}[rng.Intn(5)]
				c := vmCall{Op: op}
				if op != "Range" {
					c.K = keys[rng.Intn(2)]
				}
				if op == "Store" || op == "LoadOrStore" {
					c.V = 90 + i
				}
				vmApply(m, c)
				setup = append(setup, c)
			}
			init := vmApply(m, vmCall{Op: "Range"})
			// NB: that Range promoted; redo without the final Range to keep the un-promoted shape
			m = &ds.ValueMap{}
			for _, c := range setup {
				vmApply(m, c)
			}
			plans := make([][]vmCall, *g)
			val := 1
			for gi := range plans {
				for i := 0; i < *per; i++ {
					op := ops[rng.Intn(len(ops))]
					c := vmCall{Op: op, K: keys[rng.Intn(2)]}
					if op == "Store" || op == "LoadOrStore" {
						c.V = val // distinguishable values
						val++
					}
					plans[gi] = append(plans[gi], c)
				}
			}
			type rec struct {
				G        int    `json:"g"`
				Seq      int    `json:"seq"`
				Op       string `json:"op"`
				K        string `json:"k"`
				V        int    `json:"v"`
				Res      int    `json:"res"`
				Ok       bool   `json:"ok"`
				Inv, Rsp int64
			}
			var ticket int64
			barrier := make([]int64, *per)
			barrier2 := make([]int64, *per)
			recs := make([][]rec, *g)
			var wg sync.WaitGroup
			start := make(chan struct{})
			for gi := 0; gi < *g; gi++ {
				wg.Add(1)
				go func(gi int) {
					defer wg.Done()
					<-start
					for i, c := range plans[gi] {
						// spin barrier per round so that the calls of one round really overlap
						atomic.AddInt64(&barrier[i], 1)
						for spins := 0; atomic.LoadInt64(&barrier[i]) < int64(*g) && spins < 200000; spins++ {
						}
						inv := atomic.AddInt64(&ticket, 1)
						// second barrier inside the call window: every goroutine of the round has taken its
						// invocation ticket before any of them touches the map, so the calls run truly concurrently
						atomic.AddInt64(&barrier2[i], 1)
						for spins := 0; atomic.LoadInt64(&barrier2[i]) < int64(*g) && spins < 200000; spins++ {
						}
						r := vmApply(m, c)
						rsp := atomic.AddInt64(&ticket, 1)
						recs[gi] = append(recs[gi], rec{G: gi, Seq: i, Op: c.Op, K: c.K, V: c.V, Res: r.Res, Ok: r.Ok, Inv: inv, Rsp: rsp})
					}
				}(gi)
			}
			close(start)
			wg.Wait()
			_ = barrier
			final := vmApply(m, vmCall{Op: "Range"})
			var all []map[string]any
			for _, rs := range recs {
				for _, r := range rs {
					all = append(all, map[string]any{"g": r.G, "seq": r.Seq, "op": r.Op, "k": r.K, "v": r.V, "res": r.Res, "ok": r.Ok, "inv": r.Inv, "rsp": r.Rsp})
				}
			}
			w.Write(map[string]any{"init": init.Rng, "ops": all, "final": final.Rng})
			for a := 0; a < len(recs); a++ {
				for b := a + 1; b < len(recs); b++ {
					for _, x := range recs[a] {
						for _, y := range recs[b] {
							if x.Inv < y.Rsp && y.Inv < x.Rsp {
								overlaps++
								if x.K == y.K {
									overlapsSameKey++
								}
							}
						}
					}
				}
			}
		}
		emitSummary(map[string]any{"histories": *n, "overlapping_pairs": overlaps, "overlapping_same_key": overlapsSameKey})
		return 0
	}
}

func shapeOf(m *ds.ValueMap) map[string]any {
	s := m.VerifShape()
	return map[string]any{"readLen": s.ReadLen, "dirtyLen": s.DirtyLen, "misses": s.Misses, "amended": s.Amended,
		"dirtyNil": s.DirtyNil, "readNil": s.ReadNil, "readExp": s.ReadExpunged}
}
