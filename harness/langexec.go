package main

import (
	"encoding/json"
	"fmt"
	"math"
	"math/rand"
	"os"
	"sort"
	"strings"

	ds "github.com/sealdice/dicescript"
)

// Replay of the Lang oracle's cases on the real VM (C02 and friends).
// Trusted here: the token joiner (legal whitespace only), the literal escaper, and the projection VMValue -> tagged JSON.

var symChars = map[string]string{
	"SP": " ", "SQ": "'", "DQ": "\"", "BT": "`", "RS": "\x1e", "BSL": "\\", "LB": "{", "RB": "}", "LF": "\n", "CR": "\r",
	"TAB": "\t", "FF": "\f", "PCT": "%", "CJK1": "力", "CJK2": "量", "EMOJI": "😀",
}

func charsToString(cs []string) string {
	var sb strings.Builder
	for _, c := range cs {
		if s, ok := symChars[c]; ok {
			sb.WriteString(s)
		} else {
			sb.WriteString(c)
		}
	}
	return sb.String()
}

func stringToChars(s string) []string {
	rev := map[string]string{}
	for k, v := range symChars {
		rev[v] = k
	}
	out := []string{}
	for _, r := range s {
		c := string(r)
		if k, ok := rev[c]; ok {
			out = append(out, k)
		} else {
			out = append(out, c)
		}
	}
	return out
}

// escapeLiteral writes text as the body of a literal of the given quote style using the documented escapes
// (minimal policy: only what must be escaped).
func escapeLiteral(text string, q int) string {
	var sb strings.Builder
	for _, r := range text {
		switch r {
		case '\\':
			sb.WriteString("\\\\")
		case '\n':
			sb.WriteString("\\n")
		case '\r':
			sb.WriteString("\\r")
		case '\t':
			sb.WriteString("\\t")
		case '\f':
			sb.WriteString("\\f")
		case '\'':
			if q == 1 {
				sb.WriteString("\\'")
			} else {
				sb.WriteRune(r)
			}
		case '"':
			if q == 2 {
				sb.WriteString("\\\"")
			} else {
				sb.WriteRune(r)
			}
		case '{':
			if q >= 3 {
				sb.WriteString("\\{")
			} else {
				sb.WriteRune(r)
			}
		default:
			sb.WriteRune(r)
		}
	}
	return sb.String()
}

var quoteOf = map[int]string{1: "'", 2: "\"", 3: "`", 4: "\x1e"}

type tok struct {
	K     string   `json:"k"`
	S     string   `json:"s"`
	C     []string `json:"c"`
	Q     int      `json:"q"`
	Parts []struct {
		K    string   `json:"k"`
		C    []string `json:"c"`
		Pct  bool     `json:"pct"`
		Toks []tok    `json:"toks"`
	} `json:"parts"`
}

type joiner struct {
	r     *rand.Rand
	plain bool // no whitespace variation
}

func (j *joiner) ws(opts ...string) string {
	if j.plain || j.r == nil {
		return opts[0]
	}
	return opts[j.r.Intn(len(opts))]
}

// join renders a token sequence; only whitespace the grammar accepts at that place is ever inserted
func (j *joiner) join(ts []tok) string {
	var sb strings.Builder
	prevWord := false
	for i, t := range ts {
		switch t.K {
		case "op":
			sb.WriteString(j.ws(" ", " ", "  ", " \n ") + t.S + j.ws(" ", " ", "  ", "\n"))
			prevWord = false
		case "pre":
			sb.WriteString(t.S)
			prevWord = false
		case "kw":
			if prevWord || (i > 0 && (ts[i-1].S == "}")) {
				sb.WriteString(" ")
			}
			sb.WriteString(t.S + j.ws(" ", " ", "  ", " \n"))
			prevWord = false
		case "sep":
			sb.WriteString(j.ws("; ", ";", ";\n", ";\n\n", ";  ")) // no blank before ";": "return e ;" is not accepted
			prevWord = false
		case "str":
			q := quoteOf[t.Q]
			sb.WriteString(q + escapeLiteral(charsToString(t.C), t.Q) + q)
			prevWord = false
		case "tmpl":
			q := quoteOf[t.Q]
			sb.WriteString(q)
			for _, p := range t.Parts {
				if p.K == "lit" {
					sb.WriteString(escapeLiteral(charsToString(p.C), t.Q))
				} else if p.Pct {
					sb.WriteString("{%" + j.ws("", " ", "\n") + j.join(p.Toks) + j.ws("", " ") + "%}")
				} else {
					sb.WriteString("{" + j.ws("", " ") + j.join(p.Toks) + j.ws("", " ") + "}")
				}
			}
			sb.WriteString(q)
			prevWord = false
		default:
			s := t.S
			isWord := len(s) > 0 && s != "(" && s != ")" && s != "[" && s != "]" && s != "{" && s != "}" && s != "," && s != "." && s != ".." && s != ":"
			switch s {
			case "{":
				// block or dict brace: blanks around are fine on the inside; before it after a word too
				sb.WriteString(j.ws(" ", "") + "{" + j.ws(" ", "", "\n  "))
				prevWord = false
				continue
			case "}":
				sb.WriteString(j.ws(" ", "", "\n") + "}")
				prevWord = false
				continue
			case ",":
				sb.WriteString("," + j.ws(" ", "", "  "))
				prevWord = false
				continue
			case "(", "[":
				sb.WriteString(s + j.ws("", "", " "))
				prevWord = false
				continue
			}
			if isWord && prevWord {
				sb.WriteString(" ")
			}
			sb.WriteString(s)
			prevWord = isWord
		}
	}
	return sb.String()
}

// ---------------------------------------------------------------------------
// projection of real values into the oracle's tagged form

type J = map[string]any

func dyadic(f float64) (int64, int64, bool) {
	if math.IsInf(f, 0) || math.IsNaN(f) {
		return 0, 0, false
	}
	d := int64(1)
	for i := 0; i < 40; i++ {
		if f == math.Trunc(f) {
			if math.Abs(f) > 1e15 {
				return 0, 0, false
			}
			return int64(f), d, true
		}
		f *= 2
		d *= 2
	}
	return 0, 0, false
}

func project(v *ds.VMValue, depth int) J {
	if v == nil {
		return J{"t": "NIL"}
	}
	if depth > 12 {
		return J{"t": "deep"}
	}
	switch v.TypeId {
	case ds.VMTypeInt:
		i, _ := v.ReadInt()
		return J{"t": "int", "v": int64(i)}
	case ds.VMTypeFloat:
		f, _ := v.ReadFloat()
		n, d, ok := dyadic(f)
		if !ok {
			return J{"t": "flt", "raw": f}
		}
		return J{"t": "flt", "n": n, "d": d}
	case ds.VMTypeString:
		s, _ := v.ReadString()
		return J{"t": "str", "c": stringToChars(s)}
	case ds.VMTypeNull:
		return J{"t": "null"}
	case ds.VMTypeArray:
		a, _ := v.ReadArray()
		xs := []any{}
		for _, e := range a.List {
			xs = append(xs, project(e, depth+1))
		}
		return J{"t": "arr", "xs": xs}
	case ds.VMTypeDict:
		d, _ := v.ReadDictData()
		m := map[string]any{}
		d.Dict.Range(func(k string, e *ds.VMValue) bool {
			m[k] = project(e, depth+1)
			return true
		})
		return J{"t": "dict", "m": m}
	case ds.VMTypeFunction:
		fd, _ := v.ReadFunctionData()
		return J{"t": "func", "n": fd.Name}
	case ds.VMTypeComputedValue:
		return J{"t": "comp"}
	case ds.VMTypeNativeFunction:
		nd, _ := v.ReadNativeFunctionData()
		return J{"t": "nat", "n": nd.Name}
	}
	return J{"t": fmt.Sprintf("type%d", v.TypeId)}
}

func asInt(x any) (int64, bool) {
	switch v := x.(type) {
	case float64:
		return int64(v), v == math.Trunc(v)
	case int64:
		return v, true
	case int:
		return int64(v), true
	}
	return 0, false
}

func strList(x any) []string {
	out := []string{}
	if xs, ok := x.([]any); ok {
		for _, e := range xs {
			s, _ := e.(string)
			out = append(out, s)
		}
	}
	if xs, ok := x.([]string); ok {
		return xs
	}
	return out
}

// sameValue compares the oracle's value (decoded JSON) with the projection of the real one
func sameValue(exp map[string]any, got J) bool {
	et, _ := exp["t"].(string)
	gt, _ := got["t"].(string)
	if et != gt {
		return false
	}
	switch et {
	case "int":
		a, _ := asInt(exp["v"])
		b, _ := asInt(got["v"])
		return a == b
	case "flt":
		if _, raw := got["raw"]; raw {
			return false
		}
		an, _ := asInt(exp["n"])
		ad, _ := asInt(exp["d"])
		bn, _ := asInt(got["n"])
		bd, _ := asInt(got["d"])
		return an*bd == bn*ad
	case "str":
		return charsToString(strList(exp["c"])) == charsToString(strList(got["c"]))
	case "null", "comp":
		return true
	case "func", "nat":
		return exp["n"] == got["n"]
	case "arr":
		ex, _ := exp["xs"].([]any)
		gx, _ := got["xs"].([]any)
		if len(ex) != len(gx) {
			return false
		}
		for i := range ex {
			em, _ := ex[i].(map[string]any)
			gm, _ := gx[i].(J)
			if !sameValue(em, gm) {
				return false
			}
		}
		return true
	case "dict":
		ks, _ := exp["ks"].([]any)
		vs, _ := exp["vs"].([]any)
		gm, _ := got["m"].(map[string]any)
		if len(ks) != len(gm) {
			return false
		}
		for i, k := range ks {
			key := charsToString(strList(k))
			gv, ok := gm[key]
			if !ok {
				return false
			}
			em, _ := vs[i].(map[string]any)
			if !sameValue(em, gv.(J)) {
				return false
			}
		}
		return true
	}
	return false
}

type oracleRun struct {
	Toks []tok          `json:"toks"`
	Sig  string         `json:"sig"`
	V    map[string]any `json:"v"`
	Vars []struct {
		N string         `json:"n"`
		V map[string]any `json:"v"`
	} `json:"vars"`
	Pos int `json:"pos"`
}

type oracleCase struct {
	Id  int `json:"id"`
	Cfg struct {
		Div0 bool `json:"div0"`
		Mode int  `json:"mode"`
	} `json:"cfg"`
	Faces []int64     `json:"faces"`
	Runs  []oracleRun `json:"runs"`
}

type langMismatch struct {
	Id    int      `json:"id"`
	Run   int      `json:"run"`
	Kind  string   `json:"kind"`
	Text  string   `json:"text"`
	Plain string   `json:"plain"`
	Exp   any      `json:"exp"`
	Got   any      `json:"got"`
	Prior []string `json:"prior"`
	Cfg   any      `json:"cfg"`
	Faces []int64  `json:"faces"`
	What  string   `json:"what"`
}

func newLangVM(div0 bool, mode int) *ds.Context {
	vm := newSeededVM(12345)
	vm.Config.EnableDiceWoD, vm.Config.EnableDiceCoC, vm.Config.EnableDiceFate, vm.Config.EnableDiceDoubleCross = false, false, false, false
	vm.Config.IgnoreDiv0 = div0
	setMode(vm, mode)
	vm.Config.OpCountLimit = 200000
	return vm
}

// runOne executes text on vm under recover
func runOne(vm *ds.Context, text string) (err error, panicked any) {
	defer func() {
		if r := recover(); r != nil {
			panicked = r
		}
	}()
	err = vm.Run(text)
	return
}

func execCase(c *oracleCase, r *rand.Rand, w *ndWriter, stats map[string]int) {
	vm := newLangVM(c.Cfg.Div0, c.Cfg.Mode)
	resetRolls(c.Faces, c.Cfg.Mode == 0)
	var prior []string
	for ri, run := range c.Runs {
		if run.Sig == "ood" {
			stats["ood"]++
			return
		}
		j := &joiner{r: r}
		text := j.join(run.Toks)
		plain := (&joiner{plain: true}).join(run.Toks)
		err, pan := runOne(vm, text)
		stats["runs"]++
		mm := func(kind, what string, exp, got any) {
			w.Write(langMismatch{Id: c.Id, Run: ri + 1, Kind: kind, Text: text, Plain: plain, Exp: exp, Got: got, Prior: prior,
				Cfg: c.Cfg, Faces: c.Faces, What: what})
			stats["mismatch"]++
		}
		if pan != nil {
			mm("panic", fmt.Sprint(pan), run.Sig, "panic")
			return
		}
		if err == nil && vm.RestInput != "" {
			mm("rest", "the program was not consumed entirely: rest "+fmt.Sprintf("%q", vm.RestInput), "", vm.RestInput)
			return
		}
		if forcedShort {
			stats["short"]++
			return
		}
		if run.Sig == "err" {
			if err == nil {
				mm("error-expected", "the semantics prescribe an error, the VM returned "+vm.Ret.ToRepr(), "err", project(vm.Ret, 0))
				return
			}
			stats["err_ok"]++
		} else {
			if err != nil {
				mm("error-unexpected", "the VM returned an error: "+err.Error(), run.V, "err")
				return
			}
			got := project(vm.Ret, 0)
			if !sameValue(run.V, got) {
				mm("value", "value differs", run.V, got)
				return
			}
			stats["val_ok"]++
		}
		// variables after the run
		exp := map[string]map[string]any{}
		for _, v := range run.Vars {
			exp[v.N] = v.V
		}
		gotVars := map[string]J{}
		vm.Attrs.Range(func(k string, v *ds.VMValue) bool {
			gotVars[k] = project(v, 0)
			return true
		})
		var names []string
		for n := range exp {
			names = append(names, n)
		}
		for n := range gotVars {
			if _, ok := exp[n]; !ok {
				names = append(names, n)
			}
		}
		sort.Strings(names)
		for _, n := range names {
			e, eok := exp[n]
			g, gok := gotVars[n]
			if eok && !gok {
				if e["t"] == "null" {
					continue
				}
				mm("vars", "variable "+n+" missing after the run", e, nil)
				return
			}
			if !eok && gok {
				if g["t"] == "null" {
					continue
				}
				mm("vars", "unexpected variable "+n, nil, g)
				return
			}
			if !sameValue(e, g) {
				mm("vars", "variable "+n+" differs", e, g)
				return
			}
		}
		prior = append(prior, text)
	}
	stats["histories_ok"]++
}

func init() {
	subcmds["lang-exec"] = func(args []string) int {
		fs := newFlags("lang-exec")
		in := fs.String("in", "", "oracle output prefix (files <prefix>.<n>)")
		out := fs.String("out", "", "mismatch ndjson")
		fs.Parse(args)
		installRollHook()
		r := rand.New(rand.NewSource(envSeed()))
		w := newNDWriter(*out)
		defer w.Close()
		stats := map[string]int{}
		for n := 1; ; n++ {
			f := fmt.Sprintf("%s.%d", *in, n)
			if _, err := os.Stat(f); err != nil {
				break
			}
			readND(f, func(line []byte) {
				var c oracleCase
				if err := json.Unmarshal(line, &c); err != nil {
					fatal("bad oracle case: %v", err)
				}
				stats["histories"]++
				execCase(&c, r, w, stats)
			})
		}
		emitSummary(stats)
		return 0
	}
}
