package main

import (
	"fmt"
	"os"
	"runtime/pprof"
)

type subcmd func(args []string) int

var subcmds = map[string]subcmd{}

func main() {
	if len(os.Args) < 2 {
		fmt.Fprintln(os.Stderr, "usage: vh <subcommand> [args]")
		os.Exit(2)
	}
	f, ok := subcmds[os.Args[1]]
	if !ok {
		fmt.Fprintln(os.Stderr, "unknown subcommand", os.Args[1])
		os.Exit(2)
	}
	if pf := os.Getenv("VERIF_CPUPROFILE"); pf != "" {
		if fh, err := os.Create(pf); err == nil {
			pprof.StartCPUProfile(fh)
			rc := f(os.Args[2:])
			pprof.StopCPUProfile()
			fh.Close()
			os.Exit(rc)
		}
	}
	os.Exit(f(os.Args[2:]))
}
