package main

import (
	"bufio"
	"encoding/json"
	"fmt"
	"os"
	"os/exec"
	"runtime"
	"strings"
	"sync"
	"time"

	ds "github.com/sealdice/dicescript"
	xrand "golang.org/x/exp/rand"
)

// C07: budgets and capacity limits fail closed.

type c07Case struct {
	ID         int    `json:"id"`
	Family     string `json:"family"`
	Prog       string `json:"prog"`
	Limit      int64  `json:"limit"`      // OpCountLimit (0 = none)
	ParseLimit uint64 `json:"parseLimit"` // ParseExprLimit (0 = none)
	Mode       int    `json:"mode"`       // -1 min, 0 normal, 1 max
	HasExpect  bool   `json:"hasExpect"`
	Expect     string `json:"expect"`   // value of the FULL program (ToString), when known
	Capacity   bool   `json:"capacity"` // a built-in capacity is exceeded: an error is required
	Cap        int64  `json:"cap"`      // the program returns the length of an array built in one operation: at most this, or an error
}

type c07Obs struct {
	c07Case
	Ev         string `json:"ev"`
	TimedOut   bool   `json:"timedOut"`
	Killed     bool   `json:"killed"` // memory ceiling
	Crashed    bool   `json:"crashed"`
	Panic      bool   `json:"panic"`
	PanicText  string `json:"panicText"`
	Err        bool   `json:"err"`
	ErrText    string `json:"errtext"`
	Ret        string `json:"ret"`
	RetInt     int64  `json:"retInt"`
	Rest       string `json:"rest"`
	Ops        int64  `json:"ops"`
	Dispatches int64  `json:"dispatches"`
	Rolls      int64  `json:"rolls"`
	Monotone   bool   `json:"monotone"`
	MaxExcess  int64  `json:"maxExcess"`  // max over dispatches of work - 2*ops
	MaxExcess1 int64  `json:"maxExcess1"` // max over dispatches of work - ops (exact accounting: every instruction and every die is charged)
	Millis     int64  `json:"millis"`
	ProgLen    int    `json:"progLen"`
}

func c07Cases(thorough bool) []c07Case {
	var cs []c07Case
	add := func(fam, prog string, hasExp bool, exp string, capacity bool) {
		for _, lim := range []int64{300, 30000} {
			for _, mode := range []int{0, 1, -1} {
				if mode == -1 && !thorough && len(cs)%3 != 0 {
					continue
				}
				// the parse budget is the recommended one (types.go: "建议值1000万")
				cs = append(cs, c07Case{Family: fam, Prog: prog, Limit: lim, ParseLimit: 10000000, Mode: mode, HasExpect: hasExp, Expect: exp, Capacity: capacity})
			}
		}
	}
	// unbounded work
	for _, p := range []string{"while 1 { }", "i = 0; while 1 { i = i + 1 }", "while true { 1d6 }", "i=0; while i < 100000000 { i = i + 1 }; i",
		"func f(n) { f(n+1) }; f(0)", "func f(n) { g(n) }; func g(n) { f(n) }; f(1)", "&a = a + 1; a", "&a = b; &b = a; a", "func f(n) { f(n) + f(n) }; f(1)",
		"func f() { 25000d6 }; while 1 { f() }", "&c = 25000d6; while 1 { c }", "func f() { 250d6 }; while 1 { f() }", "func f() { i = 0; while i < 2000 { i = i + 1 } }; while 1 { f() }",
		"func f(n) { if n > 0 { f(n-1) }; 20000d2 }; while 1 { f(3) }", "func g() { 9000d2 }; func f() { g() + g() }; while 1 { f() }",
		"x = [0]; while 1 { x.push(1) }", "s = ''; while 1 { s = s + 'ab' }", "`{% while 1 { 1 } %}`", "func f() { while 1 { 2d6 } }; f()", "[1,2,3].map(func(x) { while 1 {} })"} {
		add("loop", p, false, "", false)
	}
	// huge counts
	for _, p := range []string{"999999999d6", "100000000d100", "(10**9)d6", "20000d20000k1", "99999999d6kh3", "1000000d6q5", "50000000d10dl1", "(2**40)d6", "999999999d1",
		"b999999999", "p999999999", "b(10**9)", "p(2**40)", "999999999d6 + 999999999d6", "x = 88888888; (x)d(x)", "`{30000000d6}`", "func f() { 70000000d6 }; f()", "&cv = 60000000d6; cv"} {
		add("count", p, false, "", false)
	}
	// counts at the edge of the integer range (the counter must not wrap)
	for _, p := range []string{"9223372036854775807d6", "b9223372036854775807", "p9223372036854775806", "(2**62)d6 + (2**62)d6 + (2**62)d6", "9223372036854775807d1k1", "x = 9223372036854775807; (x)d(x)",
		"func f() { 9223372036854775807d6 }; f()", "`{9223372036854775800d6}`"} {
		add("overflow", p, false, "", false)
	}
	// computed values that load computed values: 2^k evaluations from k definitions
	for _, k := range []int{10, 16, 20, 26} {
		var sb strings.Builder
		sb.WriteString("&v0 = 1d6; ")
		for i := 1; i <= k; i++ {
			sb.WriteString(fmt.Sprintf("&v%d = v%d + v%d; ", i, i-1, i-1))
		}
		sb.WriteString(fmt.Sprintf("v%d", k))
		add("computed-chain", sb.String(), false, "", false)
		add("computed-chain", "func f() { "+sb.String()+" }; f()", false, "", false)
	}
	// exploding pools: rounds continue while dice reach the add line
	for _, p := range []string{"1a2m100000000", "10a2", "20000a2m100000", "5a2m99999999k3", "100a2q1m50000000", "1c2m100000000", "10c2m1000000", "20000c2m99999999", "3c2",
		"10a10", "10a10m10", "5c10", "5c8m10", "20000a9", "20000c9", "`{7a2m100000000}`", "func f() { 3a2m100000000 }; f()", "&cv = 4c2m100000000; cv", "2a2m100000000 + 2a2m100000000"} {
		add("explode", p, false, "", false)
	}
	// doubling strings
	for _, p := range []string{"s = 'ab'; i = 0; while i < 40 { s = s + s; i = i + 1 }; 1", "s = 'abcdefgh'; i = 0; while i < 60 { s = `{s}{s}`; i = i + 1 }; 1",
		"s = 'a'; i = 0; while i < 30 { s = s * 2; i = i + 1 }; 1", "'x' * 1000000000", "s = 'ab' * 500; t = s * 500; u = t * 500; 1"} {
		add("grow-string", p, false, "", false)
	}
	// doubling containers
	for _, p := range []string{"a = [1,2]; i = 0; while i < 40 { a = a + a; i = i + 1 }; 1", "a = [1]; i = 0; while i < 64 { a = [a, a]; i = i + 1 }; toStr(a); 1", "[0] * 1000000000", "[1..1000000000]",
		"a = [0]*500; b = a + a; 1", "a = [0]*256; a = a + a; a = a + a; 1", "[[0]*500]*500", "a=[0]*500; [a,a,a,a,a,a,a,a]*60", "d = {}; i = 0; while 1 { d[i] = i; i = i + 1 }",
		"a = [1]; i=0; while i < 600 { a.push(i); i = i + 1 }; a.len()", "a = [0]*500; i = 0; while 1 { a = [a, a, a]; i = i + 1 }"} {
		add("grow-container", p, false, "", false)
	}
	// walks over a big value (printing, template holes, comparison, the process text of computed values) cost one operation whatever
	// the size of the value: 512 arrays of 512 elements are built within the budget and the limits, then walked in a loop
	// (loops are nested: a loop body leaves its statement values on the operand stack until the loop ends)
	build := "vv=[]; i=0; while i<32 { j=0; while j<16 { vv.push([0]*512); j=j+1 }; i=i+1 }; "
	for _, p := range []string{build + "while 1 { j=0; while j<100 { toStr(vv); j=j+1 } }", build + "while 1 { j=0; while j<100 { `{vv}`; j=j+1 } }"} {
		add("uncharged-walk", p, false, "", false)
	}
	// errors inside nested evaluations: the count of the work done before the error reaches the caller
	for _, p := range []string{"func g() { 20000d6; 20000d6 }; g()", "func g() { 200d6; 1/0 }; g()", "&c = 20000d6 + 20000d6; c", "&c = 200d6 + [1][5]; c", "func g() { 150d6; h() }; func h() { 150d6; null + 1 }; g()",
		"`{% 20000d6; 20000d6 %}`", "func g() { 100d6; zz9() }; g()", "&c = 120d6 + d; d = 'x'; c"} {
		add("nested-error", p, false, "", false)
	}
	// growth through slice assignment (one operation may not build more than the length limit)
	for _, p := range []string{"a=[1]; i=0; while i<40 { a[0:0]=a; i=i+1 }; 1", "a=[1]; i=0; while 1 { a[0:0]=a; i=i+1 }", "a=[1,2]; i=0; while i<60 { a[1:1]=a; a[0:0]=a; i=i+1 }; 1",
		"a=[0]*500; i=0; while i<30 { a[0:1]=a; i=i+1 }; 1"} {
		add("grow-container", p, false, "", false)
	}
	// values that contain themselves or share substructure: every walk over a value (attribute lookup along __proto__,
	// comparison, printing) must be bounded by the number of OBJECTS, not by the number of paths through them
	for _, p := range []string{"a = {}; a.__proto__ = a; a.x", "a = {}; w = {}; a.__proto__ = w; w.__proto__ = a; a.x", "a = {'k':1}; a.__proto__ = a; a.len()", "a = {}; a.__proto__ = a; while 1 { a.x }",
		"a=[1]; a.push(a); w=[1]; w.push(w); a==w", "a={}; a.k=a; w={}; w.k=w; a==w", "a=[1]; a.push(a); w=[1]; w.push(w); a!=w", "a=[1]; a.push(a); w=[1]; w.push(w); [a]==[w]",
		"a=[1]; w=[1]; i=0; while i<64 { a=[a,a]; w=[w,w]; i=i+1 }; a==w", "a={'k':1}; w={'k':1}; i=0; while i<64 { a={'x':a,'y':a}; w={'x':w,'y':w}; i=i+1 }; a==w",
		"a=[1]; i=0; while i<64 { a=[a,a]; i=i+1 }; repr(a); 1", "a=[1]; i=0; while i<64 { a=[a,a]; i=i+1 }; `{a}`; 1", "a=[1]; i=0; while i<64 { a=[a,a]; i=i+1 }; a.sum(); 1",
		"pr = {}; i = 0; while i < 40 { j = 0; while j < 40 { q = {}; q.__proto__ = pr; pr = q; j = j + 1 }; i = i + 1 }; while 1 { j = 0; while j < 100 { pr.zz; j = j + 1 } }", "a=[1]; a.push(a); a+a; a*3; a.shuffle(); a.rand(); toStr(a); 1"} {
		add("cyclic", p, false, "", false)
	}
	// container lengths: repetition, concatenation and ranges build at most 512 elements in one operation, whatever the operands
	for _, p := range []string{"([1,2]*256).len()", "([1,2]*257).len()", "([1,2]*300).len()", "([1,2,3,4]*512).len()", "(171*[1,2,3]).len()", "(300*[1,2]).len()", "([0]*512).len()", "([0]*513).len()",
		"([1,2,3,4,5,6,7]*74).len()", "a=[0]*300; (a+a).len()", "a=[0]*256; b=a+a; (b+[1]).len()", "a=[0]*512; (a+[]).len()", "a=[0]*511; (a+[1,2]).len()", "[1..512].len()", "[1..513].len()", "[0..512].len()",
		"[513..1].len()", "[-256..256].len()", "a=[1,2]; i=0; while i<12 { a=a*2; i=i+1 }; a.len()", "a=[1,2,3]; i=0; while i<12 { a=2*a; i=i+1 }; a.len()", "a=[1,2]; i=0; while i<12 { a=a+a; i=i+1 }; a.len()",
		"a=[0]*300; a[0:0]=a; a.len()", "a=[0]*512; a[0:0]=[1]; a.len()", "a=[0]*256; a[0:0]=a; a.len()", "a=[0]*512; a[0:2]=[1]; a.len()", "a=[0]*400; a[10:20]=a; a.len()", "a=[0]*510; a[5:5]=[1,2,3]; a.len()",
		"x=[1,2,3]; n=200; (x*n).len()", "func rp(v, n) { v * n }; rp([1,2], 400).len()", "`{([1,2]*400).len()}`", "&cv = [1,2,3]*250; cv.len()"} {
		before := len(cs)
		add("container-cap", p, false, "", false)
		for i := before; i < len(cs); i++ {
			cs[i].Cap = 512
		}
	}
	// capacities: long sums around the code-buffer size, nesting around the block/template limits, operands around the stack size
	for _, k := range []int{100, 2000, 4090, 4094, 4095, 4096, 4097, 4100, 5000, 8192, 9000, 20000} {
		if !thorough && (k == 4094 || k == 4100 || k == 9000) {
			continue
		}
		add("code-size", strings.TrimSuffix(strings.Repeat("1+", k), "+"), true, fmt.Sprint(k), false)
		add("code-size", strings.TrimSuffix(strings.Repeat("x=1;", k), ";")+";7", true, "7", false)
		if k <= 9000 {
			// the same sums as the body of a function and of a computed value (their code is a buffer of its own)
			sum := strings.TrimSuffix(strings.Repeat("1+", k), "+")
			add("code-size", "func fsum() { "+sum+" }; fsum()", true, fmt.Sprint(k), false)
			add("code-size", "&csum = "+sum+"; csum", true, fmt.Sprint(k), false)
			add("code-size", "func fsum() { "+sum+" }; 7", true, "7", false)
		}
	}
	for _, d := range []int{5, 18, 19, 20, 21, 22, 23, 30, 60} {
		add("block-nesting", "x = 0; "+strings.Repeat("if 1 { ", d)+"x = 7"+strings.Repeat(" }", d)+"; x", true, "7", false)
		add("block-nesting", "x = 0; i = 0; "+strings.Repeat("while i < 1 { ", d)+"x = 7; i = 1"+strings.Repeat(" }", d)+"; x", true, "7", false)
		add("template-nesting", strings.Repeat("`a{", d)+"1"+strings.Repeat("}`", d), true, strings.Repeat("a", d)+"1", false)
		add("template-nesting", strings.Repeat("`{% ", d)+"1"+strings.Repeat(" %}`", d), false, "", false)
		add("paren-nesting", strings.Repeat("(", d*50)+"1"+strings.Repeat(")", d*50), true, "1", false)
		add("array-nesting", strings.Repeat("[", d*10)+"1"+strings.Repeat("]", d*10)+".len()", true, "1", false)
	}
	for _, n := range []int{10, 500, 512, 513, 998, 999, 1000, 1001, 1002, 1500, 3000} {
		el := strings.TrimSuffix(strings.Repeat("1,", n), ",")
		add("operand-stack", "["+el+"].len()", true, fmt.Sprint(n), false)
		add("operand-stack", "func f(...a) { 1 }; 1", false, "", false)
		add("operand-stack", strings.Repeat("(1+", n)+"1"+strings.Repeat(")", n), true, fmt.Sprint(n+1), false)
	}
	// the parse budget
	for _, k := range []int{10, 200, 3000} {
		long := strings.TrimSuffix(strings.Repeat("(1+2)*3-", k), "-")
		for _, pl := range []uint64{50, 2000, 100000} {
			cs = append(cs, c07Case{Family: "parse-budget", Prog: long, ParseLimit: pl, Limit: 30000})
			cs = append(cs, c07Case{Family: "parse-budget", Prog: "x = " + long + "; `{x}`; [x, x]", ParseLimit: pl, Limit: 30000})
		}
	}
	for i := range cs {
		cs[i].ID = i + 1
	}
	return cs
}

// c07RunOne is executed in a child process: one case, with meters and a watchdog
func c07RunOne(c c07Case) c07Obs {
	o := c07Obs{c07Case: c, Ev: "c07", Monotone: true, ProgLen: len(c.Prog)}
	if len(o.Prog) > 300 {
		o.Prog = o.Prog[:140] + " ... " + o.Prog[len(o.Prog)-140:]
	}
	src := &xrand.PCGSource{}
	src.Seed(uint64(envSeed()) + uint64(c.ID))
	sb, _ := src.MarshalBinary()
	vm := &ds.Context{Seed: sb}
	vm.Init()
	vm.Config.EnableDiceWoD, vm.Config.EnableDiceCoC, vm.Config.EnableDiceFate, vm.Config.EnableDiceDoubleCross = true, true, true, true
	vm.Config.OpCountLimit = ds.IntType(c.Limit)
	vm.Config.ParseExprLimit = c.ParseLimit
	setMode(vm, c.Mode)
	var mu sync.Mutex
	var lastOps int64
	ds.VerifStepHook = func(info *ds.VerifStepInfo) {
		mu.Lock()
		o.Dispatches++
		ops := int64(info.NumOpCount)
		if ops < lastOps {
			o.Monotone = false
		}
		lastOps = ops
		o.Ops = ops
		if ex := o.Dispatches + o.Rolls - ops; ex > o.MaxExcess1 {
			o.MaxExcess1 = ex
		}
		if ex := o.Dispatches + o.Rolls - 2*ops; ex > o.MaxExcess {
			o.MaxExcess = ex
		}
		mu.Unlock()
	}
	ds.VerifRollHook = func(s *xrand.PCGSource, sides ds.IntType, mode int, orig func() ds.IntType) (ds.IntType, bool) {
		mu.Lock()
		o.Rolls++
		mu.Unlock()
		return orig(), true
	}
	t0 := time.Now()
	done := make(chan struct{})
	cpu0 := cpuMillis()
	// watchdog: time and memory ceilings; on abort the meters read so far are reported
	go func() {
		tick := time.NewTicker(50 * time.Millisecond)
		defer tick.Stop()
		for {
			select {
			case <-done:
				return
			case <-tick.C:
				var ms runtime.MemStats
				runtime.ReadMemStats(&ms)
				// 60 s of processor time (a case runs in a process of its own, on two threads), or ten minutes by the clock
				over := cpuMillis()-cpu0 > 60000 || time.Since(t0) > 600*time.Second
				if over || ms.HeapAlloc > 1500<<20 {
					mu.Lock()
					o.TimedOut = over
					o.Killed = !o.TimedOut
					o.Millis = time.Since(t0).Milliseconds()
					b, _ := json.Marshal(o)
					fmt.Println(string(b))
					os.Exit(0)
				}
			}
		}
	}()
	func() {
		defer func() {
			if r := recover(); r != nil {
				o.Panic = true
				o.PanicText = fmt.Sprint(r)
				if len(o.PanicText) > 200 {
					o.PanicText = o.PanicText[:200]
				}
			}
		}()
		err := vm.Run(c.Prog)
		if err != nil {
			o.Err = true
			o.ErrText = err.Error()
			if len(o.ErrText) > 200 {
				o.ErrText = o.ErrText[:200]
			}
			return
		}
		o.Ret = vm.Ret.ToString()
		if n, ok := vm.Ret.ReadInt(); ok {
			o.RetInt = int64(n)
		}
		if len(o.Ret) > 200 {
			o.Ret = o.Ret[:200]
		}
		o.Rest = vm.RestInput
		if len(o.Rest) > 60 {
			o.Rest = o.Rest[:60]
		}
	}()
	close(done)
	mu.Lock()
	defer mu.Unlock()
	if int64(vm.NumOpCount) > o.Ops {
		o.Ops = int64(vm.NumOpCount)
	}
	o.Millis = time.Since(t0).Milliseconds()
	return o
}

// c07Sweep: ordinary programs under tiny budgets, in process: a budget may stop a run with an error, it never changes a result
func c07Sweep(in string, out string, thorough bool) int {
	w := newNDWriter(out)
	defer w.Close()
	var srcs []string
	readND(in, func(line []byte) {
		var rec struct {
			Src string `json:"src"`
		}
		if json.Unmarshal(line, &rec) == nil {
			srcs = append(srcs, rec.Src)
		}
	})
	limits := []int64{1, 2, 3, 5, 8, 13, 21, 34, 55, 89, 144, 400}
	n := 0
	for si, src := range srcs {
		ref := c07InProc(c07Case{ID: si, Family: "sweep", Prog: src, Limit: 200000, ParseLimit: 10000000})
		if ref.Panic || ref.Err && strings.Contains(ref.ErrText, "算力") {
			continue // crashes are C01's; programs that do not end within the reference budget have no reference value
		}
		for li, lim := range limits {
			if !thorough && (si+li)%3 != 0 {
				continue
			}
			c := c07Case{ID: si, Family: "sweep", Prog: src, Limit: lim, ParseLimit: 10000000}
			// under the budget the run either stops with the budget error or is the reference run
			if !ref.Err {
				c.HasExpect, c.Expect = true, ref.Ret
			}
			o := c07InProc(c)
			if o.Err && !strings.Contains(o.ErrText, "算力") && ref.Err {
				o.HasExpect = false
			}
			if !o.Err && ref.Err {
				// the reference run fails (with an ordinary error): so must every run that is not stopped by the budget
				o.HasExpect, o.Expect, o.Ret = true, "error: "+ref.ErrText, "value: "+o.Ret
			}
			o.Rest = "" // rest text is compared through the value only
			if c.HasExpect && ref.Rest != "" {
				o.HasExpect = false
			}
			w.Write(o)
			n++
		}
	}
	emitSummary(map[string]any{"sources": len(srcs), "runs": n})
	return 0
}

// c07InProc runs one case in this process (only for programs whose work the budget bounds)
func c07InProc(c c07Case) c07Obs {
	o := c07Obs{c07Case: c, Ev: "c07", Monotone: true, ProgLen: len(c.Prog)}
	src := &xrand.PCGSource{}
	src.Seed(uint64(envSeed()) + uint64(c.ID))
	sb, _ := src.MarshalBinary()
	vm := &ds.Context{Seed: sb}
	vm.Init()
	vm.Config.EnableDiceWoD, vm.Config.EnableDiceCoC, vm.Config.EnableDiceFate, vm.Config.EnableDiceDoubleCross = true, true, true, true
	vm.Config.OpCountLimit = ds.IntType(c.Limit)
	vm.Config.ParseExprLimit = c.ParseLimit
	var lastOps int64
	ds.VerifStepHook = func(info *ds.VerifStepInfo) {
		o.Dispatches++
		ops := int64(info.NumOpCount)
		if ops < lastOps {
			o.Monotone = false
		}
		lastOps = ops
		o.Ops = ops
		if ex := o.Dispatches + o.Rolls - ops; ex > o.MaxExcess1 {
			o.MaxExcess1 = ex
		}
		if ex := o.Dispatches + o.Rolls - 2*ops; ex > o.MaxExcess {
			o.MaxExcess = ex
		}
	}
	ds.VerifRollHook = func(s *xrand.PCGSource, sides ds.IntType, mode int, orig func() ds.IntType) (ds.IntType, bool) {
		o.Rolls++
		if o.Rolls > 3000000 {
			panic("roll cap of the harness")
		}
		return orig(), true
	}
	defer func() { ds.VerifStepHook, ds.VerifRollHook = nil, nil }()
	func() {
		defer func() {
			if r := recover(); r != nil {
				o.Panic, o.PanicText = true, fmt.Sprint(r)
				if len(o.PanicText) > 200 {
					o.PanicText = o.PanicText[:200]
				}
			}
		}()
		if err := vm.Run(c.Prog); err != nil {
			o.Err, o.ErrText = true, err.Error()
			if len(o.ErrText) > 200 {
				o.ErrText = o.ErrText[:200]
			}
			return
		}
		o.Ret, o.Rest = canon(project(vm.Ret, 0)), vm.RestInput // (canonical: dict keys sorted)
	}()
	if int64(vm.NumOpCount) > o.Ops {
		o.Ops = int64(vm.NumOpCount)
	}
	if len(o.Prog) > 300 {
		o.Prog = o.Prog[:140] + " ... " + o.Prog[len(o.Prog)-140:]
	}
	if len(o.Ret) > 200 {
		o.Ret = o.Ret[:200]
	}
	if len(o.Expect) > 200 {
		o.Expect = o.Expect[:200]
	}
	return o
}

func init() {
	subcmds["c07-sweep"] = func(args []string) int {
		fs := newFlags("c07-sweep")
		in := fs.String("in", "", "inputs ndjson {src}")
		out := fs.String("out", "", "events ndjson")
		thorough := fs.Bool("thorough", false, "every budget for every program")
		fs.Parse(args)
		return c07Sweep(*in, *out, *thorough)
	}
	subcmds["c07-one"] = func(args []string) int {
		var c c07Case
		if err := json.NewDecoder(bufio.NewReaderSize(os.Stdin, 1<<20)).Decode(&c); err != nil {
			fatal("bad case: %v", err)
		}
		o := c07RunOne(c)
		b, _ := json.Marshal(o)
		fmt.Println(string(b))
		return 0
	}
	subcmds["c07-exec"] = func(args []string) int {
		fs := newFlags("c07-exec")
		out := fs.String("out", "", "events ndjson")
		thorough := fs.Bool("thorough", false, "more cases")
		workers := fs.Int("workers", 8, "parallel child processes")
		fs.Parse(args)
		cases := c07Cases(*thorough)
		self, _ := os.Executable()
		res := make([]c07Obs, len(cases))
		var wg sync.WaitGroup
		sem := make(chan struct{}, *workers)
		for i := range cases {
			wg.Add(1)
			sem <- struct{}{}
			go func(i int) {
				defer wg.Done()
				defer func() { <-sem }()
				c := cases[i]
				in, _ := json.Marshal(c)
				cmd := exec.Command(self, "c07-one")
				cmd.Stdin = strings.NewReader(string(in))
				cmd.Env = append(os.Environ(), "GOMEMLIMIT=1800MiB", "GOMAXPROCS=2")
				t0 := time.Now()
				outb, err := cmd.Output()
				var o c07Obs
				lines := strings.Split(strings.TrimSpace(string(outb)), "\n")
				if json.Unmarshal([]byte(lines[len(lines)-1]), &o) != nil {
					// the child died without a report: a fatal runtime error (stack exhaustion, out of memory)
					o = c07Obs{c07Case: c, Ev: "c07", Crashed: true, Monotone: true, Millis: time.Since(t0).Milliseconds(), ProgLen: len(c.Prog)}
					if len(o.Prog) > 300 {
						o.Prog = o.Prog[:140] + " ... " + o.Prog[len(o.Prog)-140:]
					}
					if err != nil {
						o.PanicText = err.Error()
						if ee, ok := err.(*exec.ExitError); ok {
							st := string(ee.Stderr)
							if len(st) > 300 {
								st = st[:300]
							}
							o.PanicText += ": " + st
						}
					}
				}
				res[i] = o
			}(i)
		}
		wg.Wait()
		w := newNDWriter(*out)
		defer w.Close()
		for _, o := range res {
			w.Write(o)
		}
		emitSummary(map[string]any{"cases": len(cases)})
		return 0
	}
}
