package main

import (
	"bytes"
	"encoding/json"
	"fmt"
	"math/rand"
	"os"
	"sort"
	"strings"

	ds "github.com/sealdice/dicescript"
)

// C03: Matched/RestInput contract.  For input = <program><sep><tail that breaks off> the harness performs, on two
// identical fresh VMs (same seed, same prior programs): Run(input) and Run(Matched of the first run), and logs both
// outcomes for Trace_Host.  When the program comes from the Lang oracle, its prescribed value rides along.

type hostOut struct {
	Err     bool   `json:"err"`
	Panic   bool   `json:"panic"`
	ErrText string `json:"errtext"`
	Matched string `json:"matched"`
	Rest    string `json:"rest"`
	Ret     string `json:"ret"` // canonical JSON of the projected value
	Detail  string `json:"detail"`
	Vars    string `json:"vars"` // canonical JSON of the projected variables
	Seed    string `json:"seed"` // generator state after the run
	Rolls   int    `json:"rolls"`
	St      string `json:"st"` // callback log
}

func canon(v any) string {
	b, _ := json.Marshal(v)
	return string(b)
}

func varsOf(vm *ds.Context) string {
	m := map[string]any{}
	vm.Attrs.Range(func(k string, v *ds.VMValue) bool {
		p := project(v, 0)
		if p["t"] == "null" {
			return true
		}
		m[k] = p
		return true
	})
	keys := make([]string, 0, len(m))
	for k := range m {
		keys = append(keys, k)
	}
	sort.Strings(keys)
	var sb strings.Builder
	for _, k := range keys {
		sb.WriteString(k + "=" + canon(m[k]) + ";")
	}
	return sb.String()
}

// observeRun: keepFaces leaves the forced-face queue where the prior programs left it (the oracle threads it through a history)
func observeRun(vm *ds.Context, input string, faces []int64, force bool, keepFaces bool) (o hostOut) {
	var stLog []string
	vm.Config.CallbackSt = func(_type string, name string, val *ds.VMValue, extra *ds.VMValue, op string, detail string) {
		stLog = append(stLog, fmt.Sprintf("%s|%s|%s|%v|%s|%s", _type, name, canon(project(val, 0)), extra != nil, op, detail))
	}
	if keepFaces {
		rollLog = rollLog[:0]
	} else {
		resetRolls(faces, force)
	}
	defer func() {
		if r := recover(); r != nil {
			o.Panic = true
			o.ErrText = fmt.Sprint(r)
		}
	}()
	err := vm.Run(input)
	o.Rolls = len(rollLog)
	o.St = strings.Join(stLog, "\n")
	sd, _ := vm.GetCurSeed()
	o.Seed = fmt.Sprintf("%x", sd)
	if err != nil {
		o.Err = true
		o.ErrText = err.Error()
		o.Vars = varsOf(vm)
		return
	}
	o.Matched, o.Rest = vm.Matched, vm.RestInput
	o.Ret = canon(project(vm.Ret, 0))
	o.Vars = varsOf(vm)
	func() {
		defer func() {
			if r := recover(); r != nil {
				o.Detail = "PANIC:" + fmt.Sprint(r)
			}
		}()
		o.Detail = canonDetail(vm.GetDetailText())
	}()
	return
}

// canonDetail: blanks and line breaks inside the text are not semantic (a span may or may not include the blank that follows it).
// (Texts that render a dict used to be reported as "UNORDERED": dicts printed in the iteration order of a Go map.  Since the
// repair 1151525 they print in key order and are compared like every other text.)
func canonDetail(s string) string {
	return strings.Join(strings.Fields(s), "")
}

var c03Breakers = []string{"=", "= (1", "1", "敏捷70", "{'a':1", "{'a':", "{'a'", "g9(1,", "g9(", "[1,2", "[1..", "[", "x[", "x[1:", "`a{", "`a{x", "`a{% if 1 {", "if 1 {", "if 1 { 2 } else {",
	"while 1 {", "while x { break", "func g9(n) {", "func g9(", "1 ? 2 :", "1 ? 2, 3 ?", "x ||", "x &&", "x ??", "(1+", "(", "2d", "&y =", "&y.x =", "this.", "x.y =", "x[0] =",
	"x = ", "1 +", "1 *", "'abc", "\"abc", "\x1eabc", "return (", "// #EnableDice wod", "x.len(", "[1,2]kh(", "1 <", "1 ==", "x = y =", "{1:2, 3:", "[[1], [2", "reason text", "因为 某事",
	"1 ? 2 : (", "x[1][", "{'a': [1,", "`{%", "`{", "f(`", "- ", "+ (", "~", "@@", "1 2 3", ")", "]", "}", "else { 1 }", ", 2",
	// continuation tails: an operator (or a dice modifier) followed by an operand that breaks off
	"+ 'abc", "+ \"abc", "- `x{3", "* {'a':1", "+ {'a':", "|| [1,", "?? (2", "== 'x", "+ (2", "* (2+", "&& `a{", "< {'k'", "+ \x1eab", "? 1 : 'z", "? 'q",
	"k(2", "kh(3 reason", "q(1+", "min(2", "max(x", "dl(n", "(2", "[1", ".x(", "d(2", "d(x",
	// a complete operand followed at once by an identifier character: a count or operand that is compiled and then not taken
	"(2d1)d1", "(3)x", "(1d2)k", "(2)a", "2x", "(nn)d"}

type flagCfg struct{ wod, coc, fate, dc, nostmt bool }

// c03Endings: every kind of value a program can end in, in every context that emits code after it
func c03Endings() []string {
	prelude := "arr = [[7,8],[9,10]]; dd = {'a': [1,2], 'b': {'c': 3}}; func ff(n) { [n, n+1] }; func A(n) { n + 100 }; ss = 'abc'; nn = 4; "
	ends := []string{"5", "nn", "arr[0]", "arr[0][1]", "arr[1:]", "ff(2)", "ff(2)[0]", "arr.len()", "arr[0].len()", "dd.a", "dd.a[0]", "dd['b'].c", "(nn)", "(arr)[0]", "'xy'", "ss[1]", "`a{nn}`",
		"[1,2]", "[1,2][0]", "{'k': 1}", "{'k': [1]}.k", "2d1", "(2)d1", "b", "p", "b2", "3a10", "a10", "2c5", "f", "-nn", "arr[0] + arr[1]", "nn ? arr[0] : 1", "this", "A(2)", "1+A(2)"}
	ctxs := []string{"%s", "x = %s", "100 + %s", "-%s", "nn ? 1 : %s", "nn && %s", "nn ?? %s", "y = x = %s", "dd.z = %s", "arr[0] = %s", "1 < %s", "&cv = %s", "return %s", "1; return %s"}
	var out []string
	for _, e := range ends {
		for _, c := range ctxs {
			out = append(out, prelude+fmt.Sprintf(c, e))
		}
	}
	return out
}

// c03Boundaries: programs whose consumed text ends in a multi-byte character, one for every possible final byte 0x80..0xBF
// (the split between Matched and RestInput must fall on a character boundary), as an identifier, in a string and in a comment
func c03Boundaries() []string {
	var out []string
	for i := 0; i < 64; i++ {
		ch := string(rune(0x4E00 + i)) // the last byte of its UTF-8 form is 0x80+i
		name := "耐" + ch
		out = append(out, name+" = 3; "+name, "1d1 + "+name, "x = '"+ch+"'", "1; // 注"+ch, "`a{1}"+ch+"`")
	}
	return out
}

func init() {
	subcmds["c03-endings"] = func(args []string) int {
		fs := newFlags("c03-endings")
		out := fs.String("out", "", "inputs ndjson {src}")
		boundaries := fs.Bool("boundaries", false, "the multi-byte boundary family instead")
		fs.Parse(args)
		w := newNDWriter(*out)
		defer w.Close()
		if *boundaries {
			for _, s := range c03Boundaries() {
				w.Write(map[string]any{"src": s})
			}
			emitSummary(map[string]any{"inputs": w.n})
			return 0
		}
		for _, s := range c03Endings() {
			w.Write(map[string]any{"src": s})
		}
		emitSummary(map[string]any{"inputs": w.n})
		return 0
	}
	subcmds["c03-exec"] = func(args []string) int {
		fs := newFlags("c03-exec")
		in := fs.String("in", "", "oracle output prefix")
		out := fs.String("out", "", "events ndjson")
		tailsPer := fs.Int("tails", 4, "tails per program")
		fs.Parse(args)
		installRollHook()
		r := rand.New(rand.NewSource(envSeed()))
		w := newNDWriter(*out)
		defer w.Close()
		stats := map[string]int{}
		seps := []string{";", "; ", ";\n", "\n", " ", "\n\n", ""}
		for n := 1; ; n++ {
			f := fmt.Sprintf("%s.%d", *in, n)
			if _, err := os.Stat(f); err != nil {
				break
			}
			readND(f, func(line []byte) {
				var c oracleCase
				if err := json.Unmarshal(line, &c); err != nil {
					fatal("bad oracle case: %v", err)
				}
				if len(c.Runs) == 0 {
					return
				}
				k := len(c.Runs) - 1
				for i := range c.Runs {
					if c.Runs[i].Sig == "ood" {
						k = i - 1
						break
					}
				}
				if k < 0 {
					return
				}
				run := c.Runs[k]
				j := &joiner{r: r}
				text := j.join(run.Toks)
				prior := []string{}
				for i := 0; i < k; i++ {
					prior = append(prior, (&joiner{r: r}).join(c.Runs[i].Toks))
				}
				fc := flagCfg{r.Intn(2) == 0, r.Intn(2) == 0, r.Intn(2) == 0, r.Intn(2) == 0, false}
				seed := uint64(r.Int63())
				mk := func() *ds.Context {
					vm := newSeededVM(seed)
					vm.Config.EnableDiceWoD, vm.Config.EnableDiceCoC, vm.Config.EnableDiceFate, vm.Config.EnableDiceDoubleCross = fc.wod, fc.coc, fc.fate, fc.dc
					vm.Config.IgnoreDiv0 = c.Cfg.Div0
					setMode(vm, c.Cfg.Mode)
					vm.Config.OpCountLimit = 200000
					resetRolls(c.Faces, c.Cfg.Mode == 0) // the history's faces, from the start, on both VMs
					for _, p := range prior {
						runOne(vm, p)
					}
					return vm
				}
				for t := 0; t < *tailsPer; t++ {
					tail := c03Breakers[r.Intn(len(c03Breakers))]
					sep := seps[r.Intn(len(seps))]
					if t == 0 {
						tail, sep = "", "" // the program alone: must be consumed entirely
					}
					input := text + sep + tail
					o1 := observeRun(mk(), input, c.Faces, c.Cfg.Mode == 0, true)
					ev := map[string]any{"ev": "c03", "id": c.Id, "input": input, "text": text, "sep": sep, "tail": tail, "prior": prior, "a": o1,
						"b": hostOut{}, "hasB": false, "expSig": run.Sig, "strongSep": strings.HasPrefix(sep, ";"), "valOK": true, "consumedProgram": false}
					stats["inputs"]++
					if !o1.Err && !o1.Panic {
						o2 := observeRun(mk(), o1.Matched, c.Faces, c.Cfg.Mode == 0, true)
						ev["b"], ev["hasB"] = o2, true
						// the oracle's value for the program, when the parser consumed exactly the program
						m := strings.TrimRight(o1.Matched, "; \n\t")
						if m == strings.TrimRight(text, "; \n\t") {
							ev["consumedProgram"] = true
							if run.Sig == "ok" {
								var got J
								_ = json.Unmarshal([]byte(o1.Ret), &got)
								gotJ := reproject(got)
								ev["valOK"] = sameValue(run.V, gotJ)
							} else if run.Sig == "err" {
								ev["valOK"] = false // the semantics prescribe an error, the run succeeded
							}
							stats["tied_to_oracle"]++
						}
					} else if !o1.Panic && run.Sig == "ok" && strings.HasPrefix(sep, ";") && t > 0 {
						// a whole-input error is legitimate (syntax error of the tail); nothing to compare
						stats["input_errors"]++
					}
					w.Write(ev)
				}
			})
		}
		emitSummary(stats)
		return 0
	}
}

// reproject turns a decoded projection (map[string]any) back into the J form sameValue expects
func reproject(m map[string]any) J {
	out := J{}
	for k, v := range m {
		switch k {
		case "xs":
			var xs []any
			for _, e := range v.([]any) {
				xs = append(xs, reproject(e.(map[string]any)))
			}
			if xs == nil {
				xs = []any{}
			}
			out[k] = xs
		case "m":
			mm := map[string]any{}
			for kk, e := range v.(map[string]any) {
				mm[kk] = reproject(e.(map[string]any))
			}
			out[k] = mm
		default:
			out[k] = v
		}
	}
	return out
}

var _ = bytes.Equal

func init() {
	// the same experiment for texts without an oracle (repository corpus, generated programs): contract checks only
	subcmds["c03-text"] = func(args []string) int {
		fs := newFlags("c03-text")
		in := fs.String("in", "", "inputs ndjson {src}")
		out := fs.String("out", "", "events ndjson")
		tailsPer := fs.Int("tails", 3, "tails per program")
		allTails := fs.Bool("alltails", false, "every tail, glued on and after a blank (directed endings family)")
		shard := fs.String("shard", "0/1", "i/n: inputs whose index is i modulo n")
		every := fs.Int("every", 1, "take every n-th input of the shard (rotating with the seed)")
		fs.Parse(args)
		var si, sn int
		fmt.Sscanf(*shard, "%d/%d", &si, &sn)
		lineNo := -1
		installRollHook()
		r := rand.New(rand.NewSource(envSeed()))
		w := newNDWriter(*out)
		defer w.Close()
		seps := []string{";", "; ", ";\n", "\n", " ", "\n\n", ""}
		n := 0
		readND(*in, func(line []byte) {
			var rec struct {
				Src string `json:"src"`
			}
			if json.Unmarshal(line, &rec) != nil || len(rec.Src) > 300 {
				return
			}
			lineNo++
			if lineNo%sn != si || (lineNo/sn+int(envSeed()))%*every != 0 {
				return
			}
			fc := flagCfg{r.Intn(2) == 0, r.Intn(2) == 0, r.Intn(2) == 0, r.Intn(2) == 0, r.Intn(6) == 0}
			seed := uint64(r.Int63())
			mode := []int{0, 0, -1, 1}[r.Intn(4)]
			mk := func() *ds.Context {
				vm := newSeededVM(seed)
				vm.Config.EnableDiceWoD, vm.Config.EnableDiceCoC, vm.Config.EnableDiceFate, vm.Config.EnableDiceDoubleCross = fc.wod, fc.coc, fc.fate, fc.dc
				vm.Config.DisableStmts = fc.nostmt
				setMode(vm, mode)
				if mode == 1 {
					vm.Config.EnableDiceWoD, vm.Config.EnableDiceDoubleCross = false, false // exploding pools never end in max mode
				}
				vm.Config.OpCountLimit = 20000
				return vm
			}
			nt := *tailsPer
			if *allTails {
				nt = 1 + 2*len(c03Breakers)
			}
			for t := 0; t < nt; t++ {
				tail := c03Breakers[r.Intn(len(c03Breakers))]
				sep := seps[r.Intn(len(seps))]
				if t == 0 {
					tail, sep = "", ""
				} else if *allTails {
					tail, sep = c03Breakers[(t-1)/2], []string{"", " "}[(t-1)%2]
				}
				input := rec.Src + sep + tail
				o1 := observeRun(mk(), input, nil, false, false)
				ev := map[string]any{"ev": "c03", "id": n, "input": input, "text": rec.Src, "sep": sep, "tail": tail, "prior": []string{}, "a": o1,
					"b": hostOut{}, "hasB": false, "expSig": "", "strongSep": false, "valOK": true, "consumedProgram": false}
				if !o1.Err && !o1.Panic {
					ev["b"], ev["hasB"] = observeRun(mk(), o1.Matched, nil, false, false), true
				}
				w.Write(ev)
				n++
			}
		})
		emitSummary(map[string]any{"inputs": n})
		return 0
	}
}
