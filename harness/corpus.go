package main

import (
	"go/ast"
	"go/parser"
	"go/token"
	"os"
	"path/filepath"
	"sort"
	"strconv"
	"strings"
)

// repoCorpus collects every string literal of the repository's *_test.go files (inputs and expected outputs alike:
// any byte string is a legitimate input for the totality / well-formedness properties).
func repoCorpus(dir string) []string {
	seen := map[string]bool{}
	files, _ := filepath.Glob(filepath.Join(dir, "*_test.go"))
	fset := token.NewFileSet()
	for _, f := range files {
		af, err := parser.ParseFile(fset, f, nil, 0)
		if err != nil {
			continue
		}
		ast.Inspect(af, func(n ast.Node) bool {
			if bl, ok := n.(*ast.BasicLit); ok && bl.Kind == token.STRING {
				if s, err := strconv.Unquote(bl.Value); err == nil && len(s) > 0 && len(s) < 400 {
					seen[s] = true
				}
			}
			return true
		})
	}
	// documentation snippets (code fences)
	for _, f := range []string{"docs/GUIDE.md"} {
		b, err := os.ReadFile(filepath.Join(dir, f))
		if err != nil {
			continue
		}
		parts := strings.Split(string(b), "```")
		for i := 1; i < len(parts); i += 2 {
			body := parts[i]
			if nl := strings.IndexByte(body, '\n'); nl >= 0 {
				body = body[nl+1:]
			}
			body = strings.TrimSpace(body)
			if body != "" && len(body) < 600 {
				seen[body] = true
			}
			for _, line := range strings.Split(body, "\n") {
				line = strings.TrimSpace(line)
				if line != "" && len(line) < 200 {
					seen[line] = true
				}
			}
		}
	}
	out := make([]string, 0, len(seen))
	for s := range seen {
		out = append(out, s)
	}
	sort.Strings(out)
	return out
}

func repoDir() string {
	if d := os.Getenv("VERIF_REPO"); d != "" {
		return d
	}
	return "/repo"
}

func init() {
	subcmds["corpus"] = func(args []string) int {
		c := repoCorpus(repoDir())
		w := newNDWriter(args[0])
		for _, s := range c {
			w.Write(map[string]any{"src": s})
		}
		w.Close()
		emitSummary(map[string]any{"inputs": len(c)})
		return 0
	}
}
