package main

import (
	"bufio"
	"encoding/json"
	"flag"
	"fmt"
	"os"
	"strconv"
	"syscall"
)

// ndjson helpers ---------------------------------------------------------

type ndWriter struct {
	f *os.File
	w *bufio.Writer
	n int
}

func newNDWriter(path string) *ndWriter {
	f, err := os.Create(path)
	if err != nil {
		fatal("create %s: %v", path, err)
	}
	return &ndWriter{f: f, w: bufio.NewWriterSize(f, 1<<20)}
}

func (w *ndWriter) Write(v any) {
	b, err := json.Marshal(v)
	if err != nil {
		fatal("marshal: %v", err)
	}
	w.w.Write(b)
	w.w.WriteByte('\n')
	w.n++
}

func (w *ndWriter) Close() {
	w.w.Flush()
	w.f.Close()
}

func readND(path string, each func(line []byte)) {
	f, err := os.Open(path)
	if err != nil {
		fatal("open %s: %v", path, err)
	}
	defer f.Close()
	sc := bufio.NewScanner(f)
	sc.Buffer(make([]byte, 1<<20), 1<<28)
	for sc.Scan() {
		b := sc.Bytes()
		if len(b) == 0 {
			continue
		}
		each(b)
	}
	if err := sc.Err(); err != nil {
		fatal("scan %s: %v", path, err)
	}
}

func fatal(format string, a ...any) {
	fmt.Fprintf(os.Stderr, "vh: "+format+"\n", a...)
	os.Exit(2)
}

func envSeed() int64 {
	if s := os.Getenv("VERIF_SEED"); s != "" {
		if v, err := strconv.ParseInt(s, 10, 64); err == nil {
			return v
		}
	}
	return 1
}

func newFlags(name string) *flag.FlagSet { return flag.NewFlagSet(name, flag.ExitOnError) }

// summary written by most subcommands on stdout as a single JSON object
func emitSummary(v any) {
	b, _ := json.Marshal(v)
	fmt.Println(string(b))
}

// cpuMillis: processor time this process has used (user + system).  Ceilings on "does it come back" are taken on processor time,
// so that a loaded machine does not turn a slow case into a hang; a generous wall-clock ceiling catches a case that sleeps.
func cpuMillis() int64 {
	var ru syscall.Rusage
	if err := syscall.Getrusage(syscall.RUSAGE_SELF, &ru); err != nil {
		return 0
	}
	return (ru.Utime.Sec+ru.Stime.Sec)*1000 + int64(ru.Utime.Usec+ru.Stime.Usec)/1000
}
