package main

import (
	"bytes"
	"fmt"
	"math/rand"
	"strings"

	ds "github.com/sealdice/dicescript"
	xrand "golang.org/x/exp/rand"
)

// C06: seeded evaluation is reproducible and resumable; all randomness comes from the context's generator.

func c06Term(r *rand.Rand) string {
	p := diceP{Mn: -1, Mx: -1}
	switch r.Intn(9) {
	case 0, 1, 2:
		p.Times, p.Sides, p.Kind = 1+r.Int63n(5), 2+r.Int63n(19), r.Int63n(5)
		if p.Kind != 0 {
			p.Cnt = 1 + r.Int63n(p.Times)
		}
		s, _ := vmSource("common", p, r.Intn(1000))
		return s
	case 3:
		return "f"
	case 4:
		p.N, p.Bonus = r.Int63n(3), r.Intn(2) == 0
		s, _ := vmSource("coc", p, r.Intn(1000))
		return "(" + s + ")"
	case 5:
		p.Pool, p.Sides, p.Add, p.Thr, p.GE = 1+r.Int63n(6), 10, []int64{0, 9, 10, 11}[r.Intn(4)], 1+r.Int63n(10), true
		s, _ := vmSource("wod", p, 0)
		return s
	case 6:
		p.Pool, p.Sides, p.Add = 1+r.Int63n(5), 10, 7+r.Int63n(5)
		s, _ := vmSource("dc", p, 0)
		return s
	case 7:
		return []string{"d", "2d", "d优势", "3dk2"}[r.Intn(4)]
	default:
		// (the last four walk a dict: what the walk yields, and how many dice are rolled because of it, must not depend on anything
		// but the dict - the iteration order of a Go map is different in every run)
		return []string{"[1,2,3,4,5].rand()", "[1,2,3,4,5,6].shuffle()[0]", "[1,2,3,4,5].randSize(2).sum()", "[2d6, d20].kh()",
			"{'ka':1,'kb':2,'kc':3,'kd':4,'ke':5}.values().rand()", "({'ka':2,'kb':3,'kc':4,'kd':5,'ke':6}.values().pop())d6", "{'ka':d6,'kb':d6,'kc':d6,'kd':d6}.values().pop()",
			"{'ka':1,'kb':2,'kc':3,'kd':4,'ke':5}.items().shuffle().pop().pop()"}[r.Intn(8)]
	}
}

func c06Program(r *rand.Rand) string {
	n := 1 + r.Intn(3)
	var ts []string
	for i := 0; i < n; i++ {
		ts = append(ts, c06Term(r))
	}
	expr := strings.Join(ts, " + ")
	switch r.Intn(6) {
	case 0:
		return "func g1(nn) { " + expr + " + nn }; g1(1) + g1(2)"
	case 1:
		return "&cv = " + expr + " + this.aa; &cv.aa = 3; cv + cv"
	case 2:
		return "`r={" + expr + "} s={% xx = " + c06Term(r) + "; xx %}`"
	case 3:
		return "xx = " + expr + "; yy = " + c06Term(r) + "; [xx, yy]"
	case 4:
		return "ii = 0; tt = 0; while ii < 3 { ii = ii + 1; tt = tt + " + c06Term(r) + " }; tt"
	}
	return expr
}

type c06Out struct {
	hostOut
	Foreign     int  `json:"foreign"` // Roll calls that did not use the context's own generator
	GlobalMoved bool `json:"globalMoved"`
}

func c06VM(seed uint64, defExpr string) *ds.Context {
	vm := newSeededVM(seed)
	vm.Config.DefaultDiceSideExpr = defExpr
	vm.Config.OpCountLimit = 100000
	return vm
}

func c06Run(vm *ds.Context, src string) c06Out {
	g := ds.VerifGlobalSource()
	gb, _ := g.MarshalBinary()
	expectSrc = vm.RandSrc
	o := observeRun(vm, src, nil, false, false)
	// every second program is followed by an evaluation through RunExpr on the same context (its dice are the context's too)
	if len(src)%2 == 0 && !o.Panic {
		func() {
			defer func() { recover() }()
			v, err := vm.RunExpr("3d20 + 2d6kh1 + [1,2,3,4,5,6].rand()", true)
			if err == nil && v != nil {
				o.Ret += " | RunExpr: " + canon(project(v, 0))
			} else {
				o.Ret += " | RunExpr: error"
			}
			sd, _ := vm.GetCurSeed()
			o.Seed = fmt.Sprintf("%x", sd)
		}()
	}
	out := c06Out{hostOut: o}
	for _, rr := range rollLog {
		if rr.M == 0 && !rr.O {
			out.Foreign++
		}
	}
	ga, _ := g.MarshalBinary()
	out.GlobalMoved = !bytes.Equal(gb, ga)
	return out
}

func noise(r *rand.Rand) {
	// activity on other contexts and on the global generator
	for i := 0; i < 1+r.Intn(3); i++ {
		switch r.Intn(4) {
		case 0:
			vm := ds.NewVM() // unseeded: draws from the package-level source
			runOne(vm, "3d6 + [1,2,3].rand()")
		case 1:
			vm := newSeededVM(uint64(r.Int63()))
			runOne(vm, c06Program(r))
		case 2:
			ds.Roll(nil, 20, 0)
		case 3:
			src := &xrand.PCGSource{}
			src.Seed(uint64(r.Int63()))
			ds.RollCommon(src, 3, 6, nil, nil, 0, 0, 0, 0)
		}
	}
}

func init() {
	subcmds["c06-exec"] = func(args []string) int {
		fs := newFlags("c06-exec")
		out := fs.String("out", "", "events ndjson")
		n := fs.Int("n", 500, "experiments")
		fs.Parse(args)
		installRollHook()
		r := rand.New(rand.NewSource(envSeed()))
		w := newNDWriter(*out)
		defer w.Close()
		for i := 0; i < *n; i++ {
			seed := uint64(r.Int63())
			defExpr := []string{"", "", "20", "d6", "2d4"}[r.Intn(5)]
			prog := c06Program(r)
			vmA := c06VM(seed, defExpr)
			a := c06Run(vmA, prog)
			noise(r)
			var a2 c06Out
			if i%2 == 0 {
				a2 = c06Run(c06VM(seed, defExpr), prog)
			} else {
				// the same context seeded again from the same seed bytes (Seed + Init on a used context)
				src := &xrand.PCGSource{}
				src.Seed(seed)
				vmA.Seed, _ = src.MarshalBinary()
				vmA.Init()
				a2 = c06Run(vmA, prog)
			}
			// resumption: P1 on VM1, capture the generator state, fresh VM2 with it; P2 on both
			p1, p2 := c06Program(r), c06Program(r)
			vm1 := c06VM(seed, defExpr)
			c06Run(vm1, p1)
			sd, _ := vm1.GetCurSeed()
			vm2 := &ds.Context{Seed: sd}
			vm2.Init()
			vm2.Config = vm1.Config
			if i%3 == 0 {
				// ... or a context that has been used before and is given the captured state (Seed + Init again)
				vm2 = c06VM(uint64(r.Int63()), defExpr)
				c06Run(vm2, c06Program(r))
				vm2.Seed = sd
				vm2.Init()
			}
			noise(r)
			r1 := c06Run(vm1, p2)
			// vm1 keeps the variables of P1; P2 assigns before it reads, so both start equal in what they observe
			r2 := c06Run(vm2, p2)
			w.Write(map[string]any{"ev": "c06", "prog": prog, "defExpr": defExpr, "a": a, "a2": a2, "p1": p1, "p2": p2, "r1": r1, "r2": r2})
		}
		emitSummary(map[string]any{"experiments": w.n})
		return 0
	}
}

var _ = fmt.Sprint
