package main

import (
	"encoding/json"
	"fmt"
	"math/rand"
	"os"
	"runtime/debug"
	"strings"

	ds "github.com/sealdice/dicescript"
)

// C09: JSON snapshot / restore of the variables at every statement boundary of a program (crash points), follow-up
// programs on the original and on the restored VM, and value round trips.

// split a token list at its top-level statement separators
func splitStatements(ts []tok) [][]tok {
	var out [][]tok
	var cur []tok
	depth := 0
	for _, t := range ts {
		if t.K == "t" {
			switch t.S {
			case "{", "(", "[":
				depth++
			case "}", ")", "]":
				depth--
			}
		}
		if t.K == "sep" && depth == 0 {
			out = append(out, cur)
			cur = nil
			continue
		}
		cur = append(cur, t)
	}
	if len(cur) > 0 {
		out = append(out, cur)
	}
	return out
}

// hasAliasing reports whether some array / dict is reachable from the variables along two different paths
// (JSON is a tree: sharing cannot survive a snapshot)
func hasAliasing(m *ds.ValueMap) bool {
	seen := map[any]bool{}
	dup := false
	var walk func(v *ds.VMValue, depth int)
	walk = func(v *ds.VMValue, depth int) {
		if v == nil || dup || depth > 12 {
			return
		}
		switch x := v.Value.(type) {
		case *ds.ArrayData:
			if seen[x] {
				dup = true
				return
			}
			seen[x] = true
			for _, e := range x.List {
				walk(e, depth+1)
			}
		case *ds.DictData:
			if seen[x] {
				dup = true
				return
			}
			seen[x] = true
			x.Dict.Range(func(k string, e *ds.VMValue) bool { walk(e, depth+1); return true })
		case *ds.ComputedData:
			if seen[x] {
				dup = true
				return
			}
			seen[x] = true
			if x.Attrs != nil {
				x.Attrs.Range(func(k string, e *ds.VMValue) bool { walk(e, depth+1); return true })
			}
		}
	}
	m.Range(func(k string, v *ds.VMValue) bool { walk(v, 0); return !dup })
	return dup
}

func restoreVM(snapshot []byte, seed []byte, c *oracleCase) (*ds.Context, error) {
	vm := &ds.Context{Seed: seed}
	vm.Init()
	vm.Config.IgnoreDiv0 = c.Cfg.Div0
	setMode(vm, c.Cfg.Mode)
	vm.Config.OpCountLimit = 200000
	if err := json.Unmarshal(snapshot, vm.Attrs); err != nil {
		return nil, err
	}
	return vm, nil
}

var c09Followups = []string{"x", "y", "z", "u", "w", "n1", "力量", "g1(1)", "g2(1, 2)", "h1()", "g1(2) + 1", "[x, y, z]", "toStr(u)", "w == w", "typeId(z)", "&x", "u.a", "z[0]", "x = x; x",
	"`{x}-{y}`", "x ?? 5", "n1 && 1", "力量 || 2"}

func init() {
	subcmds["c09-exec"] = func(args []string) int {
		fs := newFlags("c09-exec")
		in := fs.String("in", "", "oracle output prefix")
		out := fs.String("out", "", "events ndjson")
		fs.Parse(args)
		installRollHook()
		r := rand.New(rand.NewSource(envSeed()))
		w := newNDWriter(*out)
		defer w.Close()
		stats := map[string]int{}
		for n := 1; ; n++ {
			f := fmt.Sprintf("%s.%d", *in, n)
			if _, err := os.Stat(f); err != nil {
				break
			}
			readND(f, func(line []byte) {
				var c oracleCase
				if err := json.Unmarshal(line, &c); err != nil {
					fatal("bad oracle case: %v", err)
				}
				if len(c.Runs) == 0 || c.Runs[0].Sig == "ood" {
					return
				}
				run := c.Runs[0]
				stmts := splitStatements(run.Toks)
				if len(stmts) == 0 {
					return
				}
				seed := uint64(r.Int63())
				texts := make([]string, len(stmts))
				for i, s := range stmts {
					texts[i] = (&joiner{r: r}).join(s)
				}
				for cut := 1; cut <= len(stmts); cut++ {
					// VM1: statements 1..cut, snapshot; then the rest and the follow-ups
					vm1 := newSeededVM(seed)
					vm1.Config.EnableDiceWoD, vm1.Config.EnableDiceCoC, vm1.Config.EnableDiceFate, vm1.Config.EnableDiceDoubleCross = false, false, false, false
					vm1.Config.IgnoreDiv0 = c.Cfg.Div0
					setMode(vm1, c.Cfg.Mode)
					vm1.Config.OpCountLimit = 200000
					resetRolls(nil, false)
					failed := false
					for i := 0; i < cut; i++ {
						if err, pan := runOne(vm1, texts[i]); err != nil || pan != nil {
							failed = true // a failing prefix still leaves state that must survive a snapshot
							break
						}
					}
					ev := map[string]any{"ev": "c09", "id": c.Id, "cut": cut, "of": len(stmts), "prefix": strings.Join(texts[:cut], "; "), "prefixFailed": failed,
						"snapErr": false, "snapPanic": false, "restoreErr": false, "errtext": "", "a": []hostOut{}, "b": []hostOut{}, "progs": []string{}, "varsA": "", "varsB": "", "rt": true, "aliased": hasAliasing(vm1.Attrs), "flagBody": false}
					var snap []byte
					var serr error
					g := guard("snapshot", func() { snap, serr = vm1.Attrs.ToJSON() })
					if g.Panic {
						ev["snapPanic"], ev["errtext"] = true, g.Msg
						w.Write(ev)
						continue
					}
					if serr != nil {
						ev["snapErr"], ev["errtext"] = true, serr.Error()
						w.Write(ev)
						continue
					}
					sd, _ := vm1.GetCurSeed()
					vm2, rerr := restoreVM(snap, sd, &c)
					if rerr != nil {
						ev["restoreErr"], ev["errtext"] = true, rerr.Error()
						w.Write(ev)
						continue
					}
					ev["varsA"], ev["varsB"] = varsOf(vm1), varsOf(vm2)
					progs := append([]string{}, texts[cut:]...)
					for k := 0; k < 5; k++ {
						progs = append(progs, c09Followups[r.Intn(len(c09Followups))])
					}
					var oa, ob []hostOut
					for _, p := range progs {
						a := observeRun(vm1, p, nil, false, false)
						b := observeRun(vm2, p, nil, false, false)
						a.Seed, b.Seed = "", "" // compared through the rolls below; the byte form of the state is checked by C06
						oa, ob = append(oa, a), append(ob, b)
					}
					ev["a"], ev["b"], ev["progs"] = oa, ob, progs
					stats["crash_points"]++
					w.Write(ev)
				}
				stats["programs"]++
			})
		}
		// directed probes: sharing between variables (known finding: a JSON tree cannot keep it), functions and computed values
		probes := []struct {
			prefix string
			progs  []string
		}{
			// bodies compiled under parse-time flags that the VM does not have (a macro line; the switches of an st value): after a
			// restore the text is compiled again, under the VM's own flags (known finding KF-C09-2) - the VM of these probes has WoD off
			{"// #EnableDice wod true\nfunc fw() { return 3a5 }", []string{"fw()", "fw() + 1"}},
			{"// #EnableDice wod true\n&cw = 2a6 + 1", []string{"cw", "cw"}},
			{"x = [1]; y = x", []string{"y.push(2); x", "x", "y"}},
			{"x = {'a': 1}; y = [x, x]", []string{"y[0].b = 2; y[1]", "x"}},
			{"func g1(pa) { if pa < 1 { return 0 }; pa + g1(pa - 1) }", []string{"g1(3)", "g1(0)", "g1"}},
			{"&cv = this.a + 2; &cv.a = 5", []string{"cv", "&cv.a = 7; cv", "cv + 1"}},
			{"x = [[1,2],{'k':[3]},'s',1.5,null]", []string{"x[0][1]", "x[1].k", "x[4] ?? 9", "x.len()"}},
			{"func h1() { [1,2].kh }; u = h1()", []string{"typeId(u)"}},
		}
		// boundary values, each at top level, inside an array, as a dict value and as an attribute of a computed value:
		// integers around 2^53 and at the ends of the range, floats that are whole numbers / tiny / huge / negative zero,
		// strings with quotes, controls, non-ASCII and surrogate-range characters, empty containers, keys with special characters
		bvals := []string{"9007199254740993", "-9007199254740993", "9223372036854775807", "-9223372036854775807 - 1", "3037000499 * 3037000499", "4611686018427387904", "1099511627776",
			"3.0", "-0.0", "0.1 + 0.2", "1.0e21", "123456789012345678.0", "0.000001", "1.5e-7", "2.0 ** 60",
			"''", "'a\\'b\"c'", "'line1\\nline2\\ttab'", "'中文 한국어 😀'", "'\\\\ back'", "'{x} `y`'", "[]", "{}", "[[]]", "{'': 1}", "{'a b': 1}", "{'键': [1]}", "{'q\"uote': {}}", "[null, [null]]", "[1.0, 2, '3']"}
		for _, bv := range bvals {
			probes = append(probes, struct {
				prefix string
				progs  []string
			}{"v = " + bv + "; w = [" + bv + ", [" + bv + "]]; u = {'k': " + bv + "}; &cv = this.a; &cv.a = " + bv, []string{"v", "w[0] == v", "w[1][0]", "u.k", "cv", "toStr(v)", "repr(w)", "v == " + bv, "[v, v] == [w[0], u.k]", "typeId(v)"}})
		}
		for pi, pr := range probes {
			vm1 := newSeededVM(7)
			vm1.Config.OpCountLimit = 200000
			flagBody := strings.Contains(pr.prefix, "#EnableDice wod true")
			vm1.Config.EnableDiceWoD = !flagBody
			runOne(vm1, pr.prefix)
			ev := map[string]any{"ev": "c09", "id": 990000 + pi, "cut": 1, "of": 1, "prefix": pr.prefix, "prefixFailed": false,
				"snapErr": false, "snapPanic": false, "restoreErr": false, "errtext": "", "a": []hostOut{}, "b": []hostOut{}, "progs": pr.progs, "varsA": "", "varsB": "", "rt": true, "aliased": hasAliasing(vm1.Attrs), "flagBody": flagBody}
			snap, serr := vm1.Attrs.ToJSON()
			if serr != nil {
				ev["snapErr"], ev["errtext"] = true, serr.Error()
				w.Write(ev)
				continue
			}
			sd, _ := vm1.GetCurSeed()
			c := oracleCase{}
			vm2, rerr := restoreVM(snap, sd, &c)
			if rerr != nil {
				ev["restoreErr"], ev["errtext"] = true, rerr.Error()
				w.Write(ev)
				continue
			}
			vm2.Config.EnableDiceWoD = !flagBody
			ev["varsA"], ev["varsB"] = varsOf(vm1), varsOf(vm2)
			var oa, ob []hostOut
			for _, p := range pr.progs {
				a := observeRun(vm1, p, nil, false, false)
				b := observeRun(vm2, p, nil, false, false)
				a.Seed, b.Seed = "", ""
				oa, ob = append(oa, a), append(ob, b)
			}
			ev["a"], ev["b"] = oa, ob
			w.Write(ev)
		}
		emitSummary(stats)
		return 0
	}
}

// values that cannot be represented: reference cycles and non-finite floats must give an error - never a crash, never a value
// unrepresentable atoms x every place a value can sit in: each script leaves the enclosing value in Ret and in the variables
var c09Unrepresentable = func() []string {
	atoms := []struct{ setup, expr string }{
		{"ua = []; ua.push(ua)", "ua"},
		{"ua = [1]; ub = [ua]; ua.push(ub)", "ua"},
		{"ud = {}; ud.x = ud", "ud"},
		{"ud = {}; ud['k'] = [ud]", "ud"},
		{"ud = {}; ue = {'p': ud}; ud.q = ue", "ue"},
		{"ua = []; ud = {'l': ua}; ua.push(ud)", "ua"},
		// a computed value whose attributes lead back to it; the scope object
		{"&uc = 1; &uc.me = &uc", "&uc"},
		{"&uc = 1; &uo = 2; &uc.o = &uo; &uo.o = &uc", "&uc"},
		{"&uc = 1; uh = [&uc]; &uc.held = uh", "&uc"},
		{"ut = this", "ut"},
		{"uf = 2.0 ** 1024", "uf"},
		{"uf = (2.0 ** 1024) - (2.0 ** 1024)", "uf"},
		{"uf = 0 - (2.0 ** 1024)", "uf"},
	}
	places := []string{"x = %s; x", "x = [1, %s]; x", "x = {'k': %s}; x", "x = [[0], {'k': [2, %s]}]; x", "&x = this.at; &x.at = %s; &x", "&x = 1; &x.at = [1, {'k': %s}]; &x",
		"&cv = 2; &cv.at = %s; x = [&cv]; x", "&cv = 2; &cv.at = %s; x = {'held': [&cv, 1]}; x", "&in1 = 3; &in1.at = %s; &x = 4; &x.held = &in1; &x"}
	var out []string
	for _, a := range atoms {
		for _, pl := range places {
			if strings.HasPrefix(a.expr, "&") && pl == "x = %s; x" {
				pl = "x = %s; &x" // reading x would evaluate the computed value; the value itself is wanted
			}
			out = append(out, a.setup+"; "+fmt.Sprintf(pl, a.expr))
		}
	}
	return out
}()

func init() {
	subcmds["c09-cycles"] = func(args []string) int {
		fs := newFlags("c09-cycles")
		out := fs.String("out", "", "events ndjson")
		only := fs.Int("only", -1, "run a single script (crash attribution)")
		count := fs.Bool("count", false, "print the number of scripts")
		fs.Parse(args)
		if *count {
			emitSummary(map[string]any{"scripts": len(c09Unrepresentable)})
			return 0
		}
		debug.SetMaxStack(64 << 20)
		w := newNDWriter(*out)
		defer w.Close()
		for i, src := range c09Unrepresentable {
			if *only >= 0 && i != *only {
				continue
			}
			vm := ds.NewVM()
			ev := map[string]any{"ev": "c09u", "src": src, "idx": i, "setupErr": false, "valErr": false, "valPanic": false, "mapErr": false, "mapPanic": false, "msg": ""}
			if err, pan := runOne(vm, src); err != nil || pan != nil {
				ev["setupErr"] = true
				w.Write(ev)
				continue
			}
			w.w.Flush()
			g := guard("value.ToJSON", func() {
				if _, err := vm.Ret.ToJSON(); err != nil {
					ev["valErr"] = true
				}
			})
			ev["valPanic"] = g.Panic
			g2 := guard("Attrs.ToJSON", func() {
				if _, err := vm.Attrs.ToJSON(); err != nil {
					ev["mapErr"] = true
				}
			})
			ev["mapPanic"] = g2.Panic
			ev["msg"] = g.Msg + g2.Msg
			w.Write(ev)
		}
		return 0
	}
}
