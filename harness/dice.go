package main

import (
	"bytes"
	"encoding/json"
	"fmt"
	"math/rand"
	"regexp"
	"strconv"
	"strings"

	ds "github.com/sealdice/dicescript"
	xrand "golang.org/x/exp/rand"
)

// C04 / C15 / C06: dice families against spec/Dice.tla.
// The harness only executes and projects; every comparison is made by TLC (Trace_Dice).

type rollRec struct {
	S int64 `json:"s"` // sides asked for
	M int   `json:"m"` // mode passed to Roll
	F int64 `json:"f"` // face returned
	G bool  `json:"g"` // true when the package-global source was used (src == nil)
	O bool  `json:"o"` // true when src is the expected (context's) source
}

type diceP struct {
	Times int64 `json:"times"`
	Sides int64 `json:"sides"`
	Kind  int64 `json:"kind"`
	Cnt   int64 `json:"cnt"`
	Mn    int64 `json:"mn"`
	Mx    int64 `json:"mx"`
	N     int64 `json:"n"`
	Bonus bool  `json:"bonus"`
	Pool  int64 `json:"pool"`
	Add   int64 `json:"add"`
	Thr   int64 `json:"thr"`
	GE    bool  `json:"ge"`
}

type dieMark struct {
	F int64 `json:"f"`
	S bool  `json:"s"` // success mark *
	A bool  `json:"a"` // add-round mark <>
}

type shownT struct {
	Has     bool        `json:"has"`
	Kept    []int64     `json:"kept"`
	Dropped []int64     `json:"dropped"`
	Sym     []int64     `json:"sym"`
	D100    int64       `json:"d100"`
	Digits  []int64     `json:"digits"`
	Rounds  [][]dieMark `json:"rounds"`
	Succ    int64       `json:"succ"`
	Tot     int64       `json:"tot"`
	NR      int64       `json:"nr"`
	Fumble  bool        `json:"fumble"`
	Hidden  bool        `json:"hidden"`
	Parsed  bool        `json:"parsed"` // false: the text did not have the documented shape
}

func newShown() shownT {
	return shownT{Kept: []int64{}, Dropped: []int64{}, Sym: []int64{}, Digits: []int64{}, Rounds: [][]dieMark{}}
}

type diceEv struct {
	Ev       string    `json:"ev"`
	Fam      string    `json:"fam"`
	Via      string    `json:"via"`
	Src      string    `json:"src"`
	Mode     int       `json:"mode"`
	P        diceP     `json:"p"`
	Rolls    []rollRec `json:"rolls"`
	Err      bool      `json:"err"`
	ErrText  string    `json:"errtext"`
	Panic    bool      `json:"panic"`
	Total    int64     `json:"total"`
	Shown    shownT    `json:"shown"`
	Text     string    `json:"text"`
	RngMoved bool      `json:"rngMoved"`
	Short    bool      `json:"short"` // forced faces ran out
	Forced   bool      `json:"forced"`
	Ops      int64     `json:"ops"` // NumOpCount after a vm run
	HasLo    bool      `json:"hasLo"`
	HasHi    bool      `json:"hasHi"`
	Lo       int64     `json:"lo"`
	Hi       int64     `json:"hi"`
}

// roll hook state (single goroutine use)
var (
	rollLog     []rollRec
	forced      []int64
	forcedPos   int
	forcedShort bool
	forcing     bool
	expectSrc   *xrand.PCGSource
	rollCap     = 60000
	rollCapHit  bool
)

func installRollHook() {
	ds.VerifRollHook = func(src *xrand.PCGSource, sides ds.IntType, mode int, orig func() ds.IntType) (ds.IntType, bool) {
		var v ds.IntType
		if mode == 0 && forcing {
			if forcedPos < len(forced) {
				v = ds.IntType(forced[forcedPos])
				forcedPos++
			} else {
				forcedShort = true
				v = 1
			}
		} else {
			v = orig()
		}
		if len(rollLog) < rollCap {
			rollLog = append(rollLog, rollRec{S: int64(sides), M: mode, F: int64(v), G: src == nil, O: src != nil && src == expectSrc})
		} else {
			// a term that rolls this many dice in the harness's parameter ranges is not terminating
			rollCapHit = true
			panic("verif: roll cap reached")
		}
		return v, true
	}
}

func resetRolls(faces []int64, force bool) {
	rollLog = rollLog[:0]
	forced, forcedPos, forcedShort, forcing = faces, 0, false, force
	rollCapHit = false
}

var reInt = regexp.MustCompile(`^-?\d+$`)

func atoi64(s string) (int64, bool) {
	if !reInt.MatchString(s) {
		return 0, false
	}
	v, err := strconv.ParseInt(s, 10, 64)
	return v, err == nil
}

func parseCommonText(t string, sh *shownT) {
	sh.Parsed = true
	if t == "" {
		return
	}
	if strings.HasPrefix(t, "{") && strings.HasSuffix(t, "}") {
		inner := strings.TrimSpace(t[1 : len(t)-1])
		drop := false
		for _, tok := range strings.Fields(inner) {
			if tok == "|" {
				drop = true
				continue
			}
			v, ok := atoi64(tok)
			if !ok {
				sh.Parsed = false
				return
			}
			if drop {
				sh.Dropped = append(sh.Dropped, v)
			} else {
				sh.Kept = append(sh.Kept, v)
			}
		}
		return
	}
	for _, tok := range strings.Split(t, "+") {
		v, ok := atoi64(tok)
		if !ok {
			sh.Parsed = false
			return
		}
		sh.Kept = append(sh.Kept, v)
	}
}

func parseFateText(t string, sh *shownT) {
	sh.Parsed = true
	for _, c := range t {
		switch c {
		case '-':
			sh.Sym = append(sh.Sym, -1)
		case '0':
			sh.Sym = append(sh.Sym, 0)
		case '+':
			sh.Sym = append(sh.Sym, 1)
		default:
			sh.Parsed = false
		}
	}
}

var reCoc = regexp.MustCompile(`^\(D100=(\d+),(奖励|惩罚)([0-9 ]*)\)$`)

func parseCocText(t string, sh *shownT) {
	m := reCoc.FindStringSubmatch(t)
	if m == nil {
		return
	}
	sh.Parsed = true
	sh.D100, _ = atoi64(m[1])
	for _, tok := range strings.Fields(m[3]) {
		v, _ := atoi64(tok)
		sh.Digits = append(sh.Digits, v)
	}
}

var reWod = regexp.MustCompile(`^成功(\d+)/(\d+)(?: 轮数:(\d+))?(?: (\{.*\}))?$`)
var reDc = regexp.MustCompile(`^(大失败 )?出目(\d+)/(\d+)(?: 轮数:(\d+))?(?: (\{.*\}))?$`)

func parseRounds(s string, sh *shownT) bool {
	if s == "" {
		sh.Hidden = true
		return true
	}
	// {a,b},{c}
	if !strings.HasPrefix(s, "{") || !strings.HasSuffix(s, "}") {
		return false
	}
	for _, grp := range strings.Split(s[1:len(s)-1], "},{") {
		var r []dieMark
		if grp != "" {
			for _, tok := range strings.Split(grp, ",") {
				d := dieMark{}
				if strings.HasPrefix(tok, "<") && strings.HasSuffix(tok, ">") {
					d.A = true
					tok = tok[1 : len(tok)-1]
				}
				if strings.HasSuffix(tok, "*") {
					d.S = true
					tok = tok[:len(tok)-1]
				}
				v, ok := atoi64(tok)
				if !ok {
					return false
				}
				d.F = v
				r = append(r, d)
			}
		}
		if r == nil {
			r = []dieMark{}
		}
		sh.Rounds = append(sh.Rounds, r)
	}
	return true
}

func parseWodText(t string, sh *shownT) {
	m := reWod.FindStringSubmatch(t)
	if m == nil {
		return
	}
	sh.Succ, _ = atoi64(m[1])
	sh.Tot, _ = atoi64(m[2])
	sh.NR = 1
	if m[3] != "" {
		sh.NR, _ = atoi64(m[3])
	}
	sh.Parsed = parseRounds(m[4], sh)
}

func parseDcText(t string, sh *shownT) {
	m := reDc.FindStringSubmatch(t)
	if m == nil {
		return
	}
	sh.Fumble = m[1] != ""
	sh.Succ, _ = atoi64(m[2])
	sh.Tot, _ = atoi64(m[3])
	sh.NR = 1
	if m[4] != "" {
		sh.NR, _ = atoi64(m[4])
	}
	sh.Parsed = parseRounds(m[5], sh)
}

func parseShown(fam, text string) shownT {
	sh := newShown()
	sh.Has = true
	switch fam {
	case "common":
		parseCommonText(text, &sh)
	case "fate":
		parseFateText(text, &sh)
	case "coc":
		parseCocText(text, &sh)
	case "wod":
		parseWodText(text, &sh)
	case "dc":
		parseDcText(text, &sh)
	}
	return sh
}

// ---------------------------------------------------------------------------

type dicePlan struct {
	Fam     string  `json:"fam"`
	P       diceP   `json:"p"`
	Faces   []int64 `json:"faces"`
	Mode    int     `json:"mode"`
	Illegal bool    `json:"illegal"`
}

func optPtr(v int64) *ds.IntType {
	if v == -1 {
		return nil
	}
	x := ds.IntType(v)
	return &x
}

func num(v int64) string {
	if v < 0 {
		return fmt.Sprintf("(0-%d)", -v)
	}
	return strconv.FormatInt(v, 10)
}

// vmSource renders the term in VM syntax; variant selects among equivalent spellings. ok=false: not expressible.
func vmSource(fam string, p diceP, variant int) (string, bool) {
	switch fam {
	case "common":
		if p.Mn != -1 && p.Mx != -1 {
			return "", false // the grammar takes one clamp per term
		}
		if p.Kind != 0 && p.Cnt > p.Times && variant%2 == 0 {
			// still expressible; nothing special
		}
		d := "d"
		if variant%3 == 1 {
			d = "D"
		}
		s := num(p.Times) + d + num(p.Sides)
		if p.Times == 1 && variant%5 == 2 {
			s = d + num(p.Sides)
		}
		if p.Times == 2 && p.Cnt == 1 && p.Mn == -1 && p.Mx == -1 && variant%4 == 3 && (p.Kind == 1 || p.Kind == 2) && p.Sides > 0 {
			if p.Kind == 2 {
				return d + num(p.Sides) + "优势", true
			}
			return d + num(p.Sides) + "劣势", true
		}
		switch p.Kind {
		case 1:
			s += []string{"kl", "q", "Q"}[variant%3]
			if !(p.Cnt == 1 && variant%7 == 4) {
				s += num(p.Cnt)
			}
		case 2:
			s += []string{"kh", "k", "K"}[variant%3]
			if !(p.Cnt == 1 && variant%7 == 4) {
				s += num(p.Cnt)
			}
		case 3:
			s += "dl"
			if !(p.Cnt == 1 && variant%7 == 4) {
				s += num(p.Cnt)
			}
		case 4:
			s += "dh"
			if !(p.Cnt == 1 && variant%7 == 4) {
				s += num(p.Cnt)
			}
		}
		if p.Mn != -1 {
			s += "min" + num(p.Mn)
		}
		if p.Mx != -1 {
			s += "max" + num(p.Mx)
		}
		return s, true
	case "fate":
		return []string{"f", "F"}[variant%2], true
	case "coc":
		l := "p"
		if p.Bonus {
			l = "b"
		}
		if variant%2 == 1 {
			l = strings.ToUpper(l)
		}
		if p.N == 1 && variant%3 == 2 {
			return l, true
		}
		return l + num(p.N), true
	case "wod":
		s := num(p.Pool) + "a" + num(p.Add) + "m" + num(p.Sides)
		if p.GE {
			s += "k" + num(p.Thr)
		} else {
			s += "q" + num(p.Thr)
		}
		return s, true
	case "dc":
		return num(p.Pool) + "c" + num(p.Add) + "m" + num(p.Sides), true
	}
	return "", false
}

func seedOf(src *xrand.PCGSource) []byte {
	b, _ := src.MarshalBinary()
	return b
}

func newSeededVM(seed uint64) *ds.Context {
	src := &xrand.PCGSource{}
	src.Seed(seed)
	b, _ := src.MarshalBinary()
	vm := &ds.Context{Seed: b}
	vm.Init()
	vm.Config.EnableDiceWoD = true
	vm.Config.EnableDiceCoC = true
	vm.Config.EnableDiceFate = true
	vm.Config.EnableDiceDoubleCross = true
	return vm
}

func setMode(vm *ds.Context, mode int) {
	vm.Config.DiceMinMode = mode == -1
	vm.Config.DiceMaxMode = mode == 1
}

func copyRolls() []rollRec {
	out := make([]rollRec, len(rollLog))
	copy(out, rollLog)
	return out
}

// runAPI executes the term through the exported Roll* function.
func runAPI(pl dicePlan, force bool, seed uint64) (ev diceEv) {
	src := &xrand.PCGSource{}
	src.Seed(seed)
	expectSrc = src
	before := seedOf(src)
	resetRolls(pl.Faces, force)
	ev = diceEv{Ev: "term", Fam: pl.Fam, Via: "api", Mode: pl.Mode, P: pl.P, Shown: newShown(), Forced: force}
	defer func() {
		if r := recover(); r != nil {
			ev.Panic = true
			ev.ErrText = fmt.Sprint(r)
			ev.Rolls = copyRolls()
		}
	}()
	p := pl.P
	var text string
	switch pl.Fam {
	case "common":
		n, t := ds.RollCommon(src, ds.IntType(p.Times), ds.IntType(p.Sides), optPtr(p.Mn), optPtr(p.Mx), ds.IntType(p.Kind), ds.IntType(p.Cnt), ds.IntType(p.Cnt), pl.Mode)
		ev.Total, text = int64(n), t
	case "fate":
		n, t := ds.RollFate(src, pl.Mode)
		ev.Total, text = int64(n), t
	case "coc":
		n, t := ds.RollCoC(src, p.Bonus, ds.IntType(p.N), pl.Mode)
		ev.Total, text = int64(n), t
	case "wod":
		n, tot, nr, t := ds.RollWoD(src, ds.IntType(p.Add), ds.IntType(p.Pool), ds.IntType(p.Sides), ds.IntType(p.Thr), p.GE, pl.Mode)
		ev.Total, text = int64(n), t
		_ = tot
		_ = nr
	case "dc":
		n, tot, nr, t := ds.RollDoubleCross(src, ds.IntType(p.Add), ds.IntType(p.Pool), ds.IntType(p.Sides), pl.Mode)
		ev.Total, text = int64(n), t
		_ = tot
		_ = nr
	}
	ev.Text = text
	ev.Shown = parseShown(pl.Fam, text)
	ev.Rolls = copyRolls()
	ev.Short = forcedShort
	ev.RngMoved = !bytes.Equal(before, seedOf(src))
	return ev
}

// runVM executes the term written in VM syntax on a seeded context.
func runVM(pl dicePlan, force bool, seed uint64, variant int) (ev diceEv, ok bool) {
	srcText, ok := vmSource(pl.Fam, pl.P, variant)
	if !ok {
		return ev, false
	}
	vm := newSeededVM(seed)
	setMode(vm, pl.Mode)
	expectSrc = vm.RandSrc
	before, _ := vm.GetCurSeed()
	resetRolls(pl.Faces, force)
	ev = diceEv{Ev: "term", Fam: pl.Fam, Via: "vm", Src: srcText, Mode: pl.Mode, P: pl.P, Shown: newShown(), Forced: force}
	defer func() {
		if r := recover(); r != nil {
			ev.Panic = true
			ev.ErrText = fmt.Sprint(r)
			ev.Rolls = copyRolls()
		}
	}()
	err := vm.Run(srcText)
	ev.Rolls = copyRolls()
	ev.Short = forcedShort
	ev.Ops = int64(vm.NumOpCount)
	after, _ := vm.GetCurSeed()
	ev.RngMoved = !bytes.Equal(before, after)
	if err != nil {
		ev.Err = true
		ev.ErrText = err.Error()
		return ev, true
	}
	if vm.RestInput != "" {
		ev.Err = true
		ev.ErrText = "unconsumed input: " + vm.RestInput
		return ev, true
	}
	if v, isInt := vm.Ret.ReadInt(); isInt {
		ev.Total = int64(v)
	} else {
		ev.Err = true
		ev.ErrText = "non-int result " + vm.Ret.ToString()
		return ev, true
	}
	if len(vm.DetailSpans) >= 1 {
		sp := vm.DetailSpans[len(vm.DetailSpans)-1]
		ev.Text = sp.Text
		ev.Shown = parseShown(pl.Fam, sp.Text)
		if sp.Ret != nil {
			if rv, isInt := sp.Ret.ReadInt(); !isInt || int64(rv) != ev.Total {
				ev.Shown.Parsed = false // the span's own value differs from the result
			}
		}
	}
	return ev, true
}

// compact form for TLC: only the fields Trace_Dice reads for this family
func (e diceEv) compact() map[string]any {
	p := map[string]any{}
	sh := map[string]any{"has": e.Shown.Has, "parsed": e.Shown.Parsed}
	switch e.Fam {
	case "common":
		p = map[string]any{"times": e.P.Times, "sides": e.P.Sides, "kind": e.P.Kind, "cnt": e.P.Cnt, "mn": e.P.Mn, "mx": e.P.Mx}
		sh["kept"], sh["dropped"] = e.Shown.Kept, e.Shown.Dropped
	case "fate":
		sh["sym"] = e.Shown.Sym
	case "coc":
		p = map[string]any{"n": e.P.N, "bonus": e.P.Bonus}
		sh["d100"], sh["digits"] = e.Shown.D100, e.Shown.Digits
	case "wod", "dc":
		p = map[string]any{"pool": e.P.Pool, "add": e.P.Add, "sides": e.P.Sides, "thr": e.P.Thr, "ge": e.P.GE}
		sh["rounds"], sh["succ"], sh["tot"], sh["nr"], sh["hidden"], sh["fumble"] = e.Shown.Rounds, e.Shown.Succ, e.Shown.Tot, e.Shown.NR, e.Shown.Hidden, e.Shown.Fumble
	}
	return map[string]any{"fam": e.Fam, "via": e.Via, "mode": e.Mode, "p": p, "rolls": e.Rolls, "err": e.Err, "panic": e.Panic,
		"total": e.Total, "shown": sh, "rngMoved": e.RngMoved, "short": e.Short,
		"hasLo": e.HasLo, "hasHi": e.HasHi, "lo": e.Lo, "hi": e.Hi, "ev": "term"}
}

type evWriter struct{ c, f *ndWriter }

func newEvWriter(path string) *evWriter {
	return &evWriter{newNDWriter(path), newNDWriter(path + ".full")}
}
func (w *evWriter) Write(e diceEv) { w.c.Write(e.compact()); w.f.Write(e) }
func (w *evWriter) Close()         { w.c.Close(); w.f.Close() }

// explodes reports whether the term can add rounds when every die shows its highest face (max mode never ends then)
func explodes(pl dicePlan) bool {
	switch pl.Fam {
	case "wod":
		return pl.P.Add != 0 && pl.P.Add <= pl.P.Sides
	case "dc":
		return pl.P.Add <= pl.P.Sides
	}
	return false
}

func attachBounds(ev *diceEv, pl dicePlan, seed uint64, variant int) {
	if pl.Fam != "common" && pl.Fam != "fate" && pl.Fam != "coc" {
		return // C15 quantifies over XdY, Fate and CoC terms
	}
	saveLog := copyRolls()
	lo := pl
	lo.Mode = -1
	if e, ok := runVM(lo, false, seed, variant); ok && !e.Err && !e.Panic {
		ev.HasLo, ev.Lo = true, e.Total
	}
	if !explodes(pl) {
		hi := pl
		hi.Mode = 1
		if e, ok := runVM(hi, false, seed, variant); ok && !e.Err && !e.Panic {
			ev.HasHi, ev.Hi = true, e.Total
		}
	}
	rollLog = append(rollLog[:0], saveLog...)
}

func init() {
	// replay a TLC-generated plan (forced faces) through API and VM syntax; emit trace events
	subcmds["dice-replay"] = func(args []string) int {
		fs := newFlags("dice-replay")
		in := fs.String("in", "", "plan ndjson")
		out := fs.String("out", "", "events ndjson")
		bracket := fs.Bool("bracket", false, "also evaluate each VM term in min- and max-mode and attach the bounds")
		fs.Parse(args)
		installRollHook()
		w := newEvWriter(*out)
		defer w.Close()
		n := 0
		seed := uint64(envSeed())
		readND(*in, func(line []byte) {
			var pl dicePlan
			if err := json.Unmarshal(line, &pl); err != nil {
				fatal("bad plan: %v", err)
			}
			n++
			force := pl.Mode == 0
			if !pl.Illegal { // the Roll* functions have no error channel; illegal tuples go through VM syntax only
				w.Write(runAPI(pl, force, seed+uint64(n)))
			}
			if ev, ok := runVM(pl, force, seed+uint64(n), n+int(seed)); ok {
				if *bracket && pl.Mode == 0 && !pl.Illegal && !ev.Err && !ev.Panic {
					attachBounds(&ev, pl, seed+uint64(n), n+int(seed))
				}
				w.Write(ev)
			}
		})
		emitSummary(map[string]any{"plans": n, "events": w.c.n})
		return 0
	}

	// random terms with the real generator (large parameters too), all three modes
	subcmds["dice-trace"] = func(args []string) int {
		fs := newFlags("dice-trace")
		out := fs.String("out", "", "events ndjson")
		n := fs.Int("n", 2000, "terms")
		big := fs.Bool("big", true, "include large parameters")
		fs.Parse(args)
		installRollHook()
		rng := rand.New(rand.NewSource(envSeed()))
		w := newEvWriter(*out)
		defer w.Close()
		pick := func(xs ...int64) int64 { return xs[rng.Intn(len(xs))] }
		for i := 0; i < *n; i++ {
			pl := dicePlan{Faces: []int64{}}
			pl.P = diceP{Mn: -1, Mx: -1}
			pl.Mode = []int{0, 0, 0, -1, 1}[rng.Intn(5)]
			switch rng.Intn(7) {
			case 0, 1, 2:
				pl.Fam = "common"
				pl.P.Times = 1 + rng.Int63n(8)
				pl.P.Sides = 1 + rng.Int63n(20)
				if *big && rng.Intn(4) == 0 {
					pl.P.Times = 1 + rng.Int63n(300)
					pl.P.Sides = pick(100, 1000, 65536, 1000003, 1<<20+1)
				}
				pl.P.Kind = rng.Int63n(5)
				if pl.P.Kind != 0 {
					pl.P.Cnt = 1 + rng.Int63n(pl.P.Times+1)
				}
				switch rng.Intn(4) {
				case 0:
					pl.P.Mn = rng.Int63n(pl.P.Sides + 4)
				case 1:
					pl.P.Mx = rng.Int63n(pl.P.Sides + 3)
				}
			case 3:
				pl.Fam = "fate"
			case 4:
				pl.Fam = "coc"
				pl.P.N = rng.Int63n(5)
				pl.P.Bonus = rng.Intn(2) == 0
			case 5:
				pl.Fam = "wod"
				pl.P.Pool = 1 + rng.Int63n(12)
				pl.P.Sides = pick(6, 10, 10, 12, 20)
				pl.P.Add = pick(0, 0, pl.P.Sides, pl.P.Sides-1, pl.P.Sides-2, pl.P.Sides+3)
				if pl.P.Add == 1 {
					pl.P.Add = 2
				}
				pl.P.Thr = 1 + rng.Int63n(pl.P.Sides)
				pl.P.GE = rng.Intn(3) != 0
				if pl.Mode == 1 && pl.P.Add != 0 && pl.P.Add <= pl.P.Sides {
					pl.Mode = 0 // exploding pools in max mode do not terminate (known finding, probed separately)
				}
				if *big && rng.Intn(5) == 0 {
					pl.P.Pool = 15 + rng.Int63n(120)
				}
				if *big && pl.Mode == 0 && rng.Intn(4) == 0 {
					// a small pool (its rounds are listed) that keeps exploding: the text changes form once more than 100 dice were rolled
					pl.P.Pool = 6 + rng.Int63n(9)
					pl.P.Sides = pick(10, 10, 8, 6)
					pl.P.Add = 2 + rng.Int63n(2)
					pl.P.Thr = 1 + rng.Int63n(pl.P.Sides)
				}
			case 6:
				pl.Fam = "dc"
				pl.P.Pool = 1 + rng.Int63n(10)
				pl.P.Sides = pick(10, 10, 6, 12, 20)
				pl.P.Add = 2 + rng.Int63n(pl.P.Sides+1)
				if pl.Mode == 1 && pl.P.Add <= pl.P.Sides {
					pl.Mode = 0
				}
				if *big && rng.Intn(5) == 0 {
					pl.P.Pool = 15 + rng.Int63n(100)
				}
			}
			seed := uint64(rng.Int63())
			if rng.Intn(3) == 0 {
				w.Write(runAPI(pl, false, seed))
			} else if ev, ok := runVM(pl, false, seed, rng.Intn(1000)); ok {
				w.Write(ev)
			}
		}
		// sides beyond the largest supported size (the reducer only maps words to 1..n for n <= MaxInt-1): an illegal parameter,
		// recorded with sides = -1 because the specification's integers cannot hold the number
		for _, pr := range []struct {
			fam, src string
			p        diceP
		}{
			{"common", "1d9223372036854775807", diceP{Times: 1, Sides: -1, Mn: -1, Mx: -1}},
			{"common", "3d9223372036854775807k1", diceP{Times: 3, Sides: -1, Kind: 2, Cnt: 1, Mn: -1, Mx: -1}},
			{"common", "x = 9223372036854775807; 2d(x)", diceP{Times: 2, Sides: -1, Mn: -1, Mx: -1}},
			// operands of min/max that are not integers, and terms whose total cannot be held in an integer: illegal as written
			{"common", "2d6max(2.5)", diceP{Times: 2, Sides: -1, Mn: -1, Mx: -1}},
			{"common", "2d6max('a')", diceP{Times: 2, Sides: -1, Mn: -1, Mx: -1}},
			{"common", "2d6min('a')", diceP{Times: 2, Sides: -1, Mn: -1, Mx: -1}},
			{"common", "2d6min(1.5)", diceP{Times: 2, Sides: -1, Mn: -1, Mx: -1}},
			{"common", "3d6min(null)k2", diceP{Times: 3, Sides: -1, Kind: 2, Cnt: 2, Mn: -1, Mx: -1}},
			{"common", "2d6max([1])", diceP{Times: 2, Sides: -1, Mn: -1, Mx: -1}},
			{"common", "2d9223372036854775806", diceP{Times: 2, Sides: -1, Mn: -1, Mx: -1}},
			{"common", "3d4611686018427387904", diceP{Times: 3, Sides: -1, Mn: -1, Mx: -1}},
			{"common", "x = 9223372036854775806; 2d(x)", diceP{Times: 2, Sides: -1, Mn: -1, Mx: -1}},
			{"common", "2d6min9223372036854775807", diceP{Times: 2, Sides: -1, Mn: -1, Mx: -1}},
			{"common", "4d9223372036854775806k2", diceP{Times: 4, Sides: -1, Kind: 2, Cnt: 2, Mn: -1, Mx: -1}},
			{"wod", "3a10m9223372036854775807", diceP{Pool: 3, Add: 10, Sides: -1, Thr: 8, GE: true, Mn: -1, Mx: -1}},
			{"dc", "3c10m9223372036854775807", diceP{Pool: 3, Add: 10, Sides: -1, Mn: -1, Mx: -1}},
		} {
			vm := newSeededVM(uint64(rng.Int63()))
			vm.Config.OpCountLimit = 100000
			resetRolls(nil, false)
			expectSrc = vm.RandSrc
			err, pan := runOne(vm, pr.src)
			ev := diceEv{Ev: "dice", Fam: pr.fam, Via: "vm", Src: pr.src, P: pr.p, Shown: newShown(), Rolls: []rollRec{}, Err: err != nil, Panic: pan != nil}
			if err == nil && pan == nil {
				if v, ok := vm.Ret.ReadInt(); ok {
					ev.Total = int64(v)
				}
			}
			w.Write(ev)
		}
		emitSummary(map[string]any{"events": w.c.n})
		return 0
	}
}

// ---------------------------------------------------------------------------
// C15: expressions monotone in their dice: k0 + sum of coef*term (coef >= 0), evaluated in the three modes

type exprPart struct {
	Coef int64  `json:"coef"`
	Fam  string `json:"fam"`
	P    diceP  `json:"p"`
}

type exprEv struct {
	Ev      string     `json:"ev"`
	Src     string     `json:"src"`
	Konst   int64      `json:"konst"`
	Parts   []exprPart `json:"parts"`
	Err     bool       `json:"err"`
	Lo      int64      `json:"lo"`
	Hi      int64      `json:"hi"`
	Vals    []int64    `json:"vals"`
	LoMoved bool       `json:"loMoved"`
	HiMoved bool       `json:"hiMoved"`
	LoRolls int        `json:"loRolls"` // Roll calls that reached a generator in min mode (must be 0)
	HiRolls int        `json:"hiRolls"`
}

func evalExpr(src string, mode int, seed uint64) (val int64, moved bool, err bool) {
	vm := newSeededVM(seed)
	setMode(vm, mode)
	expectSrc = vm.RandSrc
	before, _ := vm.GetCurSeed()
	resetRolls(nil, false)
	defer func() {
		if r := recover(); r != nil {
			err = true
		}
	}()
	if e := vm.Run(src); e != nil || vm.RestInput != "" {
		return 0, false, true
	}
	after, _ := vm.GetCurSeed()
	v, ok := vm.Ret.ReadInt()
	if !ok {
		return 0, false, true
	}
	return int64(v), !bytes.Equal(before, after), false
}

func init() {
	subcmds["dice-expr"] = func(args []string) int {
		fs := newFlags("dice-expr")
		out := fs.String("out", "", "events ndjson")
		n := fs.Int("n", 500, "expressions")
		seeds := fs.Int("seeds", 8, "random evaluations per expression")
		fs.Parse(args)
		installRollHook()
		rng := rand.New(rand.NewSource(envSeed()))
		w := newNDWriter(*out)
		defer w.Close()
		sp := func() string { return []string{"", " ", "  "}[rng.Intn(3)] }
		for i := 0; i < *n; i++ {
			ev := exprEv{Ev: "expr", Parts: []exprPart{}, Vals: []int64{}}
			var pieces, prefix []string
			np := 1 + rng.Intn(4)
			for j := 0; j < np; j++ {
				pt := exprPart{Coef: 1, P: diceP{Mn: -1, Mx: -1}}
				switch rng.Intn(5) {
				case 0:
					pt.Fam = "fate"
				case 1:
					pt.Fam = "coc"
					pt.P.N = rng.Int63n(4)
					pt.P.Bonus = rng.Intn(2) == 0
				default:
					pt.Fam = "common"
					pt.P.Times = 1 + rng.Int63n(6)
					pt.P.Sides = 1 + rng.Int63n(12)
					pt.P.Kind = rng.Int63n(5)
					if pt.P.Kind != 0 {
						pt.P.Cnt = 1 + rng.Int63n(pt.P.Times+1)
					}
					switch rng.Intn(4) {
					case 0:
						pt.P.Mn = rng.Int63n(pt.P.Sides + 4) // also above the sides
					case 1:
						pt.P.Mx = rng.Int63n(pt.P.Sides + 3) // also 0
					}
				}
				term, _ := vmSource(pt.Fam, pt.P, rng.Intn(1000))
				if pt.Fam == "fate" || pt.Fam == "coc" {
					term = "(" + term + ")" // keep letters from fusing with neighbours
				}
				// a third of the terms are rolled inside a function body or a computed value (a nested VM running compiled code)
				switch rng.Intn(6) {
				case 0:
					name := fmt.Sprintf("fn%d", j+1)
					prefix = append(prefix, fmt.Sprintf("func %s() { %s }", name, term))
					term = name + "()"
				case 1:
					name := fmt.Sprintf("cv%d", j+1)
					prefix = append(prefix, fmt.Sprintf("&%s = %s", name, term))
					term = name
				}
				piece := term
				switch rng.Intn(4) {
				case 0:
					pt.Coef = rng.Int63n(4)
					piece = fmt.Sprintf("%d%s*%s%s", pt.Coef, sp(), sp(), term)
				case 1:
					pt.Coef = rng.Int63n(4)
					piece = fmt.Sprintf("%s%s*%s%d", term, sp(), sp(), pt.Coef)
				case 2:
					piece = "(" + sp() + term + ")" // the grammar takes no blank between a number or dice term and the closing parenthesis
				}
				ev.Parts = append(ev.Parts, pt)
				pieces = append(pieces, piece)
			}
			if rng.Intn(2) == 0 {
				ev.Konst = rng.Int63n(10)
				pos := rng.Intn(len(pieces) + 1)
				pieces = append(pieces[:pos], append([]string{strconv.FormatInt(ev.Konst, 10)}, pieces[pos:]...)...)
			}
			ev.Src = strings.Join(pieces, sp()+"+"+sp())
			if len(prefix) > 0 {
				ev.Src = strings.Join(prefix, "; ") + "; " + ev.Src
			}
			var e1, e2 bool
			ev.Lo, ev.LoMoved, e1 = evalExpr(ev.Src, -1, uint64(i))
			for _, r := range rollLog {
				if r.M != -1 {
					ev.LoRolls++
				}
			}
			ev.Hi, ev.HiMoved, e2 = evalExpr(ev.Src, 1, uint64(i))
			for _, r := range rollLog {
				if r.M != 1 {
					ev.HiRolls++
				}
			}
			ev.Err = e1 || e2
			for k := 0; k < *seeds; k++ {
				v, _, e := evalExpr(ev.Src, 0, uint64(rng.Int63()))
				if e {
					ev.Err = true
				}
				ev.Vals = append(ev.Vals, v)
			}
			w.Write(ev)
		}
		emitSummary(map[string]any{"events": w.n})
		return 0
	}
}
