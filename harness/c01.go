package main

import (
	"encoding/json"
	"fmt"
	"math/rand"
	"os"
	"os/exec"
	"regexp"
	"runtime/debug"
	"sort"
	"strings"
	"sync"
	"sync/atomic"
	"time"

	ds "github.com/sealdice/dicescript"
)

// C01: the public API is total.

const c01Prelude = "v_neg = -3; v_zero = 0; v_one = 1; v_pos = 7; v_big = 1099511627776; v_huge = 4611686018427387904; v_maxint = 9223372036854775807; v_float = 1.5; v_negfloat = -2.5; v_emptystr = ''; v_str = 'ab'; v_numstr = '12'; " +
	"v_null = null; v_emptyarr = []; v_arr = [3,1,2]; v_nested = [[1],'x',{'k':2}]; v_emptydict = {}; v_dict = {'a':1,'b':[2]}; func v_func(x) { x }; v_native = abs; " +
	"&v_computed = 1+1; &v_badcomputed = 1/0; x7 = 5"

// cyclic values; each statement is run on its own so that one failing does not take the others with it
var c01CyclicPrelude = []string{"v_cycarr = [1]; v_cycarr.push(v_cycarr)", "v_cycarr2 = [1]; v_cycarr2.push(v_cycarr2)",
	"v_cycdict = {'a':1}; v_cycdict.k = v_cycdict", "v_cycdict2 = {'a':1}; v_cycdict2.k = v_cycdict2",
	"v_protocyc = {'a':1}; v_protocyc.__proto__ = v_protocyc", "v_pl0 = {'b':2}; v_protoloop = {'a':1}; v_pl0.__proto__ = v_protoloop; v_protoloop.__proto__ = v_pl0"}

type c01Cfg struct {
	Fam     int    `json:"fam"` // bit set: coc wod fate dc
	NoStmts bool   `json:"noStmts"`
	NoNDice bool   `json:"noNDice"`
	NoBit   bool   `json:"noBit"`
	Div0    bool   `json:"div0"`
	Mode    int    `json:"mode"`
	DefExpr string `json:"defExpr"`
	Limit   int64  `json:"limit"`
	PLimit  uint64 `json:"plimit"`
	St      bool   `json:"st"` // a CallbackSt is installed
	CD      bool   `json:"cd"` // a custom dice pattern is registered
}

func c01CfgOf(r *rand.Rand) c01Cfg {
	c := c01Cfg{Fam: r.Intn(16), NoStmts: r.Intn(6) == 0, NoNDice: r.Intn(6) == 0, NoBit: r.Intn(6) == 0, Div0: r.Intn(2) == 0, Mode: r.Intn(3) - 1,
		DefExpr: []string{"", "", "20", "d6", "x7", "v_str", "1/0"}[r.Intn(7)], Limit: []int64{20000, 20000, 300, 3000}[r.Intn(4)], PLimit: []uint64{10000000, 10000000, 3000}[r.Intn(3)]}
	if r.Intn(3) == 0 {
		c.Fam = 15
	}
	c.St = r.Intn(2) == 0
	c.CD = r.Intn(2) == 0
	return c
}

func (c c01Cfg) apply(vm *ds.Context) {
	vm.Config.EnableDiceCoC, vm.Config.EnableDiceWoD, vm.Config.EnableDiceFate, vm.Config.EnableDiceDoubleCross = c.Fam&1 != 0, c.Fam&2 != 0, c.Fam&4 != 0, c.Fam&8 != 0
	vm.Config.DisableStmts, vm.Config.DisableNDice, vm.Config.DisableBitwiseOp = c.NoStmts, c.NoNDice, c.NoBit
	vm.Config.IgnoreDiv0 = c.Div0
	setMode(vm, c.Mode)
	vm.Config.DefaultDiceSideExpr = c.DefExpr
	vm.Config.OpCountLimit = ds.IntType(c.Limit)
	vm.Config.ParseExprLimit = c.PLimit
	if c.St {
		vm.Config.CallbackSt = func(_type string, name string, val *ds.VMValue, extra *ds.VMValue, op string, detail string) {
			_ = val.ToString() // a host reads what it is given
			if extra != nil {
				_ = extra.ToString()
			}
		}
	} else {
		vm.Config.CallbackSt = nil
	}
	if c.CD && len(vm.CustomDiceInfo) == 0 {
		_ = vm.RegCustomDice(`(\d+)E(\d+)`, func(ctx *ds.Context, groups []string, payload any) (*ds.VMValue, string, error) {
			return ds.NewIntVal(ds.IntType(len(groups))), "E", nil
		})
	}
}

type c01Step struct {
	Call string `json:"call"`
	Out  string `json:"out"`
}

type c01Obs struct {
	Ev           string    `json:"ev"`
	Kind         string    `json:"kind"` // plan | bytes
	Src          string    `json:"src"`
	Cfg          c01Cfg    `json:"cfg"`
	Reused       int       `json:"reused"` // inputs this VM has seen before
	Steps        []c01Step `json:"steps"`
	Hang         bool      `json:"hang"`
	Fatal        bool      `json:"fatal"`
	DetailStable bool      `json:"detailStable"`
	PanicVia     string    `json:"panicVia"`
	PanicFunc    string    `json:"panicFunc"`
	PanicMsg     string    `json:"panicMsg"`
	Count        int       `json:"count"`
	// the input holds a `// #EnableDice <family> false` line inside a template block: such inputs are kept apart from all
	// others (the look-ahead pass does not see the line - known finding KF-C01-1)
	MacroOffInHole bool `json:"macroOffInHole"`
}

var reMacroOffInHole = regexp.MustCompile("(?s)\\{%.*//\\s*#EnableDice\\s+\\w+\\s+false")

var reFrame = regexp.MustCompile(`github\.com/sealdice/dicescript\.((?:\(\*?[A-Za-z0-9_]+\)\.)?[A-Za-z0-9_]+)`)
var reDigits = regexp.MustCompile(`[0-9]+`)

// the first frame of the package under the panic, and the message with numbers abstracted
func panicSig(r any) (fn, msg string) {
	st := string(debug.Stack())
	// frames after the runtime's panic frames
	if i := strings.Index(st, "panic("); i >= 0 {
		st = st[i:]
	}
	for _, m := range reFrame.FindAllStringSubmatch(st, -1) {
		f := m[1]
		if strings.HasPrefix(f, "Verif") || strings.HasPrefix(f, "verif") {
			continue
		}
		fn = f
		break
	}
	msg = reDigits.ReplaceAllString(fmt.Sprint(r), "N")
	if len(msg) > 120 {
		msg = msg[:120]
	}
	return
}

// c01Observe performs the observation sequence on vm
func c01Observe(vm *ds.Context, src string, o *c01Obs) {
	step := func(call string, f func() error) {
		out := "value"
		func() {
			defer func() {
				if r := recover(); r != nil {
					out = "panic"
					if o.PanicVia == "" {
						o.PanicVia = call
						o.PanicFunc, o.PanicMsg = panicSig(r)
					}
				}
			}()
			if err := f(); err != nil {
				out = "error"
			}
		}()
		o.Steps = append(o.Steps, c01Step{call, out})
	}
	var d1, d2 string
	var perr error
	step("Parse", func() error { perr = vm.Parse(src); return perr })
	if perr == nil && o.Steps[0].Out == "value" {
		step("RunAfterParsed", func() error { return vm.RunAfterParsed() })
	} else {
		o.Steps = append(o.Steps, c01Step{"RunAfterParsed", "skipped"})
	}
	step("GetDetailText", func() error { d1 = vm.GetDetailText(); return nil })
	step("Run", func() error { return vm.Run(src) })
	step("GetDetailText", func() error { d1 = vm.GetDetailText(); return nil })
	step("GetDetailText2", func() error { d2 = vm.GetDetailText(); return nil })
	step("GetAsmText", func() error { _ = vm.GetAsmText(); return nil })
	step("ToString", func() error {
		if vm.Ret != nil {
			_ = vm.Ret.ToString()
		}
		return nil
	})
	step("ToRepr", func() error {
		if vm.Ret != nil {
			_ = vm.Ret.ToRepr()
		}
		return nil
	})
	step("ToJSON", func() error {
		if vm.Ret != nil {
			_, err := vm.Ret.ToJSON()
			return err
		}
		return nil
	})
	step("MatchedRest", func() error { _ = vm.Matched + vm.RestInput; return nil })
	step("RunExpr", func() error { _, err := vm.RunExpr(src, true); return err })
	c1, c2 := canonDetail(d1), canonDetail(d2) // (a text that renders a dict is in map order, and so is whether it is elided)
	o.DetailStable = c1 == c2
}

func (o *c01Obs) sig() string {
	var sb strings.Builder
	for _, s := range o.Steps {
		sb.WriteString(s.Call + "=" + s.Out + ";")
	}
	return fmt.Sprintf("%s|%v|%v|%v|%s|%s|%s|%s|%v", o.Kind, o.Hang, o.Fatal, o.DetailStable, o.PanicVia, o.PanicFunc, o.PanicMsg, sb.String(), o.MacroOffInHole)
}

var c01Tokens = []string{"1", "2", "0", "10", "99999", "1.5", "d", "D", "d6", "2d6", "k", "kh", "kl", "q", "dh", "dl", "min", "max", "a", "b", "c", "f", "p", "m", "3a10", "2c5", "b2", "p1",
	"+", "-", "*", "/", "%", "**", "==", "!=", "<", "<=", ">", ">=", "&&", "||", "??", "&", "|", "!", "?", ":", ",", ";", "=", "(", ")", "[", "]", "{", "}", "..", ".", "'", "\"", "`", "\x1e",
	"{%", "%}", "\\", " ", "  ", "\n", "\t", "x7", "v_arr", "v_dict", "v_str", "v_func", "v_computed", "v_null", "if", "else", "while", "func", "return", "break", "continue", "true", "false", "null", "this",
	"^st", "&", "力量", "：", "，", "优势", "劣势", "// #EnableDice wod true\n", "//", "abs", "len", "push", "kh(", "[1,2,3]", "{'a':1}", "`{x7}`", "\xff", "\xc3", "\x00", "😀", "０", "ｄ"}

// c01Inputs: byte-level inputs the specification cannot describe
func c01Inputs(r *rand.Rand, corpus []string, n int) []string {
	out := make([]string, 0, n)
	for len(out) < n {
		switch r.Intn(6) {
		case 0: // random bytes
			b := make([]byte, 1+r.Intn(24))
			for i := range b {
				b[i] = byte(r.Intn(256))
			}
			out = append(out, string(b))
		case 1, 2: // token soup
			var sb strings.Builder
			for k := 1 + r.Intn(14); k > 0; k-- {
				sb.WriteString(c01Tokens[r.Intn(len(c01Tokens))])
			}
			out = append(out, sb.String())
		case 3: // truncation of a corpus string (at any byte, also inside a rune)
			s := corpus[r.Intn(len(corpus))]
			if len(s) > 0 {
				out = append(out, s[:r.Intn(len(s)+1)])
			}
		case 4: // two corpus strings spliced, on adjacent lines or not
			a, b := corpus[r.Intn(len(corpus))], corpus[r.Intn(len(corpus))]
			out = append(out, a+[]string{"\n", ";", " ", "", "\n\n"}[r.Intn(5)]+b)
		default: // a corpus string with a token replaced or inserted
			s := []rune(corpus[r.Intn(len(corpus))])
			t := c01Tokens[r.Intn(len(c01Tokens))]
			k := r.Intn(len(s) + 1)
			if r.Intn(2) == 0 && k < len(s) {
				out = append(out, string(s[:k])+t+string(s[k+1:]))
			} else {
				out = append(out, string(s[:k])+t+string(s[k:]))
			}
		}
	}
	return out
}

// c01Short keeps the head and the tail of a long input (nesting cases run to hundreds of kilobytes)
func c01Short(s string) string {
	if len(s) <= 400 {
		return s
	}
	return s[:300] + fmt.Sprintf(" …(%d bytes)… ", len(s)) + s[len(s)-60:]
}

type c01Plan struct {
	T string   `json:"t"`
	A []string `json:"a"`
	// nesting cases (p5)
	O      string `json:"o"`
	C      string `json:"c"`
	N      int    `json:"n"`
	Closed bool   `json:"closed"`
}

func init() {
	// a worker: runs cases [from, to) of the deterministic case list and prints merged observations
	subcmds["c01-worker"] = func(args []string) int {
		fs := newFlags("c01-worker")
		dir := fs.String("dir", "", "directory with header.json, p1/p2/p3.ndjson, corpus.ndjson")
		kind := fs.String("kind", "plan", "plan | bytes")
		shard := fs.String("shard", "0/1", "i/n")
		from := fs.Int("from", 0, "skip the first cases of this shard (after a fatal error)")
		n := fs.Int("n", 20000, "byte-level inputs (all shards together)")
		allCtx := fs.Bool("allctx", false, "every case in every context")
		t3every := fs.Int("t3every", 1, "take every n-th three-hole case (rotating with the seed)")
		out := fs.String("out", "", "observations ndjson")
		progress := fs.String("progress", "", "file receiving the index and text of the case being run")
		fs.Parse(args)
		var si, sn int
		fmt.Sscanf(*shard, "%d/%d", &si, &sn)
		var header struct {
			Contexts []string `json:"contexts"`
		}
		hb, _ := os.ReadFile(*dir + "/header.json")
		json.Unmarshal(hb, &header)
		var corpus []string
		readND(*dir+"/corpus.ndjson", func(line []byte) {
			var rec struct {
				Src string `json:"src"`
			}
			if json.Unmarshal(line, &rec) == nil {
				corpus = append(corpus, rec.Src)
			}
		})
		// the case list of this shard
		var srcs []string
		if *kind == "plan" {
			idx := 0
			for _, f := range []string{"p1.ndjson", "p2.ndjson", "p3.ndjson", "p4.ndjson", "p5.ndjson"} {
				readND(*dir+"/"+f, func(line []byte) {
					var p c01Plan
					if json.Unmarshal(line, &p) != nil {
						return
					}
					idx++
					if idx%sn != si {
						return
					}
					if f == "p3.ndjson" && *t3every > 1 && (idx/sn+int(envSeed()))%*t3every != 0 {
						return
					}
					if f == "p5.ndjson" {
						src := strings.Repeat(p.O, p.N) + "1"
						if p.Closed {
							src += strings.Repeat(p.C, p.N)
						}
						srcs = append(srcs, src)
						return
					}
					s := p.T
					for k, a := range p.A {
						s = strings.ReplaceAll(s, fmt.Sprintf("@%d", k+1), "v_"+a)
					}
					st := strings.HasPrefix(s, "^st")
					if *allCtx || f == "p1.ndjson" {
						for _, c := range header.Contexts {
							if st && c != "%" {
								continue
							}
							srcs = append(srcs, strings.Replace(c, "%", s, 1))
						}
					} else {
						c := header.Contexts[(idx/sn+int(envSeed()))%len(header.Contexts)]
						if st {
							c = "%"
						}
						srcs = append(srcs, strings.Replace(c, "%", s, 1))
					}
				})
			}
		} else {
			r := rand.New(rand.NewSource(envSeed()*1000 + int64(si)))
			srcs = c01Inputs(r, corpus, *n/sn)
		}
		w := newNDWriter(*out)
		defer w.Close()
		agg := map[string]*c01Obs{}
		var order []string
		flush := func() {
			for _, k := range order {
				w.Write(agg[k])
			}
			w.Close()
		}
		var cur atomic.Int64
		var curStart atomic.Int64
		var curCPU atomic.Int64
		var mu sync.Mutex
		// watchdog: a case that does not come back within 30 s under an op budget is a hang
		go func() {
			for {
				time.Sleep(200 * time.Millisecond)
				// a hang: 120 s of processor time on one case (the worker runs one case at a time, on two threads; the heaviest
				// legitimate cases - 10^7 parse expressions, several times per observation sequence - need about 20 s), or 15 minutes by the clock
				if st := curStart.Load(); st != 0 && (cpuMillis()-curCPU.Load() > 120000 || time.Now().UnixMilli()-st > 900000) {
					mu.Lock()
					i := int(cur.Load())
					o := &c01Obs{Ev: "c01", Kind: *kind, Src: c01Short(srcs[i]), Hang: true, DetailStable: true, Steps: []c01Step{}, Count: 1}
					agg["hang"+fmt.Sprint(i)] = o
					order = append(order, "hang"+fmt.Sprint(i))
					flush()
					fmt.Printf("{\"hangAt\":%d}\n", i)
					os.Exit(3)
				}
			}
		}()
		r := rand.New(rand.NewSource(envSeed()*7919 + int64(si)))
		var vm *ds.Context
		reused := 0
		var cfg c01Cfg
		for i := *from; i < len(srcs); i++ {
			src := srcs[i]
			if *progress != "" {
				os.WriteFile(*progress, []byte(fmt.Sprintf("%d\n%s", i, src)), 0o644)
			}
			cur.Store(int64(i))
			// one VM serves a few inputs, so that each meets state left by earlier ones (variables, stale spans, a failed run)
			if vm == nil || reused >= 4 || r.Intn(3) == 0 {
				vm = newSeededVM(uint64(r.Int63()))
				cfg = c01CfgOf(r)
				reused = 0
				func() {
					defer func() { recover() }()
					vm.Config.EnableDiceWoD, vm.Config.EnableDiceCoC, vm.Config.EnableDiceFate, vm.Config.EnableDiceDoubleCross = false, false, false, false
					_ = vm.Run(c01Prelude)
					for _, p := range c01CyclicPrelude {
						_ = vm.Run(p)
					}
				}()
				cfg.apply(vm)
			}
			o := &c01Obs{Ev: "c01", Kind: *kind, Src: src, Cfg: cfg, Reused: reused, Count: 1, MacroOffInHole: reMacroOffInHole.MatchString(src)}
			curCPU.Store(cpuMillis())
			curStart.Store(time.Now().UnixMilli())
			c01Observe(vm, src, o)
			curStart.Store(0)
			reused++
			if o.PanicVia != "" {
				vm = nil // a VM that panicked is not used again (IsRunning may be stuck)
			}
			mu.Lock()
			k := o.sig()
			if old, ok := agg[k]; ok {
				old.Count++
			} else {
				o.Src = c01Short(o.Src)
				agg[k] = o
				order = append(order, k)
			}
			mu.Unlock()
		}
		mu.Lock()
		flush()
		emitSummary(map[string]any{"cases": len(srcs) - *from, "signatures": len(order)})
		return 0
	}

	// the driver: shards in child processes; a child that dies is a fatal error of the case it was running, and is restarted after it
	subcmds["c01-exec"] = func(args []string) int {
		fs := newFlags("c01-exec")
		dir := fs.String("dir", "", "plan directory")
		kind := fs.String("kind", "plan", "plan | bytes")
		n := fs.Int("n", 20000, "byte-level inputs")
		allCtx := fs.Bool("allctx", false, "every case in every context")
		t3every := fs.Int("t3every", 1, "take every n-th three-hole case")
		workers := fs.Int("workers", 12, "shards")
		out := fs.String("out", "", "observations ndjson")
		fs.Parse(args)
		self, _ := os.Executable()
		var wg sync.WaitGroup
		var mu sync.Mutex
		var all []json.RawMessage
		total := 0
		for si := 0; si < *workers; si++ {
			wg.Add(1)
			go func(si int) {
				defer wg.Done()
				from := 0
				for attempt := 0; attempt < 40; attempt++ {
					o := fmt.Sprintf("%s/obs_%s_%d_%d.ndjson", *dir, *kind, si, attempt)
					prog := fmt.Sprintf("%s/progress_%s_%d", *dir, *kind, si)
					a := []string{"c01-worker", "-dir", *dir, "-kind", *kind, "-shard", fmt.Sprintf("%d/%d", si, *workers), "-from", fmt.Sprint(from), "-n", fmt.Sprint(*n), "-out", o, "-progress", prog}
					if *allCtx {
						a = append(a, "-allctx")
					}
					a = append(a, "-t3every", fmt.Sprint(*t3every))
					cmd := exec.Command(self, a...)
					cmd.Env = append(os.Environ(), "GOMEMLIMIT=3GiB", "GOMAXPROCS=2") // two threads: the collector cannot multiply the processor time of a case
					outb, err := cmd.Output()
					readND(o, func(line []byte) {
						mu.Lock()
						all = append(all, append(json.RawMessage{}, line...))
						mu.Unlock()
					})
					if err == nil {
						var s struct {
							Cases int `json:"cases"`
						}
						lines := strings.Split(strings.TrimSpace(string(outb)), "\n")
						json.Unmarshal([]byte(lines[len(lines)-1]), &s)
						mu.Lock()
						total += s.Cases
						mu.Unlock()
						return
					}
					// the worker died: which case was it running?
					pb, _ := os.ReadFile(prog)
					parts := strings.SplitN(string(pb), "\n", 2)
					idx := 0
					fmt.Sscanf(parts[0], "%d", &idx)
					src := ""
					if len(parts) > 1 {
						src = parts[1]
					}
					hang := strings.Contains(string(outb), "hangAt")
					if !hang {
						msg := ""
						if ee, ok := err.(*exec.ExitError); ok {
							msg = string(ee.Stderr)
							if len(msg) > 300 {
								msg = msg[:300]
							}
						}
						ob := c01Obs{Ev: "c01", Kind: *kind, Src: c01Short(src), Fatal: true, DetailStable: true, Steps: []c01Step{}, PanicMsg: msg, Count: 1}
						b, _ := json.Marshal(ob)
						mu.Lock()
						all = append(all, b)
						mu.Unlock()
					}
					mu.Lock()
					total += idx - from + 1
					mu.Unlock()
					from = idx + 1
				}
			}(si)
		}
		wg.Wait()
		w := newNDWriter(*out)
		defer w.Close()
		sort.Slice(all, func(i, j int) bool { return string(all[i]) < string(all[j]) })
		for _, l := range all {
			var v any
			json.Unmarshal(l, &v)
			w.Write(v)
		}
		emitSummary(map[string]any{"cases": total, "observations": len(all)})
		return 0
	}
}
