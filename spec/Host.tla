-------------------------------- MODULE Host --------------------------------
(***************************************************************************)
(* The embedding API of one context as a state machine (C01, C03, C14):    *)
(* what a host may call, in any order, and what each call comes back with  *)
(* given everything the context has been through.                          *)
(*                                                                         *)
(* Inputs are classes of source text (the harness holds several texts of   *)
(* each class):                                                            *)
(*   pure     an expression without dice or variables that has a value     *)
(*   fails    ... that ends in a runtime error                             *)
(*   syntax   a text that does not parse                                   *)
(*   dice     an expression over dice                                      *)
(*   assign   x = <pure>; x                                                *)
(*   reads    x + 1                                                        *)
(* State: the outcome of the last Parse, whether x is defined.  Calls:     *)
(* Parse(c), RunAfterParsed (after any Parse, also a failed one, any       *)
(* number of times), Run(c), RunExpr(c), and the observers GetDetailText,  *)
(* GetAsmText, RetToString, MatchedRest, which may be called at ANY time.  *)
(* Every call returns (value or error).  The outcome of Parse, Run and     *)
(* RunAfterParsed depends on the class of the input and on x alone - not   *)
(* on what was parsed, run or observed before, nor on earlier failures.    *)
(* (RunExpr deviates: see StaleError below.)                               *)
(***************************************************************************)
EXTENDS Naturals, Sequences, TLC

Classes == {"pure", "fails", "syntax", "dice", "assign", "reads"}
Observers == {"GetDetailText", "GetAsmText", "RetToString", "MatchedRest"}

VARIABLES parsed,    \* "never" | "ok" | "failed"
          last,      \* class of the text of the last Parse
          xDefined,  \* the variable x holds an integer
          pending,   \* the context still carries the error of a failed Parse or evaluation (cleared by the next Parse)
          hist       \* the calls so far, each with the outcome the contract prescribes
vars == <<parsed, last, xDefined, pending, hist>>

Init == parsed = "never" /\ last = "none" /\ xDefined = FALSE /\ pending = FALSE /\ hist = <<>>

\* what evaluating a text of class c comes back with
Eval(c, xd) == CASE c \in {"pure", "dice", "assign"} -> "value"
                 [] c = "fails" -> "error"
                 [] c = "reads" -> IF xd THEN "value" ELSE "error"

Log(call, c, out) == hist' = Append(hist, [call |-> call, c |-> c, out |-> out])

Parse(c) == /\ parsed' = IF c = "syntax" THEN "failed" ELSE "ok"
            /\ last' = c
            /\ Log("Parse", c, IF c = "syntax" THEN "error" ELSE "value")
            /\ pending' = (c = "syntax")
            /\ UNCHANGED xDefined
\* RunAfterParsed may be called whenever something has been given to Parse - also after a Parse that failed (the host ignored
\* the error) and again after an evaluation that failed: while the context carries a pending error the call just reports it.
RunAfterParsed == /\ parsed # "never"
                  /\ LET out == IF pending THEN "error" ELSE Eval(last, xDefined) IN
                     /\ Log("RunAfterParsed", IF parsed = "ok" THEN last ELSE "syntax", out)
                     /\ pending' = (pending \/ out = "error")
                     /\ xDefined' = (xDefined \/ (~pending /\ last = "assign"))
                  /\ UNCHANGED <<parsed, last>>
Run(c) == /\ parsed' = IF c = "syntax" THEN "failed" ELSE "ok"
          /\ last' = c
          /\ Log("Run", c, IF c = "syntax" THEN "error" ELSE Eval(c, xDefined))
          /\ pending' = (c = "syntax" \/ Eval(c, xDefined) = "error")
          /\ xDefined' = (xDefined \/ c = "assign")
\* evaluation in a child context that shares the variables; the parse state of the context itself is untouched.
\* StaleError (a deviation of the code, modelled as it is): while the context carries the error of an earlier failed
\* Parse or evaluation, RunExpr reports that error instead of evaluating its text.
RunExpr(c) == /\ c # "assign"
              /\ Log("RunExpr", c, IF pending \/ c = "syntax" THEN "error" ELSE Eval(c, xDefined))
              /\ UNCHANGED <<parsed, last, xDefined, pending>>
Observe(o) == /\ Log(o, "none", "value")
              /\ UNCHANGED <<parsed, last, xDefined, pending>>

Next == \/ \E c \in Classes : Parse(c) \/ Run(c) \/ RunExpr(c)
        \/ RunAfterParsed
        \/ \E o \in Observers : Observe(o)
Spec == Init /\ [][Next]_vars

\* the API is total: the contract never prescribes anything but a return
Total == \A i \in 1..Len(hist) : hist[i].out \in {"value", "error"}
\* an evaluation's outcome is a function of its text and of x: two evaluations of the same class under the same x agree,
\* whatever happened in between
HistoryFree == \A i, j \in 1..Len(hist) :
                 (hist[i].call = "Run" /\ hist[j].call = "Run" /\ hist[i].c = hist[j].c /\ hist[i].c \notin {"reads"}) => hist[i].out = hist[j].out
=============================================================================
