-------------------------------- MODULE StCmd --------------------------------
(***************************************************************************)
(* The character-sheet command `^st...` (C18).  An input is a list of      *)
(* edits, all assignments or all modifications:                            *)
(*   assignment    name value | name:value | name=value   -> ("set", name, value)          *)
(*                 name*:value                            -> ("set.x0", name, value)        *)
(*                 name*k:value                           -> ("set.x1", name, value, k)     *)
(*                 &name=expr                             -> ("set", name, computed expr)   *)
(*   modification  name+v | name+=v  -> ("mod", name, v, "+")                               *)
(*                 name-=v           -> ("mod", name, v, "-=")                              *)
(*                 name-v            -> ("mod", name, v, "-")   (value sign-normalised)     *)
(* separated by nothing, blanks or a comma.  Spell(list) is the text in    *)
(* one accepted spelling; Expected(list) the callback sequence: one call   *)
(* per edit, in source order, with exactly the written name.               *)
(* Names and values come from small tables (Names, Values); the harness    *)
(* substitutes the real characters for the symbolic names.                 *)
(***************************************************************************)
EXTENDS Integers, Sequences, TLC

\* name table: [sym (placeholder in the spelling), text (what the callback must receive), quoted, ns (contains ':')]
Names == <<
  [sym |-> "<N1>", id |-> 1, quoted |-> FALSE, ns |-> FALSE],    \* CJK word
  [sym |-> "<N2>", id |-> 2, quoted |-> FALSE, ns |-> FALSE],    \* another CJK word
  [sym |-> "<N3>", id |-> 3, quoted |-> FALSE, ns |-> FALSE],    \* latin word
  [sym |-> "<N4>", id |-> 4, quoted |-> FALSE, ns |-> TRUE],     \* namespaced  skill:bow
  [sym |-> "<N5>", id |-> 5, quoted |-> TRUE,  ns |-> FALSE],    \* quoted, with a blank
  [sym |-> "<N6>", id |-> 6, quoted |-> TRUE,  ns |-> FALSE],    \* quoted, ending in a digit
  [sym |-> "<N7>", id |-> 7, quoted |-> FALSE, ns |-> FALSE]>>   \* latin word that begins like a dice operator (dex)

\* value table: written text, numeric value as a dyadic rational n/d, whether it is an int
Values == <<
  [src |-> "60",    n |-> 60, d |-> 1, int |-> TRUE],
  [src |-> "7",     n |-> 7,  d |-> 1, int |-> TRUE],
  [src |-> "0",     n |-> 0,  d |-> 1, int |-> TRUE],
  [src |-> "1.5",   n |-> 3,  d |-> 2, int |-> FALSE],
  [src |-> "2d1",   n |-> 2,  d |-> 1, int |-> TRUE],
  [src |-> "3d1k2", n |-> 2,  d |-> 1, int |-> TRUE],
  [src |-> "(1+2)", n |-> 3,  d |-> 1, int |-> TRUE],
  [src |-> "(2*3)", n |-> 6,  d |-> 1, int |-> TRUE],
  \* amounts below zero: "name-(1-3)" is the expression -(1-3) = 2, normalised back to the written amount -2 with op "-"
  \* (taking the magnitude instead of negating reports 2); likewise for a float
  [src |-> "(1-3)", n |-> 0 - 2, d |-> 1, int |-> TRUE],
  [src |-> "(0-1.5)", n |-> 0 - 3, d |-> 2, int |-> FALSE]>>

Mults == <<[src |-> "2", n |-> 2, d |-> 1, int |-> TRUE], [src |-> "1.5", n |-> 3, d |-> 2, int |-> FALSE], [src |-> "(3)", n |-> 3, d |-> 1, int |-> TRUE]>>

\* assignment forms: "j" juxtaposed, ":" , "=" , "x0" , "x1" , "c" computed (&name=)
AssignForms == {"j", ":", "=", "x0", "x1", "c"}
ModOps == {"+", "+=", "-=", "-"}

\* which (name, form) pairs the grammar accepts:
\*   the star forms and the computed form of a namespaced name are not accepted, quoted names cannot be namespaced
FormOK(nm, form) == ~(nm.ns /\ form \in {"x0", "x1"})

Sp(k) == CASE k = 0 -> "" [] k = 1 -> " " [] OTHER -> "  "

\* e: [kind "a", name, form, val, mult, sp] or [kind "m", name, op, val, sp]
SpellEdit(e) ==
  LET nm == Names[e.name]
      v  == Values[e.val] IN
  IF e.kind = "a"
  THEN CASE e.form = "j"  -> nm.sym \o v.src
         [] e.form = ":"  -> nm.sym \o Sp(e.sp) \o ":" \o Sp(e.sp) \o v.src
         [] e.form = "="  -> nm.sym \o Sp(e.sp) \o "=" \o Sp(e.sp) \o v.src
         [] e.form = "x0" -> nm.sym \o Sp(e.sp) \o "*" \o Sp(e.sp) \o ":" \o Sp(e.sp) \o v.src
         [] e.form = "x1" -> nm.sym \o Sp(e.sp) \o "*" \o Mults[e.mult].src \o Sp(e.sp) \o ":" \o Sp(e.sp) \o v.src
         [] e.form = "c"  -> "&" \o nm.sym \o Sp(e.sp) \o "=" \o Sp(e.sp) \o v.src
  ELSE CASE e.op = "+"  -> nm.sym \o Sp(e.sp) \o "+" \o Sp(e.sp) \o v.src
         [] e.op = "+=" -> nm.sym \o Sp(e.sp) \o "+=" \o Sp(e.sp) \o v.src
         [] e.op = "-=" -> nm.sym \o Sp(e.sp) \o "-=" \o Sp(e.sp) \o v.src
         [] e.op = "-"  -> nm.sym \o Sp(e.sp) \o "-" \o v.src

Separator(k) == CASE k = 0 -> "" [] k = 1 -> " " [] k = 2 -> "," [] k = 3 -> ", " [] OTHER -> " , "

RECURSIVE SpellList(_, _)
SpellList(es, i) == IF i > Len(es) THEN ""
                    ELSE SpellEdit(es[i]) \o (IF i < Len(es) THEN Separator(es[i].sep) ELSE "") \o SpellList(es, i + 1)
Spell(es) == "^st" \o SpellList(es, 1)

ExpectEdit(e) ==
  LET v == Values[e.val] IN
  IF e.kind = "a"
  THEN CASE e.form \in {"j", ":", "="} -> [type |-> "set", name |-> e.name, n |-> v.n, d |-> v.d, int |-> v.int, hasExtra |-> FALSE, en |-> 0, ed |-> 1, eint |-> TRUE, op |-> "", comp |-> FALSE, text |-> ""]
         [] e.form = "x0" -> [type |-> "set.x0", name |-> e.name, n |-> v.n, d |-> v.d, int |-> v.int, hasExtra |-> FALSE, en |-> 0, ed |-> 1, eint |-> TRUE, op |-> "", comp |-> FALSE, text |-> ""]
         [] e.form = "x1" -> [type |-> "set.x1", name |-> e.name, n |-> v.n, d |-> v.d, int |-> v.int, hasExtra |-> TRUE,
                              en |-> Mults[e.mult].n, ed |-> Mults[e.mult].d, eint |-> Mults[e.mult].int, op |-> "", comp |-> FALSE, text |-> ""]
         [] e.form = "c"  -> [type |-> "set", name |-> e.name, n |-> 0, d |-> 1, int |-> TRUE, hasExtra |-> FALSE, en |-> 0, ed |-> 1, eint |-> TRUE, op |-> "", comp |-> TRUE, text |-> v.src]
  ELSE \* the value of a modification is reported as a magnitude: "-v" is normalised to v with op "-"
       [type |-> "mod", name |-> e.name, n |-> v.n, d |-> v.d, int |-> v.int, hasExtra |-> FALSE, en |-> 0, ed |-> 1, eint |-> TRUE,
        op |-> IF e.op = "+=" THEN "+" ELSE e.op, comp |-> FALSE, text |-> IF e.op = "-" THEN "-" \o v.src ELSE v.src]

Expected(es) == [i \in 1..Len(es) |-> ExpectEdit(es[i])]
=============================================================================
