-------------------------------- MODULE Lang --------------------------------
(***************************************************************************)
(* Definitional semantics of the documented core of DiceScript, over ASTs. *)
(*                                                                         *)
(*   EvalE(e, S)  expressions      EvalS(s, S)  statements                 *)
(*   EvalBlock(ss, i, S, last)     statement lists                         *)
(*   RunProgram(p, S0)             what a host observes after Run          *)
(*                                                                         *)
(* S = [env, heap, faces, pos, fuel, cfg]:                                 *)
(*   env   stack of frames (heap addresses of name->value cells); frame 1  *)
(*         is the VM's variable map, a call pushes a fresh frame, loading  *)
(*         a computed value pushes its private attribute cell; names are   *)
(*         looked up from the innermost frame outwards, then built-ins     *)
(*   heap  arrays and dicts are cells, so aliasing is explicit             *)
(*   faces the die faces a random-mode run will see (position pos)         *)
(*   fuel  bounds calls and loop iterations; "nofuel" cases are dropped    *)
(*   cfg   [div0, mode]                                                    *)
(* every evaluator returns [sig, v, S] with sig in                         *)
(*   ok | err | break | continue | return | ood | nofuel                   *)
(*                                                                         *)
(* Named deviations from what a reader might expect, all documented by the *)
(* repository's tests or grammar: the value of an if/while statement is    *)
(* null ("" inside a template hole); && evaluates both operands; the       *)
(* multi-arm conditional yields "" when no arm fires; a local that holds   *)
(* null is looked up further out.                                          *)
(***************************************************************************)
EXTENDS Values, Dice

RECURSIVE EvalE(_, _), EvalArgs(_, _, _, _), EvalS(_, _), EvalBlock(_, _, _, _), Loop(_, _, _), EvalParts(_, _, _, _),
          EvalArms(_, _, _), EvalKV(_, _, _, _), LoadVar(_, _, _, _), CallFunc(_, _, _), CallMethod(_, _, _, _)

Sig(r) == r.sig
IsOk(r) == r.sig = "ok"

CurFrame(S) == S.env[Len(S.env)]

BuiltinNames == {"ceil", "floor", "round", "abs", "toInt", "toFloat", "toStr", "toBool", "repr", "typeId", "load", "loadRaw", "store"}

\* variable names are strings; frames keep them in ks as one-element tuples <<name>> so that cells have one shape
NameKey(n) == <<n>>

StoreVar(S, n, v) == SetCell(S, CurFrame(S), DictPut(Cell(S, CurFrame(S)), NameKey(n), v))

\* evaluate a computed value: its expression runs with the attribute cell as innermost frame
EvalComputed(cv, S, upto) ==
  IF S.fuel <= 0 THEN [sig |-> "nofuel", v |-> VNull, S |-> S]
  ELSE LET S1 == [S EXCEPT !.env = Append(SubSeq(S.env, 1, upto), cv.a), !.fuel = S.fuel - 1, !.tdepth = 0]
           r  == EvalE(cv.e, S1) IN
       IF r.sig \in {"break", "continue", "return"} THEN [sig |-> "ood", v |-> VNull, S |-> S]
       ELSE [r EXCEPT !.S = [r.S EXCEPT !.env = S.env, !.tdepth = S.tdepth]]

\* look a name up from frame i outwards; raw: do not evaluate computed values
LoadVar(n, S, i, raw) ==
  IF i = 0
  THEN IF n \in BuiltinNames THEN Ok(VNat(n), S) ELSE Ok(VNull, S)
  ELSE LET v == DictGet(Cell(S, S.env[i]), NameKey(n)) IN
       IF v.t = "null" THEN LoadVar(n, S, i - 1, raw)
       ELSE IF v.t = "comp" /\ ~raw THEN EvalComputed(v, S, i)
       ELSE Ok(v, S)

TypeId(v) == CASE v.t = "int" -> 0 [] v.t = "flt" -> 1 [] v.t = "str" -> 2 [] v.t = "null" -> 4 [] v.t = "comp" -> 5
               [] v.t = "arr" -> 6 [] v.t = "dict" -> 7 [] v.t = "func" -> 8 [] v.t = "nat" -> 9

\* digits-only decimal strings (optionally signed)
IsDigit(c) == c \in {"0", "1", "2", "3", "4", "5", "6", "7", "8", "9"}
DigitVal(c) == CHOOSE i \in 0..9 : ToString(i) = c
RECURSIVE ParseNat(_, _)
ParseNat(cs, acc) == IF cs = <<>> THEN acc ELSE ParseNat(Tail(cs), acc * 10 + DigitVal(Head(cs)))

CallNative(name, args, S) ==
  LET n == Len(args) IN
  IF name = "store"
  THEN IF n # 2 THEN Err(S)
       ELSE IF args[1].t # "str" THEN Err(S)
       ELSE IF Len(args[1].c) # 1 THEN Ood(S)
       ELSE Ok(args[2], StoreVar(S, args[1].c[1], args[2]))
  ELSE IF n # 1 THEN Err(S)
  ELSE LET a == args[1] IN
  CASE name \in {"ceil", "floor", "round"} ->
         IF a.t = "int" THEN Ok(a, S)
         ELSE IF a.t = "flt" THEN
              Ok(VInt(CASE name = "floor" -> a.n \div a.d
                        [] name = "ceil"  -> -((-a.n) \div a.d)
                        [] name = "round" -> Sgn(a.n) * ((2 * Abs(a.n) + a.d) \div (2 * a.d))), S)
         ELSE Err(S)
    [] name = "abs" -> IF a.t = "int" THEN Ok(VInt(Abs(a.v)), S)
                       ELSE IF a.t = "flt" THEN Ok([a EXCEPT !.n = Abs(a.n)], S) ELSE Err(S)
    [] name = "toInt" -> IF a.t = "int" THEN Ok(a, S)
                         ELSE IF a.t = "flt" THEN Ok(VInt(TDiv(a.n, a.d)), S)
                         ELSE IF a.t = "str"
                         THEN LET neg == a.c # <<>> /\ a.c[1] = "-"
                                  ds == IF neg THEN Tail(a.c) ELSE a.c IN
                              IF ds # <<>> /\ Len(ds) <= 6 /\ (\A i \in 1..Len(ds) : IsDigit(ds[i]))
                              THEN Ok(VInt((IF neg THEN -1 ELSE 1) * ParseNat(ds, 0)), S)
                              ELSE IF \E i \in 1..Len(a.c) : a.c[i] \in {"+", ".", "_", "e", "E", "x"} THEN Ood(S)
                              ELSE IF Len(ds) > 6 THEN Ood(S) ELSE Err(S)
                         ELSE Err(S)
    [] name = "toFloat" -> IF a.t = "int" THEN Ok(VFlt(a.v, 1), S)
                           ELSE IF a.t = "flt" THEN Ok(a, S)
                           ELSE IF a.t = "str" THEN Ood(S) ELSE Err(S)
    [] name = "toStr" -> LET s == StrOf(a, S, FALSE) IN IF s.ok THEN Ok(VStr(s.c), S) ELSE Ood(S)
    [] name = "repr"  -> LET s == StrOf(a, S, TRUE) IN IF s.ok THEN Ok(VStr(s.c), S) ELSE Ood(S)
    [] name = "toBool" -> Ok(B2I(Truthy(a, S)), S)
    [] name = "typeId" -> Ok(VInt(TypeId(a)), S)
    [] name \in {"load", "loadRaw"} ->
         IF a.t # "str" THEN Err(S)
         ELSE IF Len(a.c) # 1 THEN Ood(S)
         ELSE LoadVar(a.c[1], S, Len(S.env), name = "loadRaw")

\* user function: fresh frame holding the parameters; the value is that of `return`, else of the last statement
CallFunc(f, args, S) ==
  IF Len(f.ps) # Len(args) THEN Err(S)
  ELSE IF S.fuel <= 0 THEN [sig |-> "nofuel", v |-> VNull, S |-> S]
  ELSE LET frame == [ks |-> [i \in 1..Len(f.ps) |-> NameKey(f.ps[i])], vs |-> args]
           S1 == Alloc(S, frame)
           S2 == [S1 EXCEPT !.env = Append(S.env, Len(S1.heap)), !.fuel = S.fuel - 1, !.tdepth = 0]
           r  == EvalBlock(f.b, 1, S2, VNull)
           back == [r.S EXCEPT !.env = S.env, !.tdepth = S.tdepth] IN
       CASE r.sig \in {"ok", "return"} -> Ok(r.v, back)
         [] r.sig \in {"break", "continue"} -> Ood(back)     \* jumping out of a function body: not in the core
         [] OTHER -> [r EXCEPT !.S = back]

NumericOnly(xs) == SelectSeq(xs, LAMBDA x : IsNum(x))

\* sum of the k largest (desc = TRUE) or smallest numeric elements
KeepSum(xs, k, desc, S) ==
  LET nums == NumericOnly(xs)
      allInt == \A i \in 1..Len(nums) : nums[i].t = "int" IN
  IF ~allInt THEN Ood(S)
  ELSE LET vals == [i \in 1..Len(nums) |-> nums[i].v]
           sorted == IF desc THEN Desc(vals) ELSE Asc(vals)
           take == IF k < 0 THEN 0 ELSE IF k > Len(sorted) THEN Len(sorted) ELSE k IN
       OkNum(VInt(SumSeq(SubSeq(sorted, 1, take))), S)

\* items(): one fresh two-element array per entry
RECURSIVE PairArrays(_, _, _, _, _)
PairArrays(S, cell, idx, k, acc) ==
  IF k > Len(idx) THEN [S |-> S, xs |-> acc]
  ELSE LET a == NewArr(S, <<VStr(cell.ks[idx[k]]), cell.vs[idx[k]]>>) IN
       PairArrays(a.S, cell, idx, k + 1, Append(acc, a.v))
Chars3(m) == CASE m = "keys" -> <<"k", "e", "y", "s">> [] m = "values" -> <<"v", "a", "l", "u", "e", "s">> [] OTHER -> <<"i", "t", "e", "m", "s">>
CallMethod(o, m, args, S) ==
  LET n == Len(args) IN
  IF o.t = "arr" THEN
    LET xs == Cell(S, o.a).xs IN
    CASE m = "len"   -> IF n # 0 THEN Err(S) ELSE Ok(VInt(Len(xs)), S)
      [] m = "sum"   -> IF n # 0 THEN Err(S)
                        ELSE LET nums == NumericOnly(xs) IN
                             IF \A i \in 1..Len(nums) : nums[i].t = "int"
                             THEN OkNum(VInt(SumSeq([i \in 1..Len(nums) |-> nums[i].v])), S)
                             ELSE Ood(S)
      [] m \in {"kh", "kl"} ->
                        IF n > 1 THEN Err(S)
                        ELSE IF n = 1 /\ args[1].t # "int" THEN Err(S)
                        ELSE KeepSum(xs, IF n = 1 THEN args[1].v ELSE 1, m = "kh", S)
      [] m = "push"  -> IF n # 1 THEN Err(S)
                        ELSE IF Len(xs) >= MaxArr THEN Ood(S)
                        ELSE Ok(o, SetCell(S, o.a, [xs |-> Append(xs, args[1])]))
      [] m = "pop"   -> IF n # 0 THEN Err(S)
                        ELSE IF xs = <<>> THEN Ok(VNull, S)
                        ELSE Ok(xs[Len(xs)], SetCell(S, o.a, [xs |-> SubSeq(xs, 1, Len(xs) - 1)]))
      [] m = "shift" -> IF n # 0 THEN Err(S)
                        ELSE IF xs = <<>> THEN Ok(VNull, S)
                        ELSE Ok(xs[1], SetCell(S, o.a, [xs |-> Tail(xs)]))
      [] OTHER -> Ood(S)
  ELSE IF o.t = "dict" THEN
    LET cell == Cell(S, o.a)
        idx == KeyOrder(cell) IN
    CASE m = "len" -> IF n # 0 THEN Err(S) ELSE Ok(VInt(Len(cell.ks)), S)
      \* walks in key order; an own entry or a prototype entry of that name would shadow the method: outside the domain
      [] m \in {"keys", "values", "items"} ->
           IF n # 0 THEN Err(S)
           ELSE IF ~Walkable(cell) \/ Len(cell.ks) > 8 \/ DictHas(cell, ProtoKey) \/ DictHas(cell, Chars3(m)) THEN Ood(S)
           ELSE IF m = "keys" THEN NewArr(S, [i \in 1..Len(idx) |-> VStr(cell.ks[idx[i]])])
           ELSE IF m = "values" THEN NewArr(S, [i \in 1..Len(idx) |-> cell.vs[idx[i]]])
           ELSE LET r == PairArrays(S, cell, idx, 1, <<>>) IN NewArr(r.S, r.xs)
      [] OTHER -> Ood(S)
  ELSE IF o.t \in {"int", "flt", "str", "null"} THEN Err(S)     \* no attributes on these types
  ELSE Ood(S)

\* dice terms in the deterministic modes, or with the faces the run will see
EvalDice(e, S) ==
  IF e.fam = "common"
  THEN IF ~CommonLegal(e.times, e.sides, e.kind, e.cnt) THEN Err(S)
       ELSE IF S.cfg.mode = -1 THEN Ok(VInt(CommonAllLow(e.times, e.kind, e.cnt, e.mn, e.mx)), S)
       ELSE IF S.cfg.mode = 1 THEN Ok(VInt(CommonAllHigh(e.times, e.sides, e.kind, e.cnt, e.mn, e.mx)), S)
       ELSE IF S.pos + e.times - 1 > Len(S.faces) THEN Ood(S)
       ELSE Ok(VInt(Common(SubSeq(S.faces, S.pos, S.pos + e.times - 1), e.kind, e.cnt, e.mn, e.mx).total),
               [S EXCEPT !.pos = S.pos + e.times])
  ELSE Ood(S)

EvalArgs(es, i, S, acc) ==
  IF i > Len(es) THEN Ok(acc, S)
  ELSE LET r == EvalE(es[i], S) IN
       IF ~IsOk(r) THEN r ELSE EvalArgs(es, i + 1, r.S, Append(acc, r.v))

\* template parts: literals and holes; a hole is a statement list run in the current frame
EvalParts(ps, i, S, acc) ==
  IF i > Len(ps) THEN Ok(VStr(acc), S)
  ELSE IF ps[i].k = "lit" THEN EvalParts(ps, i + 1, S, acc \o ps[i].c)
  ELSE LET r == EvalBlock(ps[i].body, 1, [S EXCEPT !.tdepth = S.tdepth + 1], VStr(<<>>)) IN
       IF r.sig \in {"break", "continue", "return"} THEN Ood(S)
       ELSE IF ~IsOk(r) THEN r
       ELSE LET s == StrOf(r.v, r.S, FALSE) IN
            IF ~s.ok THEN Ood(S)
            ELSE EvalParts(ps, i + 1, [r.S EXCEPT !.tdepth = S.tdepth], acc \o s.c)

EvalArms(arms, i, S) ==
  IF i > Len(arms) THEN Ok(VStr(<<>>), S)
  ELSE LET c == EvalE(arms[i].c, S) IN
       IF ~IsOk(c) THEN c
       ELSE IF Truthy(c.v, c.S) THEN EvalE(arms[i].a, c.S)
       ELSE EvalArms(arms, i + 1, c.S)

EvalKV(kvs, i, S, cell) ==
  IF i > Len(kvs) THEN LET S2 == Alloc(S, cell) IN Ok(VRef("dict", Len(S2.heap)), S2)
  ELSE LET k == EvalE(kvs[i].key, S) IN
       IF ~IsOk(k) THEN k
       ELSE LET v == EvalE(kvs[i].val, k.S) IN
            IF ~IsOk(v) THEN v
            ELSE LET kk == KeyOf(k.v) IN
                 \* every key and value is evaluated before the dict is built, so a bad key fails last
                 EvalKV(kvs, i + 1, v.S, IF kk.ok THEN DictPut(cell, kk.c, v.v) ELSE [cell EXCEPT !.ks = Append(cell.ks, <<"BADKEY">>), !.vs = Append(cell.vs, VNull)])

HasBadKey(cell) == \E i \in 1..Len(cell.ks) : cell.ks[i] = <<"BADKEY">>

EvalE(e, S) ==
  CASE e.k = "int"  -> Ok(VInt(e.v), S)
    [] e.k = "flt"  -> Ok(VFlt(e.n, e.d), S)
    [] e.k = "str"  -> Ok(VStr(e.c), S)
    [] e.k = "null" -> Ok(VNull, S)
    [] e.k = "var"  -> LoadVar(e.n, S, Len(S.env), FALSE)
    [] e.k = "raw"  -> LoadVar(e.n, S, Len(S.env), TRUE)
    [] e.k = "this" -> \* this.n: the innermost frame only
         LET v == DictGet(Cell(S, CurFrame(S)), NameKey(e.n)) IN
         IF v.t = "comp" THEN EvalComputed(v, S, Len(S.env)) ELSE Ok(v, S)
    [] e.k = "un" -> LET r == EvalE(e.e, S) IN IF ~IsOk(r) THEN r ELSE UnOp(e.op, r.v, r.S)
    [] e.k = "bin" ->
         LET l == EvalE(e.l, S) IN
         IF ~IsOk(l) THEN l
         ELSE LET r == EvalE(e.r, l.S) IN
              IF ~IsOk(r) THEN r ELSE BinOp(e.op, l.v, r.v, r.S, S.cfg)
    [] e.k = "and" ->  \* eager: both operands are evaluated
         LET l == EvalE(e.l, S) IN
         IF ~IsOk(l) THEN l
         ELSE LET r == EvalE(e.r, l.S) IN
              IF ~IsOk(r) THEN r ELSE Ok(IF Truthy(l.v, r.S) THEN r.v ELSE l.v, r.S)
    [] e.k = "or" ->   \* lazy
         LET l == EvalE(e.l, S) IN
         IF ~IsOk(l) THEN l ELSE IF Truthy(l.v, l.S) THEN l ELSE EvalE(e.r, l.S)
    [] e.k = "tern" ->
         LET c == EvalE(e.c, S) IN
         IF ~IsOk(c) THEN c ELSE IF Truthy(c.v, c.S) THEN EvalE(e.a, c.S) ELSE EvalE(e.b, c.S)
    [] e.k = "multi" -> EvalArms(e.arms, 1, S)
    [] e.k = "arr" ->
         LET r == EvalArgs(e.xs, 1, S, <<>>) IN IF ~IsOk(r) THEN r ELSE NewArr(r.S, r.v)
    [] e.k = "range" ->
         LET a == EvalE(e.a, S) IN
         IF ~IsOk(a) THEN a
         ELSE LET b == EvalE(e.b, a.S) IN
              IF ~IsOk(b) THEN b
              ELSE IF a.v.t # "int" \/ b.v.t # "int" THEN Err(b.S)
              ELSE LET n == Abs(b.v.v - a.v.v) + 1
                       step == IF b.v.v >= a.v.v THEN 1 ELSE -1 IN
                   IF n > MaxArr THEN Err(b.S)
                   ELSE NewArr(b.S, [i \in 1..n |-> VInt(a.v.v + step * (i - 1))])
    [] e.k = "dict" ->
         LET r == EvalKV(e.kv, 1, S, EmptyDictCell) IN
         IF ~IsOk(r) THEN r
         ELSE IF HasBadKey(Cell(r.S, r.v.a)) THEN Err(r.S) ELSE r
    [] e.k = "idx" ->
         LET o == EvalE(e.o, S) IN
         IF ~IsOk(o) THEN o
         ELSE LET i == EvalE(e.i, o.S) IN IF ~IsOk(i) THEN i ELSE ItemGet(o.v, i.v, i.S)
    [] e.k = "slice" ->
         LET o == EvalE(e.o, S) IN
         IF ~IsOk(o) THEN o
         ELSE LET a == EvalE(e.a, o.S) IN
              IF ~IsOk(a) THEN a
              ELSE LET b == EvalE(e.b, a.S) IN IF ~IsOk(b) THEN b ELSE SliceGet(o.v, a.v, b.v, b.S)
    [] e.k = "attr" ->
         LET o == EvalE(e.o, S) IN
         IF ~IsOk(o) THEN o
         ELSE IF o.v.t = "dict" THEN Ok(ProtoGet(o.S, o.v.a, e.nc, {o.v.a}), o.S)
         ELSE IF o.v.t \in {"int", "flt", "str", "null"} THEN Err(o.S)
         ELSE Ood(o.S)
    [] e.k = "call" ->
         LET f == LoadVar(e.f, S, Len(S.env), FALSE) IN
         IF ~IsOk(f) THEN f
         ELSE LET args == EvalArgs(e.args, 1, f.S, <<>>) IN
              IF ~IsOk(args) THEN args
              ELSE IF f.v.t = "func" THEN CallFunc(f.v, args.v, args.S)
              ELSE IF f.v.t = "nat" THEN CallNative(f.v.n, args.v, args.S)
              ELSE Err(args.S)
    [] e.k = "mcall" ->
         LET o == EvalE(e.o, S) IN
         IF ~IsOk(o) THEN o
         ELSE IF o.v.t \in {"int", "flt", "str", "null"} THEN Err(o.S)     \* attr.get fails before the arguments run
         ELSE LET args == EvalArgs(e.args, 1, o.S, <<>>) IN
              IF ~IsOk(args) THEN args ELSE CallMethod(o.v, e.m, args.v, args.S)
    [] e.k = "tmpl" -> EvalParts(e.parts, 1, S, <<>>)
    [] e.k = "dice" -> EvalDice(e, S)
    [] e.k = "assign" ->
         LET r == EvalE(e.e, S) IN IF ~IsOk(r) THEN r ELSE Ok(r.v, StoreVar(r.S, e.n, r.v))
    [] e.k = "assignThis" ->
         LET r == EvalE(e.e, S) IN IF ~IsOk(r) THEN r ELSE Ok(r.v, StoreVar(r.S, e.n, r.v))
    [] e.k = "assignIdx" ->   \* target, index, then value
         LET o == EvalE(e.o, S) IN
         IF ~IsOk(o) THEN o
         ELSE LET i == EvalE(e.i, o.S) IN
              IF ~IsOk(i) THEN i
              ELSE LET v == EvalE(e.e, i.S) IN IF ~IsOk(v) THEN v ELSE ItemSet(o.v, i.v, v.v, v.S)
    [] e.k = "assignAttr" ->  \* value first, then the object is loaded
         LET v == EvalE(e.e, S) IN
         IF ~IsOk(v) THEN v
         ELSE LET o == LoadVar(e.n, v.S, Len(v.S.env), FALSE) IN
              IF ~IsOk(o) THEN o
              ELSE IF o.v.t = "dict" THEN Ok(v.v, SetCell(o.S, o.v.a, DictPut(Cell(o.S, o.v.a), e.ac, v.v)))
              ELSE IF o.v.t \in {"int", "flt", "str", "null", "arr", "func", "nat"} THEN Err(o.S)
              ELSE Ood(o.S)
    [] e.k = "assignSlice" ->
         LET o == EvalE(e.o, S) IN
         IF ~IsOk(o) THEN o
         ELSE LET a == EvalE(e.a, o.S) IN
              IF ~IsOk(a) THEN a
              ELSE LET b == EvalE(e.b, a.S) IN
                   IF ~IsOk(b) THEN b
                   ELSE LET v == EvalE(e.e, b.S) IN IF ~IsOk(v) THEN v ELSE SliceSet(o.v, a.v, b.v, v.v, v.S)
    [] e.k = "computed" ->   \* &n = expr: stores the expression, with a fresh private attribute cell
         LET S1 == Alloc(S, EmptyDictCell)
             cv == [t |-> "comp", e |-> e.e, a |-> Len(S1.heap)] IN
         Ok(cv, StoreVar(S1, e.n, cv))
    [] e.k = "computedAttr" ->   \* &n.a = expr
         LET v == EvalE(e.e, S) IN
         IF ~IsOk(v) THEN v
         ELSE LET o == LoadVar(e.n, v.S, Len(v.S.env), TRUE) IN
              IF o.v.t = "comp" THEN Ok(v.v, SetCell(o.S, o.v.a, DictPut(Cell(o.S, o.v.a), NameKey(e.a), v.v)))
              ELSE IF o.v.t = "dict" THEN Ok(v.v, SetCell(o.S, o.v.a, DictPut(Cell(o.S, o.v.a), e.ac, v.v)))
              ELSE IF o.v.t \in {"int", "flt", "str", "null", "arr", "func", "nat"} THEN Err(o.S)
              ELSE Ood(o.S)

\* statements; `last` is the value the enclosing list would yield so far
EvalS(s, S) ==
  CASE s.k = "expr" -> EvalE(s.e, S)
    [] s.k = "if" ->
         LET c == EvalE(s.c, S) IN
         IF ~IsOk(c) THEN c
         ELSE LET r == IF Truthy(c.v, c.S) THEN EvalBlock(s.t, 1, c.S, VNull) ELSE EvalBlock(s.e, 1, c.S, VNull) IN
              IF IsOk(r) THEN Ok(IF S.tdepth > 0 THEN VStr(<<>>) ELSE VNull, r.S) ELSE r
    [] s.k = "while" ->
         LET r == Loop(s, S, S.cfg.loopmax) IN
         IF IsOk(r) THEN Ok(IF S.tdepth > 0 THEN VStr(<<>>) ELSE VNull, r.S) ELSE r
    [] s.k = "break"    -> [sig |-> "break", v |-> VNull, S |-> S]
    [] s.k = "continue" -> [sig |-> "continue", v |-> VNull, S |-> S]
    [] s.k = "return" ->
         IF s.has THEN LET r == EvalE(s.e, S) IN IF ~IsOk(r) THEN r ELSE [sig |-> "return", v |-> r.v, S |-> r.S]
         ELSE [sig |-> "return", v |-> VNull, S |-> S]
    [] s.k = "func" ->
         LET fv == [t |-> "func", n |-> s.n, ps |-> s.ps, b |-> s.b] IN Ok(fv, StoreVar(S, s.n, fv))

Loop(s, S, left) ==
  IF left <= 0 THEN [sig |-> "nofuel", v |-> VNull, S |-> S]
  ELSE LET c == EvalE(s.c, S) IN
       IF ~IsOk(c) THEN c
       ELSE IF ~Truthy(c.v, c.S) THEN Ok(VNull, c.S)
       ELSE LET r == EvalBlock(s.b, 1, c.S, VNull) IN
            CASE r.sig \in {"ok", "continue"} -> Loop(s, r.S, left - 1)
              [] r.sig = "break" -> Ok(VNull, r.S)
              [] OTHER -> r

EvalBlock(ss, i, S, last) ==
  IF i > Len(ss) THEN Ok(last, S)
  ELSE LET r == EvalS(ss[i], S) IN
       IF ~IsOk(r) THEN r ELSE EvalBlock(ss, i + 1, r.S, r.v)

-----------------------------------------------------------------------------
(* Host view *)

InitState(cfg, faces) ==
  [env |-> <<1>>, heap |-> <<EmptyDictCell>>, faces |-> faces, pos |-> 1, fuel |-> cfg.fuel, cfg |-> cfg, tdepth |-> 0]

\* a value as the harness projects it (references resolved; depth-bounded by construction)
RECURSIVE Deref(_, _)
Deref(v, S) ==
  CASE v.t = "arr"  -> LET xs == Cell(S, v.a).xs IN [t |-> "arr", xs |-> [i \in 1..Len(xs) |-> Deref(xs[i], S)]]
    [] v.t = "dict" -> LET c == Cell(S, v.a) IN
                       [t |-> "dict", ks |-> c.ks, vs |-> [i \in 1..Len(c.ks) |-> Deref(c.vs[i], S)]]
    [] v.t = "func" -> [t |-> "func", n |-> v.n]
    [] v.t = "comp" -> [t |-> "comp"]
    [] v.t = "nat"  -> [t |-> "nat", n |-> v.n]
    [] OTHER -> v

\* outcome of running a program (a statement list) in state S: a "return" at top level ends the program
RunProgram(p, S) ==
  LET r == EvalBlock(p, 1, [S EXCEPT !.fuel = S.cfg.fuel], VNull) IN
  CASE r.sig \in {"ok", "return"} ->
         IF TooDeep(r.v, r.S) \/ (\E i \in 1..Len(Cell(r.S, 1).vs) : TooDeep(Cell(r.S, 1).vs[i], r.S))
         THEN [sig |-> "ood", v |-> VNull, S |-> r.S]
         ELSE [sig |-> "ok", v |-> Deref(r.v, r.S), S |-> r.S]
    [] r.sig = "err" -> IF \E i \in 1..Len(Cell(r.S, 1).vs) : TooDeep(Cell(r.S, 1).vs[i], r.S)
                        THEN [sig |-> "ood", v |-> VNull, S |-> r.S]
                        ELSE [sig |-> "err", v |-> VNull, S |-> r.S]
    [] OTHER -> [sig |-> "ood", v |-> VNull, S |-> r.S]

\* the variables of the VM after the run
VarsOf(S) == LET c == Cell(S, 1) IN [i \in 1..Len(c.ks) |-> [n |-> c.ks[i][1], v |-> Deref(c.vs[i], S)]]
=============================================================================
