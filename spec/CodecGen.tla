------------------------------ MODULE CodecGen ------------------------------
(* The document space of Codec, depth <= 1 completely (depth 2 on request) (every tag x every shape, containers holding every depth-0 document),
   plus variable-map documents; written as symbolic descriptions that the harness renders to JSON text. *)
EXTENDS Codec, Json, IOUtils, TLC
D0 == [i \in 1..(Len(Tags) * Len(Shapes)) |->
         [tag |-> Tags[((i - 1) \div Len(Shapes)) + 1], shape |-> Shapes[((i - 1) % Len(Shapes)) + 1], child |-> <<>>]]
Leaf == SelectSeq(D0, LAMBDA d : ~NeedsChild(d.shape))
Nesting == SelectSeq(D0, LAMBDA d : NeedsChild(d.shape))
D1 == [i \in 1..(Len(Nesting) * Len(Leaf)) |->
         [Nesting[((i - 1) \div Len(Leaf)) + 1] EXCEPT !.child = <<Leaf[((i - 1) % Len(Leaf)) + 1]>>]]
\* depth 2: every nesting document around every depth-1 document (thorough tier; the check samples it by stride)
D2 == [i \in 1..(Len(Nesting) * Len(D1)) |->
         [Nesting[((i - 1) \div Len(D1)) + 1] EXCEPT !.child = <<D1[((i - 1) % Len(D1)) + 1]>>]]
VARIABLE k
Init == k = 0
Next == /\ k = 0
        /\ ndJsonSerialize(IOEnv.OUT \o ".0", Leaf)
        /\ ndJsonSerialize(IOEnv.OUT \o ".1", D1)
        /\ (IOEnv.DEPTH2 = "1" => ndJsonSerialize(IOEnv.OUT \o ".2", D2))
        /\ k' = 1
Spec == Init /\ [][Next]_k
=============================================================================
