----------------------------- MODULE DiceCheck -----------------------------
(***************************************************************************)
(* The per-evaluation checks of the dice families (what was rolled, what   *)
(* was returned, what was displayed) against the rules of Dice.tla.        *)
(* Shared by Trace_Dice (C04, C15) and Trace_Detail (C14).                 *)
(***************************************************************************)
EXTENDS Dice

FacesOf(e) == [i \in 1..Len(e.rolls) |-> e.rolls[i].f]

\* every Roll call of the term: right die, right mode, face in range, mode semantics
RollOK(r, sides, mode) ==
  /\ r.s = sides /\ r.m = mode
  /\ r.f >= 1 /\ r.f <= sides
  /\ (mode = -1 => r.f = 1)
  /\ (mode = 1 => r.f = sides)

AllRolls(e, sides) == \A i \in 1..Len(e.rolls) : RollOK(e.rolls[i], sides, e.mode)

OwnSource(e) == (e.via = "vm" /\ e.mode = 0) => \A i \in 1..Len(e.rolls) : e.rolls[i].o /\ ~e.rolls[i].g

Failed(e) == e.err \/ e.panic

Tag(c, t) == IF c THEN {} ELSE {t}

CheckCommon(e) ==
  LET p == e.p IN
  IF ~CommonLegal(p.times, p.sides, p.kind, p.cnt)
  THEN IF e.via = "vm" THEN Tag(e.err /\ ~e.panic, "illegal-accepted") ELSE {}
  ELSE IF Failed(e) THEN {"legal-rejected"}
  ELSE LET c == Common(FacesOf(e), p.kind, p.cnt, p.mn, p.mx) IN
       Tag(Len(e.rolls) = p.times /\ AllRolls(e, p.sides), "rolls")
       \cup Tag(e.total = c.total, "total")
       \cup Tag(e.via = "vm" => e.shown.has, "no-detail")
       \cup Tag(e.shown.has => (e.shown.parsed /\ Asc(e.shown.kept) = Asc(c.kept) /\ Asc(e.shown.dropped) = Asc(c.dropped)), "shown")

CheckFate(e) ==
  IF Failed(e) THEN {"legal-rejected"}
  ELSE Tag(Len(e.rolls) = 4 /\ AllRolls(e, 3), "rolls")
       \cup Tag(e.total = Fate(FacesOf(e)), "total")
       \cup Tag(e.shown.has => (e.shown.parsed /\ e.shown.sym = [i \in 1..Len(e.rolls) |-> e.rolls[i].f - 2]), "shown")

CheckCoC(e) ==
  LET p == e.p IN
  IF ~CocLegal(p.n)
  THEN IF e.via = "vm" THEN Tag(e.err /\ ~e.panic, "illegal-accepted") ELSE {}
  ELSE IF Failed(e) THEN {"legal-rejected"}
  ELSE LET fs == FacesOf(e)
           rollsOK == /\ Len(e.rolls) = p.n + 1
                      /\ RollOK(e.rolls[1], 100, e.mode)
                      /\ \A i \in 2..Len(e.rolls) : RollOK(e.rolls[i], 10, e.mode)
           tens == IF e.mode = 0 THEN Tail(fs) ELSE CocModeTens(p.n)
       IN Tag(rollsOK, "rolls")
          \cup (IF ~rollsOK THEN {} ELSE
                Tag(e.total = CoC(fs[1], tens, p.bonus), "total")
                \cup Tag(e.shown.has => (e.shown.parsed /\ e.shown.d100 = fs[1]
                                         /\ e.shown.digits = [i \in 1..p.n |-> Digit(tens[i])]), "shown"))

MarksOK(shown, dice, add, thr, isGE, isWod) ==
  /\ Len(shown) = Len(dice)
  /\ \A r \in 1..Len(dice) :
       /\ Len(shown[r]) = Len(dice[r])
       /\ \A i \in 1..Len(dice[r]) :
            /\ shown[r][i].f = dice[r][i]
            /\ shown[r][i].a = (add # 0 /\ dice[r][i] >= add)
            /\ isWod => shown[r][i].s = (IF isGE THEN dice[r][i] >= thr ELSE dice[r][i] <= thr)

\* the implementation hides the dice of big pools; that elision is allowed, nothing else is
MayHide(pool, total) == pool >= 15 \/ total > 100

CheckWoD(e) ==
  LET p == e.p IN
  IF ~WodLegal(p.pool, p.add, p.sides, p.thr)
  THEN IF e.via = "vm" THEN Tag(e.err /\ ~e.panic, "illegal-accepted") ELSE {}
  ELSE IF Failed(e) THEN {"legal-rejected"}
  ELSE LET r == WoD(FacesOf(e), p.pool, p.add, p.thr, p.ge) IN
       Tag(AllRolls(e, p.sides) /\ ~r.short /\ r.used = Len(e.rolls), "rolls")
       \cup Tag(e.total = r.succ, "total")
       \cup Tag(e.shown.has => (e.shown.parsed /\ e.shown.succ = r.succ /\ e.shown.tot = r.total /\ e.shown.nr = r.rounds), "shown-header")
       \cup Tag((e.shown.has /\ e.shown.parsed) =>
                  IF e.shown.hidden THEN MayHide(p.pool, r.total)
                  ELSE MarksOK(e.shown.rounds, r.dice, p.add, p.thr, p.ge, TRUE), "shown")

CheckDC(e) ==
  LET p == e.p IN
  IF ~DcLegal(p.pool, p.add, p.sides)
  THEN IF e.via = "vm" THEN Tag(e.err /\ ~e.panic, "illegal-accepted") ELSE {}
  ELSE IF Failed(e) THEN {"legal-rejected"}
  ELSE LET r == DC(FacesOf(e), p.pool, p.add) IN
       Tag(AllRolls(e, p.sides) /\ ~r.short /\ r.used = Len(e.rolls), "rolls")
       \cup Tag(e.total = r.value, "total")
       \cup Tag(e.shown.has => (e.shown.parsed /\ e.shown.succ = r.value /\ e.shown.tot = r.total /\ e.shown.nr = r.rounds), "shown-header")
       \cup Tag((e.shown.has /\ e.shown.parsed) =>
                  IF e.shown.hidden THEN MayHide(p.pool, r.total)
                  ELSE MarksOK(e.shown.rounds, r.dice, p.add, 0, TRUE, FALSE), "shown")

Illegal(e) ==
  LET p == e.p IN
  CASE e.fam = "common" -> ~CommonLegal(p.times, p.sides, p.kind, p.cnt)
    [] e.fam = "fate"   -> FALSE
    [] e.fam = "coc"    -> ~CocLegal(p.n)
    [] e.fam = "wod"    -> ~WodLegal(p.pool, p.add, p.sides, p.thr)
    [] e.fam = "dc"     -> ~DcLegal(p.pool, p.add, p.sides)

Check(e) ==
  IF Illegal(e)
  THEN (CASE e.fam = "common" -> CheckCommon(e) [] e.fam = "coc" -> CheckCoC(e)
          [] e.fam = "wod" -> CheckWoD(e) [] e.fam = "dc" -> CheckDC(e))
  ELSE
  (CASE e.fam = "common" -> CheckCommon(e)
     [] e.fam = "fate"   -> CheckFate(e)
     [] e.fam = "coc"    -> CheckCoC(e)
     [] e.fam = "wod"    -> CheckWoD(e)
     [] e.fam = "dc"     -> CheckDC(e))
  \cup Tag(OwnSource(e), "foreign-source")                    \* C06: all randomness from the context's generator
  \cup Tag(e.mode # 0 => ~e.rngMoved, "mode-consumed-randomness")  \* C15
  \cup Tag(~e.short, "wanted-more-dice")
  \* C15 on the real package: the same term evaluated in min- and max-mode brackets this outcome
  \cup Tag(e.hasLo => e.lo <= e.total, "below-min-mode")
  \cup Tag(e.hasHi => e.total <= e.hi, "above-max-mode")

\* C15: an expression k0 + sum coef_i * term_i with coef_i >= 0 over XdY / Fate / CoC terms
TermLo(pt) == CASE pt.fam = "common" -> CommonAllLow(pt.p.times, pt.p.kind, pt.p.cnt, pt.p.mn, pt.p.mx)
                [] pt.fam = "fate"   -> -4
                [] pt.fam = "coc"    -> 1
TermHi(pt) == CASE pt.fam = "common" -> CommonAllHigh(pt.p.times, pt.p.sides, pt.p.kind, pt.p.cnt, pt.p.mn, pt.p.mx)
                [] pt.fam = "fate"   -> 4
                [] pt.fam = "coc"    -> 100

CheckExpr(e) ==
  IF e.err THEN {"legal-rejected"}
  ELSE LET lo == e.konst + SumSeq([i \in 1..Len(e.parts) |-> e.parts[i].coef * TermLo(e.parts[i])])
           hi == e.konst + SumSeq([i \in 1..Len(e.parts) |-> e.parts[i].coef * TermHi(e.parts[i])])
       IN Tag(e.lo = lo, "min-mode-value")          \* bounds attained and equal to the closed forms
          \cup Tag(e.hi = hi, "max-mode-value")
          \cup Tag(\A i \in 1..Len(e.vals) : e.lo <= e.vals[i], "below-min-mode")
          \cup Tag(\A i \in 1..Len(e.vals) : e.vals[i] <= e.hi, "above-max-mode")
          \cup Tag(~e.loMoved /\ ~e.hiMoved /\ e.loRolls = 0 /\ e.hiRolls = 0, "mode-consumed-randomness")

CheckAny(e) == IF e.ev = "expr" THEN CheckExpr(e) ELSE Check(e)

=============================================================================
