----------------------------- MODULE Trace_Gate -----------------------------
(***************************************************************************)
(* C16: observations of the real parser/VM against the gate specification  *)
(* (spec/Gate.tla).  One event = one input run on a VM whose configuration *)
(* is cfg (events with equal observations are merged by the harness, with  *)
(* a count and an example):                                                *)
(*   macroOn   families for which the text holds an enabling macro line    *)
(*   prior     families enabled by macros of EARLIER inputs of the same VM *)
(*   emis      classes of gated instructions emitted while parsing, each   *)
(*             with the value of its gating flag in the parser's copy at   *)
(*             the moment of emission (hook H4, all nested compilations)   *)
(*   listing   classes present in the final listing incl. nested bodies    *)
(*   executed  classes dispatched at any depth (hook H1)                   *)
(*   cfgAfter  the VM's configuration after the run                        *)
(*   pred/obs  for replayed behaviours of Gate: what the specification     *)
(*             says each item becomes / what the listing shows             *)
(*   lazyPred/lazyObs  families the specification predicts to be compiled  *)
(*             in lazily compiled text / families executed in nested VMs   *)
(*   identLike/claim/identLoaded  identifier-shaped spellings              *)
(***************************************************************************)
EXTENDS Naturals, Sequences, FiniteSets, TLC, Json, IOUtils

Trace == ndJsonDeserialize(IOEnv.TRACE)
VARIABLES l, bad

Fam == {"coc", "wod", "fate", "doublecross"}
StmtClasses == {"func", "block", "loop"}
Tag(ok, t) == IF ok THEN {} ELSE {t}
ToSet(s) == {s[i] : i \in 1..Len(s)}

Flag(c, f) == CASE f = "coc" -> c.coc [] f = "wod" -> c.wod [] f = "fate" -> c.fate [] f = "doublecross" -> c.doublecross

\* the families an input may reach: Gate!FamilyGated
Reachable(e) == {f \in Fam : Flag(e.cfg, f)} \cup ToSet(e.macroOn)

CheckGate(e) ==
  LET listing == ToSet(e.listing)
      executed == ToSet(e.executed) IN
  \* (a run that panics is C01's business; whatever it did observe is still checked here)
  \* Gate!CfgStable, Gate!MacroScoped
  Tag(e.cfgAfter = e.cfg, "config-changed")
  \* every gated alternative consulted the parser's copy: nothing is emitted while its flag is off
  \cup Tag(\A i \in 1..Len(e.emis) : e.emis[i].on, "emitted-while-off")
  \* Gate!CopyDiffers: a family flag is on in the parser's copy only if the VM has it on or a macro of this input turned it on
  \cup Tag(\A i \in 1..Len(e.emis) : (e.emis[i].c \in Fam /\ e.emis[i].on) => e.emis[i].c \in Reachable(e), "copy-opened")
  \* Gate!FamilyGated on the compiled program; what runs may also come from code compiled by earlier inputs
  \cup Tag((listing \cap Fam) \subseteq Reachable(e), "family-compiled")
  \cup Tag((executed \cap Fam) \subseteq (Reachable(e) \cup ToSet(e.prior)), "family-executed")
  \* Gate!StmtsGated, NDiceGated, BitGated
  \cup Tag(e.cfg.noStmts => listing \cap StmtClasses = {}, "statement-compiled")
  \cup Tag(e.cfg.noNDice => "ndice" \notin listing, "ndice-compiled")
  \cup Tag(e.cfg.noBit => "bit" \notin listing, "bitwise-compiled")
  \* behaviours of Gate replayed: each item became what the specification says
  \cup Tag(e.hasPred => e.obs = e.pred, "prediction")
  \* Gate!LazyGated: lazily compiled text (computed values created by the host, RunExpr) is gated by the VM's configuration alone
  \cup Tag(e.hasLazy => ToSet(e.lazyObs) = ToSet(e.lazyPred), "prediction-lazy")
  \* a family's letters are ordinary identifiers while the family is off
  \cup Tag((e.identLike /\ e.claim # "always"
            /\ (e.claim \in Fam => ~Flag(e.cfg, e.claim))
            /\ (e.claim = "ndice" => e.cfg.noNDice)) => e.identLoaded, "not-an-identifier")

Init == l = 1 /\ bad = <<>>
Step == /\ l <= Len(Trace)
        /\ LET why == CheckGate(Trace[l]) IN bad' = IF why = {} THEN bad ELSE Append(bad, [i |-> l, why |-> why])
        /\ l' = l + 1
Finish == /\ l = Len(Trace) + 1
          /\ JsonSerialize(IOEnv.RESULT, [n |-> Len(Trace), bad |-> bad])
          /\ l' = l + 1 /\ UNCHANGED bad
Next == Step \/ Finish
Spec == Init /\ [][Next]_<<l, bad>>
=============================================================================
