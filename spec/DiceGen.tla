------------------------------ MODULE DiceGen ------------------------------
(***************************************************************************)
(* Replay plan for C04/C15: every parameter tuple of a bounded grid with   *)
(* EVERY face sequence (mode 0), plus each tuple in min- and max-mode, plus *)
(* illegal tuples.  The plan carries no expected values: what the real     *)
(* package rolls, returns and displays is judged by Trace_Dice.            *)
(***************************************************************************)
EXTENDS Dice, Json, IOUtils

CONSTANTS T,      \* max number of common dice
          S,      \* max sides of common dice
          CocN,   \* max bonus/penalty dice
          L,      \* max faces consumed by a WoD / DC term
          PoolMax, WSides

P0 == [times |-> 0, sides |-> 0, kind |-> 0, cnt |-> 0, mn |-> NONE, mx |-> NONE, n |-> 0, bonus |-> FALSE,
       pool |-> 0, add |-> 0, thr |-> 0, ge |-> TRUE]

Plan(fam, p, faces, mode) == [fam |-> fam, p |-> p, faces |-> faces, mode |-> mode, illegal |-> FALSE]
BadPlan(fam, p) == [fam |-> fam, p |-> p, faces |-> <<>>, mode |-> 0, illegal |-> TRUE]

\* clamp values also outside the face range (a minimum above the sides, a maximum of 0)
Clamps(s) == {<<NONE, NONE>>} \cup {<<a, NONE>> : a \in 0..(s + 2)} \cup {<<NONE, b>> : b \in 0..(s + 2)}
             \cup {<<a, b>> \in (1..s) \X (1..s) : a <= b}

KindCnt(t) == {<<0, 0>>} \cup {<<k, c>> \in (1..4) \X (0..(t + 1)) : TRUE}

CommonParams ==
  UNION {UNION {{[P0 EXCEPT !.times = t, !.sides = s, !.kind = kc[1], !.cnt = kc[2], !.mn = cl[1], !.mx = cl[2]] :
                   kc \in KindCnt(t), cl \in Clamps(s)} : s \in 1..S} : t \in 1..T}

\* built as a sequence (not one big set): TLC normalises big sets of records very slowly
PlansOfCommon(p) ==
    {Plan("common", p, f, 0) : f \in [1..p.times -> 1..p.sides]} \cup
    {Plan("common", p, <<>>, -1), Plan("common", p, <<>>, 1)}

CommonPlanSeq ==
  LET ps == SetToSeq(CommonParams) IN
  FlattenSeq([i \in 1..Len(ps) |-> SetToSeq(PlansOfCommon(ps[i]))])

\* illegal tuples (VM syntax must reject them)
IllegalPlans ==
  {BadPlan("common", q) : q \in {x \in {[P0 EXCEPT !.times = t, !.sides = s, !.kind = k, !.cnt = c] :
      t \in {0, 1, 2}, s \in {0, 3}, k \in {0, 1, 2, 3, 4}, c \in {-1, 0, 1}} : ~CommonLegal(x.times, x.sides, x.kind, x.cnt)}}
  \cup {BadPlan("coc", [P0 EXCEPT !.n = -1, !.bonus = b]) : b \in BOOLEAN}
  \cup {BadPlan("wod", q) : q \in {x \in {[P0 EXCEPT !.pool = pl, !.add = ad, !.sides = s, !.thr = th] :
      pl \in {0, 1, 20001}, ad \in {0, 1, 2}, s \in {0, 2}, th \in {0, 1}} : ~WodLegal(x.pool, x.add, x.sides, x.thr)}}
  \cup {BadPlan("dc", q) : q \in {x \in {[P0 EXCEPT !.pool = pl, !.add = ad, !.sides = s] :
      pl \in {0, 1, 20001}, ad \in {0, 1, 2}, s \in {0, 2}} : ~DcLegal(x.pool, x.add, x.sides)}}

FatePlans == {Plan("fate", P0, f, 0) : f \in [1..4 -> 1..3]}
             \cup {Plan("fate", P0, <<>>, -1), Plan("fate", P0, <<>>, 1)}

CocPlans ==
  UNION {{Plan("coc", [P0 EXCEPT !.n = n, !.bonus = b], <<base>> \o tens, 0) :
             base \in 1..100, tens \in [1..n -> 1..10]}
         \cup {Plan("coc", [P0 EXCEPT !.n = n, !.bonus = b], <<>>, m) : m \in {-1, 1}}
         : n \in 0..CocN, b \in BOOLEAN}

WodParams == {[P0 EXCEPT !.pool = pl, !.sides = s, !.add = ad, !.thr = th, !.ge = ge] :
                 pl \in 1..PoolMax, s \in WSides, ad \in {0} \cup 2..(SetMax(WSides) + 1), th \in 1..SetMax(WSides), ge \in BOOLEAN}
WodOK(p) == p.add <= p.sides + 1 /\ p.thr <= p.sides

WodPlans ==
  UNION {LET rs == {WoD(f, p.pool, p.add, p.thr, p.ge) : f \in [1..L -> 1..p.sides]} IN
         {Plan("wod", p, FlattenSeq(r.dice), 0) : r \in {x \in rs : ~x.short}}
         \cup {Plan("wod", p, <<>>, -1)}
         \cup (IF p.add = 0 \/ p.add > p.sides THEN {Plan("wod", p, <<>>, 1)} ELSE {})
         : p \in {q \in WodParams : WodOK(q)}}

DcParams == {[P0 EXCEPT !.pool = pl, !.sides = s, !.add = ad] :
                pl \in 1..PoolMax, s \in WSides, ad \in 2..(SetMax(WSides) + 1)}
DcOK(p) == p.add <= p.sides + 1

\* a d12 pool of two: critical lines above 10 (a non-critical die can exceed the 10 a critical round is worth)
DcBigParams == {[P0 EXCEPT !.pool = 2, !.sides = 12, !.add = ad] : ad \in 9..13}

PlansOfDc(p, len) ==
  LET rs == {DC(f, p.pool, p.add) : f \in [1..len -> 1..p.sides]} IN
  {Plan("dc", p, FlattenSeq(r.dice), 0) : r \in {x \in rs : ~x.short}}
  \cup {Plan("dc", p, <<>>, -1)}
  \cup (IF p.add > p.sides THEN {Plan("dc", p, <<>>, 1)} ELSE {})

DcPlans == UNION {PlansOfDc(p, L) : p \in {q \in DcParams : DcOK(q)}} \cup UNION {PlansOfDc(p, 3) : p \in DcBigParams}

AllPlanSeq == CommonPlanSeq \o SetToSeq(IllegalPlans \cup FatePlans \cup CocPlans \cup WodPlans \cup DcPlans)

VARIABLE done
Init == done = FALSE
Next == /\ ~done
        /\ ndJsonSerialize(IOEnv.OUT, AllPlanSeq)
        /\ done' = TRUE
Spec == Init /\ [][Next]_done
=============================================================================
