----------------------------- MODULE RollWordTLC -----------------------------
(***************************************************************************)
(* C05 at small word widths: the roll algorithm as a state machine         *)
(* (Draw -> Mask | FastAccept | Redraw | SlowAccept) explored by TLC for   *)
(* every n and every word, plus the literal pre-image count: every face    *)
(* has exactly the same number of accepted words.                          *)
(***************************************************************************)
EXTENDS RollWord, FiniteSets, TLC

CONSTANT W

VARIABLES n, v, pc, face, draws

vars == <<n, v, pc, face, draws>>

Words == 0..MaxWord(W)

Init == /\ n \in 1..MaxSides(W) /\ v \in Words /\ pc = "drawn" /\ face = 0 /\ draws = 1

Mask       == pc = "drawn" /\ IsPow2(n, W) /\ face' = Face(v, n) /\ pc' = "done" /\ UNCHANGED <<n, v, draws>>
FastAccept == pc = "drawn" /\ ~IsPow2(n, W) /\ ~(v > MaxWord(W) - n) /\ face' = Face(v, n) /\ pc' = "done" /\ UNCHANGED <<n, v, draws>>
EnterLoop  == pc = "drawn" /\ ~IsPow2(n, W) /\ v > MaxWord(W) - n /\ pc' = "loop" /\ UNCHANGED <<n, v, face, draws>>
Redraw     == pc = "loop" /\ v >= Ceil(n, W) /\ draws < 2 /\ v' \in Words /\ draws' = draws + 1 /\ UNCHANGED <<n, pc, face>>
SlowAccept == pc = "loop" /\ v < Ceil(n, W) /\ face' = Face(v, n) /\ pc' = "done" /\ UNCHANGED <<n, v, draws>>

Next == Mask \/ FastAccept \/ EnterLoop \/ Redraw \/ SlowAccept
Spec == Init /\ [][Next]_vars

\* a face is only ever produced from an accepted word and lies in range
FaceLegal == pc = "done" => (face \in 1..n /\ Accept(v, n, W) /\ face = Face(v, n))
\* a word of the biased tail is never turned into a face
NoTail == pc = "done" => (IsPow2(n, W) \/ v < Ceil(n, W))
SoundAll == Sound(v, n, W)

\* the literal statement of C05 (evaluated once per n, at the initial states with v = 0)
Pre(nn, f) == Cardinality({x \in Words : Accept(x, nn, W) /\ Face(x, nn) = f})
Uniform == (pc = "drawn" /\ v = 0 /\ draws = 1) => \A f \in 1..n : Pre(n, f) = Pre(n, 1) /\ Pre(n, 1) > 0
=============================================================================
