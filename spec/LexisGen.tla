------------------------------ MODULE LexisGen ------------------------------
(* C13: every text up to length N, in the four styles and both policies: TLC checks the round-trip theorem on the
   model and writes (literal source, expected text) cases for the real parser. *)
EXTENDS Lexis, Json, IOUtils
CONSTANT N
A == Len(Alphabet)
RECURSIVE Txt(_, _)
Txt(n, k) == IF n = 0 THEN <<>> ELSE Txt(n - 1, k \div A) \o <<Alphabet[(k % A) + 1]>>
RECURSIVE Pow(_, _)
Pow(b, e) == IF e = 0 THEN 1 ELSE b * Pow(b, e - 1)
Cases(n) ==
  LET per == 8 IN
  [j \in 1..(Pow(A, n) * per) |->
     LET k == (j - 1) \div per
         v == (j - 1) % per
         style == (v \div 2) + 1
         policy == IF v % 2 = 0 THEN "min" ELSE "max"
         t == Txt(n, k) IN
     [src |-> Literal(t, style, policy), exp |-> t, style |-> style, policy |-> policy,
      ok |-> Representable(t, style), rt |-> RoundTrip(t, style, policy)]]
VARIABLES n, thm
Init == n = 0 /\ thm = TRUE
Next == /\ n <= N
        /\ LET cs == Cases(n) IN
           /\ ndJsonSerialize(IOEnv.OUT \o "." \o ToString(n), cs)
           /\ thm' = (thm /\ \A j \in 1..Len(cs) : cs[j].rt)
        /\ n' = n + 1
Spec == Init /\ [][Next]_<<n, thm>>
Theorem == thm
=============================================================================
