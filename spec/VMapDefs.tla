------------------------------- MODULE VMapDefs ---------------------------
(***************************************************************************)
(* ValueMap (valuemap.go): the string-keyed map behind variables, dicts    *)
(* and computed-value attributes.                                          *)
(*                                                                         *)
(*  - the ABSTRACT map  m \in [Key -> Val \cup {ABSENT}]  with the calls   *)
(*    Store/Load/LoadOrStore/LoadAndDelete/Delete/Clear/Range/Length and   *)
(*    their return values (property C12, "an ordinary string-keyed map");  *)
(*  - the IMPLEMENTATION state machine read/dirty/misses/entry cells with  *)
(*    each whole call as one action (sequential use), mirroring            *)
(*    valuemap.go line by line;                                            *)
(*  - the refinement  Impl => Abstract  checked by TLC over the complete   *)
(*    reachable state space for small Key/Val (all histories of any        *)
(*    length, since the product state space is finite).                    *)
(*                                                                         *)
(* Fine-grained (per atomic load/CAS) concurrency is in VMapConc.tla;      *)
(* trace validation against the real ValueMap in Trace_VMap.tla.           *)
(***************************************************************************)
EXTENDS Integers, FiniteSets, Sequences, TLC

CONSTANTS Key, Val            \* Key: set of strings, Val: set of positive ints

ABSENT == 0
\* entry cell values (one TLC type: ints)
NIL  == -1    \* p == nil      (deleted; dirty==nil or dirty[k] is this entry)
EXP  == -2    \* p == expunged (deleted, dirty != nil and entry missing from dirty)
FREE == -3    \* no entry object for this key anywhere

Live(c) == c > 0

-----------------------------------------------------------------------------
(* Abstract map *)

AInit == [k \in Key |-> ABSENT]

ACount(m) == Cardinality({k \in Key : m[k] # ABSENT})
APairs(m) == {[k |-> k, v |-> m[k]] : k \in {x \in Key : m[x] # ABSENT}}

\* A call is a record [op, k, v]; its outcome [res, ok, rng] (rng only for Range, else {})
ACall(m, c) ==
  CASE c.op = "Store"         -> [m |-> [m EXCEPT ![c.k] = c.v], res |-> 0, ok |-> FALSE, rng |-> {}]
    [] c.op = "Load"          -> [m |-> m, res |-> m[c.k], ok |-> m[c.k] # ABSENT, rng |-> {}]
    [] c.op = "LoadOrStore"   -> IF m[c.k] # ABSENT
                                 THEN [m |-> m, res |-> m[c.k], ok |-> TRUE, rng |-> {}]
                                 ELSE [m |-> [m EXCEPT ![c.k] = c.v], res |-> c.v, ok |-> FALSE, rng |-> {}]
    [] c.op = "LoadAndDelete" -> [m |-> [m EXCEPT ![c.k] = ABSENT], res |-> m[c.k], ok |-> m[c.k] # ABSENT, rng |-> {}]
    [] c.op = "Delete"        -> [m |-> [m EXCEPT ![c.k] = ABSENT], res |-> 0, ok |-> FALSE, rng |-> {}]
    [] c.op = "Clear"         -> [m |-> AInit, res |-> 0, ok |-> FALSE, rng |-> {}]
    [] c.op = "Range"         -> [m |-> m, res |-> 0, ok |-> FALSE, rng |-> APairs(m)]
    [] c.op = "Length"        -> [m |-> m, res |-> ACount(m), ok |-> FALSE, rng |-> {}]

Calls ==
  {[op |-> "Store", k |-> k, v |-> v] : k \in Key, v \in Val} \cup
  {[op |-> "LoadOrStore", k |-> k, v |-> v] : k \in Key, v \in Val} \cup
  {[op |-> o, k |-> k, v |-> 0] : o \in {"Load", "LoadAndDelete", "Delete"}, k \in Key} \cup
  {[op |-> o, k |-> "", v |-> 0] : o \in {"Clear", "Range", "Length"}}

-----------------------------------------------------------------------------
(* Implementation state, sequential granularity                            *)
(*   inRead   = keys of read.m          amended  = read.amended            *)
(*   inDirty  = keys of dirty           dirtyNil = (dirty == nil)          *)
(*   ent[k]   = the entry cell shared by read.m[k] and dirty[k]            *)
(* A key never has two distinct entry objects reachable at once: whenever  *)
(* read.m[k] exists every path reuses it (unexpungeLocked re-inserts the   *)
(* same entry into dirty), so one cell per key suffices.                   *)

IInit == [inRead |-> {}, amended |-> FALSE, inDirty |-> {}, dirtyNil |-> TRUE,
          ent |-> [k \in Key |-> FREE], misses |-> 0]

\* canonical form: cells of unreachable entries are FREE
Canon(s) == [s EXCEPT !.ent = [k \in Key |-> IF k \in s.inRead \cup s.inDirty THEN s.ent[k] ELSE FREE]]

\* missLocked (valuemap.go:390)
MissLocked(s) ==
  LET s1 == [s EXCEPT !.misses = s.misses + 1] IN
  IF s1.misses < Cardinality(s1.inDirty) THEN s1
  ELSE [s1 EXCEPT !.inRead = s1.inDirty, !.amended = FALSE, !.inDirty = {}, !.dirtyNil = TRUE, !.misses = 0]

\* dirtyLocked + tryExpungeLocked (valuemap.go:400-423)
DirtyLocked(s) ==
  IF ~s.dirtyNil THEN s
  ELSE [s EXCEPT !.dirtyNil = FALSE,
                 !.inDirty = {k \in s.inRead : Live(s.ent[k])},
                 !.ent = [k \in Key |-> IF k \in s.inRead /\ s.ent[k] = NIL THEN EXP ELSE s.ent[k]]]

\* the "add a brand-new key" tail shared by Store and LoadOrStore
AddNew(s, k, v) ==
  LET s1 == IF ~s.amended THEN [DirtyLocked(s) EXCEPT !.amended = TRUE] ELSE s IN
  [s1 EXCEPT !.inDirty = s1.inDirty \cup {k}, !.ent[k] = v]

IStore(s, k, v) ==
  IF k \in s.inRead /\ s.ent[k] # EXP THEN [s EXCEPT !.ent[k] = v]                 \* tryStore
  ELSE IF k \in s.inRead THEN [s EXCEPT !.inDirty = s.inDirty \cup {k}, !.ent[k] = v] \* unexpunge + storeLocked
  ELSE IF k \in s.inDirty THEN [s EXCEPT !.ent[k] = v]
  ELSE AddNew(s, k, v)

ILoad(s, k) ==
  IF k \in s.inRead THEN [s |-> s, res |-> IF Live(s.ent[k]) THEN s.ent[k] ELSE 0, ok |-> Live(s.ent[k])]
  ELSE IF s.amended THEN
        LET hit == k \in s.inDirty
            c   == IF hit THEN s.ent[k] ELSE NIL IN
        [s |-> MissLocked(s), res |-> IF Live(c) THEN c ELSE 0, ok |-> Live(c)]
  ELSE [s |-> s, res |-> 0, ok |-> FALSE]

ILoadOrStore(s, k, v) ==
  IF k \in s.inRead /\ s.ent[k] # EXP THEN
      IF Live(s.ent[k]) THEN [s |-> s, res |-> s.ent[k], ok |-> TRUE]
      ELSE [s |-> [s EXCEPT !.ent[k] = v], res |-> v, ok |-> FALSE]
  ELSE IF k \in s.inRead THEN   \* expunged: unexpunge, then store
      [s |-> [s EXCEPT !.inDirty = s.inDirty \cup {k}, !.ent[k] = v], res |-> v, ok |-> FALSE]
  ELSE IF k \in s.inDirty THEN
      IF Live(s.ent[k]) THEN [s |-> MissLocked(s), res |-> s.ent[k], ok |-> TRUE]
      ELSE [s |-> MissLocked([s EXCEPT !.ent[k] = v]), res |-> v, ok |-> FALSE]
  ELSE [s |-> AddNew(s, k, v), res |-> v, ok |-> FALSE]

ILoadAndDelete(s, k) ==
  IF k \in s.inRead THEN
      IF Live(s.ent[k]) THEN [s |-> [s EXCEPT !.ent[k] = NIL], res |-> s.ent[k], ok |-> TRUE]
      ELSE [s |-> s, res |-> 0, ok |-> FALSE]
  ELSE IF s.amended THEN
      LET hit == k \in s.inDirty
          c   == IF hit THEN s.ent[k] ELSE NIL
          s1  == MissLocked([s EXCEPT !.inDirty = s.inDirty \ {k}]) IN
      [s |-> s1, res |-> IF Live(c) THEN c ELSE 0, ok |-> Live(c)]
  ELSE [s |-> s, res |-> 0, ok |-> FALSE]

\* promotion at the head of Range (valuemap.go:362-377)
Promote(s) ==
  IF s.amended THEN [s EXCEPT !.inRead = s.inDirty, !.amended = FALSE, !.inDirty = {}, !.dirtyNil = TRUE, !.misses = 0]
  ELSE s

IPairs(s) == {[k |-> k, v |-> s.ent[k]] : k \in {x \in s.inRead : Live(s.ent[x])}}

IClear(s) ==
  IF s.inRead = {} /\ ~s.amended THEN s
  ELSE [s EXCEPT !.inRead = {}, !.amended = FALSE, !.inDirty = {}, !.dirtyNil = FALSE, !.misses = 0]

\* Length as the repository ORIGINALLY had it (len(dirty) if amended else len(read.m)):
\* counts deleted-but-not-expunged entries.  Kept as a named deviation; see C12 findings.
ILengthAsWas(s) == IF s.amended THEN Cardinality(s.inDirty) ELSE Cardinality(s.inRead)

\* Length after the fix: counts live entries by ranging (so it also promotes)
ICall(s, c) ==
  LET r ==
    CASE c.op = "Store"         -> [s |-> IStore(s, c.k, c.v), res |-> 0, ok |-> FALSE, rng |-> {}]
      [] c.op = "Load"          -> LET x == ILoad(s, c.k) IN [s |-> x.s, res |-> x.res, ok |-> x.ok, rng |-> {}]
      [] c.op = "LoadOrStore"   -> LET x == ILoadOrStore(s, c.k, c.v) IN [s |-> x.s, res |-> x.res, ok |-> x.ok, rng |-> {}]
      [] c.op = "LoadAndDelete" -> LET x == ILoadAndDelete(s, c.k) IN [s |-> x.s, res |-> x.res, ok |-> x.ok, rng |-> {}]
      [] c.op = "Delete"        -> [s |-> ILoadAndDelete(s, c.k).s, res |-> 0, ok |-> FALSE, rng |-> {}]
      [] c.op = "Clear"         -> [s |-> IClear(s), res |-> 0, ok |-> FALSE, rng |-> {}]
      [] c.op = "Range"         -> LET p == Promote(s) IN [s |-> p, res |-> 0, ok |-> FALSE, rng |-> IPairs(p)]
      [] c.op = "Length"        -> LET p == Promote(s) IN [s |-> p, res |-> Cardinality(IPairs(p)), ok |-> FALSE, rng |-> {}]
  IN [r EXCEPT !.s = Canon(r.s)]

\* Abstraction function
Abs(s) == [k \in Key |->
             IF k \in s.inRead THEN (IF Live(s.ent[k]) THEN s.ent[k] ELSE ABSENT)
             ELSE IF s.amended /\ k \in s.inDirty /\ Live(s.ent[k]) THEN s.ent[k] ELSE ABSENT]

\* Structural invariants stated in the comments of valuemap.go
ImplInv(s) ==
  /\ \A k \in Key : s.ent[k] = EXP => (k \in s.inRead /\ ~s.dirtyNil /\ k \notin s.inDirty)
  /\ ~s.dirtyNil => \A k \in s.inRead : s.ent[k] # EXP => k \in s.inDirty
  /\ s.amended => ~s.dirtyNil
  /\ ~s.amended => s.inDirty \subseteq s.inRead
  /\ s.dirtyNil => s.inDirty = {}
  /\ \A k \in s.inDirty \ s.inRead : Live(s.ent[k])
  /\ s.misses >= 0 /\ (s.misses = 0 \/ s.misses < Cardinality(s.inDirty))

=============================================================================
