------------------------------- MODULE Budget -------------------------------
(***************************************************************************)
(* C07: metered evaluation.  The program is an adversary: at every step it *)
(* chooses the next instruction.  The VM counts BEFORE it works:           *)
(*   plain instruction          ops + 1, then 1 unit of work               *)
(*   dice batch of n            ops + n (checked), then n rolls            *)
(*   exploding pool             every round is a batch of its own          *)
(*   call / computed load       ops + 100, shared with the callee          *)
(* Exceeding the limit stops the evaluation with an error in the same      *)
(* step.  CountRounds = FALSE is the behaviour found in the pinned code    *)
(* (rounds of exploding pools are not counted): BoundedWork fails.         *)
(***************************************************************************)
EXTENDS Naturals

CONSTANTS Limit, MaxBatch, CountRounds

VARIABLES ops,      \* the operation counter (NumOpCount)
          work,     \* instructions dispatched + dice rolled (what the meter H1+H2 sees)
          status,   \* "run" | "round" (inside an exploding pool) | "error" | "done"
          depth     \* nesting of calls
vars == <<ops, work, status, depth>>

Init == ops = 0 /\ work = 0 /\ status = "run" /\ depth = 0

Charge(n, w, next) ==
  /\ ops' = ops + n
  /\ IF ops + n > Limit
     THEN status' = "error" /\ work' = work            \* fails closed: nothing is done on credit
     ELSE status' = next /\ work' = work + w

Plain    == status = "run" /\ Charge(1, 1, "run") /\ UNCHANGED depth
Dice(n)  == status = "run" /\ Charge(1 + n, 1 + n, "run") /\ UNCHANGED depth
Call     == status = "run" /\ depth < 3 /\ Charge(1 + 100, 1, "run") /\ depth' = depth + 1
Return   == status = "run" /\ depth > 0 /\ Charge(1, 1, "run") /\ depth' = depth - 1
\* an exploding pool: the instruction itself, then rounds as long as dice keep exploding
Explode(n) == status = "run" /\ Charge(1 + n, 1 + n, "round") /\ UNCHANGED depth
Round(n)   == /\ status = "round"
              /\ IF CountRounds THEN Charge(n, n, "round")
                 ELSE ops' = ops /\ work' = work + n /\ status' = "round"
              /\ UNCHANGED depth
EndRounds  == status = "round" /\ status' = "run" /\ UNCHANGED <<ops, work, depth>>
Halt       == status = "run" /\ depth = 0 /\ status' = "done" /\ UNCHANGED <<ops, work, depth>>

Next == Plain \/ Call \/ Return \/ EndRounds \/ Halt
        \/ \E n \in 1..MaxBatch : Dice(n) \/ Explode(n) \/ Round(n)
Spec == Init /\ [][Next]_vars /\ WF_vars(Next)

\* every unit of work was paid for
Accounting  == work <= ops
\* the counter only grows
Monotone    == [][ops' >= ops]_vars
\* over the limit means stopped with an error, at once
FailClosed  == ops > Limit <=> status = "error"
\* the work done never exceeds the budget
BoundedWork == work <= Limit
\* every evaluation ends (each step pays at least 1, so at most Limit+1 paying steps)
Terminates  == <>(status \in {"error", "done"})
Bound == work <= Limit + 3 * MaxBatch
=============================================================================
