------------------------------ MODULE ByteVMDefs ------------------------------
(***************************************************************************)
(* The opcode table of the stack VM (rollvm.go:475-1098): operand-stack    *)
(* effect of every opcode, the state it needs an earlier instruction to    *)
(* have set up, and the jump rule.  Shared by ByteVM (all-paths check of    *)
(* compiled programs, C08), Trace_ByteVM (validation of recorded dispatch   *)
(* steps of the real VM) and the budget model (C07).                        *)
(***************************************************************************)
EXTENDS Integers, Sequences, FiniteSets


HCap == 40          \* heights are capped (sound for underflow: the model never holds more than the real stack)
MaxBlk == 20

Push1 == {"push.int", "push.flt", "push.str", "push.null", "push.this", "push.func", "push.computed",
          "ld", "ld.raw", "dice.custom", "push.global"}
Bin == {"add", "sub", "mul", "div", "mod", "pow", "nullCoalescing", "comp.lt", "comp.le", "comp.eq", "comp.ne",
        "comp.ge", "comp.gt", "&", "|", "and", "push.range"}
Un == {"neg", "pos", "attr.get"}
DiceSet == {"dice.setTimes", "dice.setKeepLow", "dice.setKeepHigh", "dice.setDropLow", "dice.setDropHigh",
            "dice.setMin", "dice.setMax"}
WodSet == {"wod.pool", "wod.points", "wod.threshold", "wod.thresholdQ"}
DcSet == {"dc.setPool", "dc.setPoints"}
Jumps == {"jmp", "jne", "je", "je.dup"}
NoOps == {"store.global", "nop", "or", "invoke.self"}   \* opcodes the dispatch loop has no case for

\* operand-stack effect <<pops, pushes>> of the straight-line opcodes (Appendix A of DESIGN.md)
Effect(i) ==
  CASE i.op \in Push1        -> <<0, 1>>
    [] i.op = "push.last"    -> <<0, 1>>
    [] i.op = "push.def_expr" -> <<0, 1>>
    [] i.op = "ld.d"         -> <<0, 1>>
    [] i.op = "push.arr"     -> <<i.n, 1>>
    [] i.op = "push.dict"    -> <<2 * i.n, 1>>
    [] i.op \in Bin          -> <<2, 1>>
    [] i.op \in Un           -> <<1, 1>>
    [] i.op = "invoke"       -> <<i.n + 1, 1>>
    [] i.op = "item.get"     -> <<2, 1>>
    [] i.op = "item.set"     -> <<3, 1>>           \* assignments evaluate to the assigned value
    [] i.op = "attr.set"     -> <<2, 1>>
    [] i.op = "slice.get"    -> <<4, 1>>
    [] i.op = "slice.set"    -> <<5, 1>>
    [] i.op \in {"store", "store.local"} -> <<1, 1>>   \* peeks: needs one value, leaves it
    [] i.op = "pop"          -> <<1, 0>>
    [] i.op = "popn"         -> <<i.n, 0>>
    [] i.op \in DiceSet \cup WodSet \cup DcSet -> <<1, 0>>
    [] i.op \in {"dice", "coc.bonus", "coc.penalty", "dice.wod", "dice.dc"} -> <<1, 1>>
    [] i.op = "dice.fate"    -> <<0, 1>>
    [] i.op \in {"st.set", "st.mod", "st.x0"} -> <<2, 0>>
    [] i.op = "st.x1"        -> <<3, 0>>
    [] i.op \in {"jne", "je"} -> <<1, 0>>
    [] i.op = "je.dup"       -> <<1, 0>>           \* the taken branch pushes the value back
    [] OTHER                 -> <<0, 0>>

\* state an earlier instruction on the path must have established
NeedsDet(i)  == i.op \in {"dice", "dice.fate", "coc.bonus", "coc.penalty", "dice.wod", "dice.dc", "push.def_expr", "ld.d"}
NeedsDice(i) == i.op \in DiceSet \cup {"dice", "push.def_expr"}
NeedsWod(i)  == i.op \in WodSet \cup {"dice.wod"}
NeedsDc(i)   == i.op \in DcSet \cup {"dice.dc"}

Known(i) == i.op \in Push1 \cup Bin \cup Un \cup DiceSet \cup WodSet \cup DcSet \cup Jumps \cup NoOps \cup
            {"push.last", "push.def_expr", "ld.d", "push.arr", "push.dict", "invoke", "item.get", "item.set", "attr.set",
             "slice.get", "slice.set", "store", "store.local", "pop", "popn", "dice", "coc.bonus", "coc.penalty", "dice.wod", "dice.dc",
             "dice.fate", "dice.init", "wod.init", "dc.setInit", "st.set", "st.mod", "st.x0", "st.x1", "ld.fs", "mark.detail",
             "block.push", "block.pop", "fstr.block.push", "fstr.block.pop", "ret", "halt"}

=============================================================================
