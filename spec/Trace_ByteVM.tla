---------------------------- MODULE Trace_ByteVM ----------------------------
(***************************************************************************)
(* Validation of dispatch steps recorded from the real VM (hook H1) against *)
(* the opcode table of ByteVMDefs.  One trace line = one VM frame (main     *)
(* program, function call or computed-value evaluation) = the sequence of   *)
(* (pc, opcode, operand, stack height, open blocks, open template holes,    *)
(* dice-state depth, annotation spans, operation counter) seen at the head  *)
(* of the dispatch loop.  Every consecutive pair must be a step the table   *)
(* allows.  A disagreement means the table (or the VM) changed: it is       *)
(* reported as DRIFT and withholds the C08 verdicts that rest on the table. *)
(***************************************************************************)
EXTENDS ByteVMDefs, TLC, Json, IOUtils

Frames == ndJsonDeserialize(IOEnv.TRACE)

VARIABLES f, k, bstk, fstk, drift

vars == <<f, k, bstk, fstk, drift>>

Last(s) == s[Len(s)]
Ins(a) == [op |-> a.op, n |-> a.n]

PcOK(a, b) ==
  CASE a.op = "jmp" -> b.pc = a.pc + 1 + a.n
    [] a.op \in {"jne", "je", "je.dup"} -> b.pc \in {a.pc + 1, a.pc + 1 + a.n}
    [] OTHER -> b.pc = a.pc + 1

TopOK(a, b) ==
  LET ef == Effect(Ins(a)) IN
  CASE a.op = "je.dup" -> IF a.n = 0 THEN b.top \in {a.top, a.top - 1}
                          ELSE IF b.pc = a.pc + 1 + a.n THEN b.top = a.top ELSE b.top = a.top - 1
    [] a.op = "block.pop" -> Len(bstk) > 0 /\ b.top = Last(bstk) + 1
    [] a.op = "fstr.block.pop" -> Len(fstk) > 0 /\ b.top = Last(fstk) + 1
    [] a.op = "ld.fs" -> b.top = a.top - a.n + 1
    [] OTHER -> a.top >= ef[1] /\ b.top = a.top - ef[1] + ef[2]

CountersOK(a, b) ==
  /\ b.blk = a.blk + (IF a.op = "block.push" THEN 1 ELSE IF a.op = "block.pop" THEN -1 ELSE 0)
  /\ b.fblk = a.fblk + (IF a.op = "fstr.block.push" THEN 1 ELSE IF a.op = "fstr.block.pop" THEN -1 ELSE 0)
  /\ b.dice = a.dice + (IF a.op = "dice.init" THEN 1 ELSE IF a.op = "dice" THEN -1 ELSE 0)
  /\ b.ndet = a.ndet + (IF a.op = "mark.detail" THEN 1 ELSE 0)
  /\ b.ops >= a.ops + 1
  /\ b.len = a.len

NeedsOK(a) ==
  /\ Known(Ins(a))
  /\ (NeedsDet(Ins(a)) => a.ndet >= 1)
  /\ (NeedsDice(Ins(a)) => a.dice >= 1)
  /\ a.pc >= 0 /\ a.pc < a.len

Init == f = 1 /\ k = 1 /\ bstk = <<>> /\ fstk = <<>> /\ drift = <<>>

Steps == Frames[f].steps

Advance ==
  /\ f <= Len(Frames)
  /\ IF k >= Len(Steps)
     THEN \* last step of the frame (or empty frame): only its own needs are checked
          /\ drift' = IF Len(Steps) > 0 /\ Frames[f].ended # "cut" /\ ~NeedsOK(Steps[Len(Steps)]) /\ Frames[f].ended # "panic"
                      THEN Append(drift, [f |-> f, k |-> Len(Steps), why |-> "needs"]) ELSE drift
          /\ f' = f + 1 /\ k' = 1 /\ bstk' = <<>> /\ fstk' = <<>>
     ELSE LET a == Steps[k]
              b == Steps[k + 1]
              why == (IF PcOK(a, b) THEN {} ELSE {"pc"}) \cup (IF TopOK(a, b) THEN {} ELSE {"top"})
                     \cup (IF CountersOK(a, b) THEN {} ELSE {"counters"}) \cup (IF NeedsOK(a) THEN {} ELSE {"needs"})
                     \cup (IF a.op # "ld.fs" /\ a.top < Effect(Ins(a))[1] THEN {"underflow"} ELSE {})
          IN /\ drift' = IF why = {} THEN drift ELSE Append(drift, [f |-> f, k |-> k, why |-> why])
             /\ bstk' = IF a.op = "block.push" THEN Append(bstk, a.top)
                        ELSE IF a.op = "block.pop" /\ Len(bstk) > 0 THEN SubSeq(bstk, 1, Len(bstk) - 1) ELSE bstk
             /\ fstk' = IF a.op = "fstr.block.push" THEN Append(fstk, a.top)
                        ELSE IF a.op = "fstr.block.pop" /\ Len(fstk) > 0 THEN SubSeq(fstk, 1, Len(fstk) - 1) ELSE fstk
             /\ k' = k + 1 /\ f' = f

Finish == /\ f = Len(Frames) + 1
          /\ JsonSerialize(IOEnv.RESULT, [frames |-> Len(Frames), drift |-> drift])
          /\ f' = f + 1
          /\ UNCHANGED <<k, bstk, fstk, drift>>

Next == Advance \/ Finish
Spec == Init /\ [][Next]_vars
=============================================================================
