----------------------------- MODULE SharedMC -----------------------------
(* Every complete schedule of Shared (all VMs done) written as a replay plan. *)
EXTENDS Shared, IOUtils, Json

AllDone == \A i \in VM : pc[i] = "done"
Dump == \/ ~AllDone
        \/ Serialize(ToJson([lang |-> lang, unseeded |-> unseeded, order |-> order]) \o "\n",
                     IOEnv.OUT, [format |-> "TXT", charset |-> "UTF-8", openOptions |-> <<"WRITE", "CREATE", "APPEND">>]).exitValue = 0
=============================================================================
