---------------------------- MODULE Trace_Budget ----------------------------
(***************************************************************************)
(* C07: recorded evaluations of adversarial programs against the metered   *)
(* machine of spec/Budget.tla.  One event = one program run in a child     *)
(* process under a budget, with the meters of hooks H1 (every dispatched   *)
(* instruction, at every depth, with the operation counter at that moment) *)
(* and H2 (every die rolled), and ceilings on time and memory:             *)
(*   ops         the operation counter when the run ended (or was cut)     *)
(*   dispatches, rolls   the work actually done                            *)
(*   maxExcess   max over all dispatches of work - 2*ops at that moment    *)
(*   maxExcess1  max over all dispatches of work - ops at that moment      *)
(*   monotone    the counter never decreased between dispatches            *)
(*   expect      the value of the FULL program where the generator knows   *)
(* Budget!Accounting, Monotone, FailClosed, BoundedWork, Terminates are    *)
(* stated with the slack the implementation's constant-size uncounted      *)
(* pieces need (a CoC/Fate instruction rolls 2-4 dice for 1 op).           *)
(***************************************************************************)
EXTENDS Integers, Sequences, TLC, Json, IOUtils

Trace == ndJsonDeserialize(IOEnv.TRACE)
VARIABLES l, bad

\* slack: a CoC / Fate instruction rolls 2-4 dice for one op (measured on the repaired tree: work never exceeds the limit,
\* and never exceeds twice the counter)
C == 200
Tag(ok, t) == IF ok THEN {} ELSE {t}

CheckBudget(e) ==
  LET work == e.dispatches + e.rolls
      cut == e.timedOut \/ e.killed \/ e.crashed \/ e.panic IN
  \* Budget!Terminates, within the ceilings of the harness
  Tag(~e.timedOut, "no-termination")
  \cup Tag(~e.killed /\ ~e.crashed, "resource-exhaustion")
  \* a limit that is exceeded is reported, it does not crash
  \cup Tag(~e.panic, "crash-instead-of-error")
  \* Budget!BoundedWork and Accounting (also for runs that were cut short: the meters are read at the cut)
  \cup Tag(e.limit > 0 => 2 * work <= 3 * e.limit + 2 * C, "work-not-bounded-by-budget")
  \cup Tag(e.maxExcess <= C, "work-not-accounted")
  \* exact accounting (since the Fate dice and the D100 of CoC rolls are charged): at every dispatch, instructions dispatched plus dice
  \* rolled do not exceed the counter - every instruction and every die has been charged before it happens
  \cup Tag(e.maxExcess1 <= 0, "instruction-or-die-not-charged")
  \cup Tag(e.monotone, "counter-decreased")
  \* ... and the counter the host reads AFTER the run accounts for the work as well (an evaluation that ends in an error inside a
  \* function or computed value must hand its count back)
  \cup Tag(cut \/ work - 2 * e.ops <= C, "count-lost-at-return")
  \cup (IF cut THEN {}
        ELSE \* Budget!FailClosed
             Tag((e.limit > 0 /\ e.ops > e.limit) => e.err, "fail-open")
             \* capacities: the value of the whole program, or an error - never something else
             \cup Tag((e.hasExpect /\ ~e.err) => (e.ret = e.expect /\ e.rest = ""), "truncated-or-partial")
             \* container length: an array built in one operation has at most `cap` elements, or the operation is an error
             \cup Tag((e.cap > 0 /\ ~e.err) => e.retInt <= e.cap, "container-cap-exceeded"))

Init == l = 1 /\ bad = <<>>
Step == /\ l <= Len(Trace)
        /\ LET why == CheckBudget(Trace[l]) IN bad' = IF why = {} THEN bad ELSE Append(bad, [i |-> l, why |-> why])
        /\ l' = l + 1
Finish == /\ l = Len(Trace) + 1
          /\ JsonSerialize(IOEnv.RESULT, [n |-> Len(Trace), bad |-> bad])
          /\ l' = l + 1 /\ UNCHANGED bad
Next == Step \/ Finish
Spec == Init /\ [][Next]_<<l, bad>>
=============================================================================
