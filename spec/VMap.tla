------------------------------- MODULE VMap -------------------------------
(***************************************************************************)
(* Design check for ValueMap: the product of the implementation machine    *)
(* and the abstract map under every call (definitions in VMapDefs).  The   *)
(* product state space is finite, so TLC covers all histories of any       *)
(* length for the configured Key/Val.                                      *)
(***************************************************************************)
EXTENDS VMapDefs

-----------------------------------------------------------------------------
(* Design check: product of implementation and abstract map, all calls     *)

VARIABLES impl, abs, agree

vars == <<impl, abs, agree>>

Init == impl = IInit /\ abs = AInit /\ agree = TRUE

Next == \E c \in Calls :
          LET i == ICall(impl, c)
              a == ACall(abs, c) IN
          /\ impl' = i.s
          /\ abs' = a.m
          /\ agree' = (i.res = a.res /\ i.ok = a.ok /\ i.rng = a.rng)

Spec == Init /\ [][Next]_vars

Refines     == agree                    \* every return value equals the ordinary map's
AbsOK       == Abs(impl) = abs          \* refinement mapping
Structural  == ImplInv(impl)
\* the original Length is NOT a refinement (kept to show what the model says about it)
LengthAsWasOK == ILengthAsWas(impl) = ACount(abs)

=============================================================================
