---------------------------- MODULE Trace_ErrPos ----------------------------
(***************************************************************************)
(* Validation of syntax-error texts produced by the real parser (C19).     *)
(* One event per (rejected input, language setting):                       *)
(*   ws, lf     rune widths / line-feed flags of the input                 *)
(*   lines      the input split at line feeds, as displayed (harness)      *)
(*   perr       every "L:C (O):" prefix of the error list                  *)
(*   friendly   whether a friendly block is present, with its header,      *)
(*              quoted line, caret column, and message lines               *)
(* For concurrency experiments an event may carry vmlang # lang: the VM's  *)
(* own setting is what counts.                                             *)
(***************************************************************************)
EXTENDS ErrPos, Json, IOUtils, TLC

Trace == ndJsonDeserialize(IOEnv.TRACE)
VARIABLES l, bad
Tag(c, t) == IF c THEN {} ELSE {t}

PrefixOK(e, p) ==
  /\ p.o >= 0 /\ p.o <= Total(e.ws)
  /\ OnBoundary(e.ws, p.o)
  /\ p.line = Line(e.ws, e.lf, p.o)
  /\ p.col = Col(e.ws, e.lf, p.o)

MsgOK(e) ==
  LET f == e.friendly
      lang == e.lang IN
  /\ f.header = HeaderFor(lang)
  /\ (lang = 1 => f.hasCn /\ ~f.hasEn)
  /\ (lang = 2 => f.hasEn /\ ~f.hasCn)
  /\ (lang = 0 => f.hasCn /\ f.hasEn)
  /\ (f.hasCn => \E m \in Msgs : m.cn = f.cn /\ (f.hasEn => m.en = f.en))
  /\ (f.hasEn => \E m \in Msgs : m.en = f.en)
  /\ (f.hasCn => f.cnLine = f.line /\ f.cnCol = f.col)
  /\ (f.hasEn => f.enLine = f.line /\ f.enCol = f.col)

Check(e) ==
  Tag(\A i \in 1..Len(e.perr) : PrefixOK(e, e.perr[i]), "position")
  \cup (IF ~e.friendly.present THEN {}
        ELSE LET f == e.friendly IN
             Tag(PrefixOK(e, [o |-> f.o, line |-> f.line, col |-> f.col]), "position")
             \cup Tag(MsgOK(e), "language")
             \cup (IF Len(e.ws) = 0 THEN Tag(~f.hasContext, "context")
                   ELSE Tag(f.hasContext, "context")
                        \cup Tag(f.hasContext => (f.line >= 1 /\ f.line <= Len(e.lines) /\ f.quoted = e.lines[f.line]), "quoted-line")
                        \cup Tag(f.hasContext => f.caret = f.col - 1, "caret")))

Init == l = 1 /\ bad = <<>>
Step == /\ l <= Len(Trace)
        /\ LET why == Check(Trace[l]) IN bad' = IF why = {} THEN bad ELSE Append(bad, [i |-> l, why |-> why])
        /\ l' = l + 1
Finish == /\ l = Len(Trace) + 1
          /\ JsonSerialize(IOEnv.RESULT, [n |-> Len(Trace), bad |-> bad])
          /\ l' = l + 1 /\ UNCHANGED bad
Next == Step \/ Finish
Spec == Init /\ [][Next]_<<l, bad>>
=============================================================================
