----------------------------- MODULE ErrPosGen -----------------------------
(* All inputs up to length N over a small alphabet rich in brackets, quotes, line feeds and multi-byte runes. *)
EXTENDS Integers, Sequences, SequencesExt, Json, IOUtils, TLC
CONSTANT N
Alphabet == <<"1", "+", "(", ")", "[", "DQ", "LF", "SP", "x", "CJK1", "EMOJI">>
A == Len(Alphabet)
\* the k-th string of length n (base-A digits of k)
RECURSIVE Str(_, _)
Str(n, k) == IF n = 0 THEN <<>> ELSE Str(n - 1, k \div A) \o <<Alphabet[(k % A) + 1]>>
RECURSIVE Pow(_, _)
Pow(b, e) == IF e = 0 THEN 1 ELSE b * Pow(b, e - 1)
AllOfLen(n) == [k \in 1..Pow(A, n) |-> [s |-> Str(n, k - 1)]]
VARIABLE n
Init == n = 0
Next == /\ n <= N
        /\ ndJsonSerialize(IOEnv.OUT \o "." \o ToString(n), AllOfLen(n))
        /\ n' = n + 1
Spec == Init /\ [][Next]_n
=============================================================================
