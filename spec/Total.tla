------------------------------- MODULE Total -------------------------------
(***************************************************************************)
(* C01: the public API is total.                                           *)
(*                                                                         *)
(* (1) The operand space.  Every operator, dice form, postfix form, method *)
(* and built-in of the language is a template with holes; a hole is filled *)
(* with a variable the host pre-loads with a representative of one value   *)
(* class (classes are split where a crash can depend on the split: sign    *)
(* and size of integers, empty/non-empty containers, numeric strings,      *)
(* computed values that fail).  Plan = the full product, written for the   *)
(* harness; each case is then placed in every nesting context.             *)
(* (2) The contract.  Whatever the input, every call of the observation    *)
(* sequence returns: Outcome \in {"value", "error"}; "panic", "hang" and   *)
(* "fatal" (the process died) are not outcomes the API has.                *)
(***************************************************************************)
EXTENDS Naturals, Sequences, TLC, Json, IOUtils

\* value classes (the harness holds one representative of each)
Reps == <<"neg", "zero", "one", "pos", "big", "huge", "maxint", "float", "negfloat", "emptystr", "str", "numstr", "null", "emptyarr", "arr", "nested",
          "emptydict", "dict", "func", "native", "computed", "badcomputed">>

\* cyclic values (a container that contains itself, a dict that is its own prototype, two dicts that are each other's prototype).
\* Two representatives of the same shape that are DISTINCT objects: comparing them walks both cycles.  These classes go into a
\* product of their own (CycCases): every template, every placement of at least one cyclic value, partners from a short list.
CycReps == <<"cycarr", "cycarr2", "cycdict", "cycdict2", "protocyc", "protoloop">>
Partners2 == <<"zero", "pos", "str", "null", "arr", "dict", "func">>
Partners3 == <<"zero", "pos", "arr">>

\* templates: @1 @2 @3 are the holes
T1 == <<"-@1", "+@1", "!@1", "@1", "&@1", "@1.a", "@1.len()", "@1.sum()", "@1.kh()", "@1.kl()", "@1.shuffle()", "@1.rand()", "@1.pop()", "@1.shift()",
        "@1.keys()", "@1.values()", "@1.items()", "@1.compute()", "@1()", "@1[0]", "@1[-1]", "@1['a']", "@1[:]", "@1.a = 1; @1", "@1[0] = 1; @1",
        "ceil(@1)", "floor(@1)", "round(@1)", "abs(@1)", "toInt(@1)", "toFloat(@1)", "toStr(@1)", "toBool(@1)", "repr(@1)", "load(@1)", "loadRaw(@1)", "dir(@1)", "typeId(@1)",
        "b(@1)", "p(@1)", "(@1)d", "d(@1)", "(@1)d6", "2d(@1)", "(@1)a10", "3a(@1)", "(@1)c10", "3c(@1)", "(@1)f", "`{@1}`", "`a{@1}b{@1}`", "[@1] * 3", "@1 ? 1 : 2", "@1 ? 1, 2",
        "[@1..3]", "[1..@1]", "if @1 { 1 } else { 2 }", "while @1 { break }", "return @1", "^st力量=(@1)", "^st力量+=(@1)", "^st&力量=(@1)",
        \* st values written without parentheses are parsed with statements, default-sides dice and bitwise operators off: forms whose
        \* extent depends on those switches, so that a guard (look-ahead) and the real parse must agree on them
        "^st力量=@1?2|3:4", "^st力量=@1?2&3:4", "^st力量=@1?2d:3", "^st力量=1?@1|3:4", "^st力量=@1|3", "^st力量=@1d", "^st力量=@1 d6", "^st&力量=@1|2", "^st力量-@1", "^st力量+@1|1", "^st力量:@1?2d:3 敏捷=@1",
        "^st'b'd((@1)|6)", "^st力量=@1(1&``)", "^st力量*2=@1|1",
        \* a macro line inside a template block switches a family off in the middle of an expression whose guard has already seen the rest
        "x7 = `{% // #EnableDice wod false\n %}1` ? 2a10 : @1", "x7 = `{% // #EnableDice doublecross false\n %}1` ? 2c5 : @1", "x7 = `{% // #EnableDice coc false\n %}1` ? b2 : @1",
        "x7 = `{% // #EnableDice fate false\n %}1` ? f : @1", "`{% // #EnableDice wod false\n %}{@1}` + 3a10", "[`{% // #EnableDice wod true\n %}`, 2a10, @1]">>
T2 == <<"@1 + @2", "@1 - @2", "@1 * @2", "@1 / @2", "@1 % @2", "@1 ** @2", "@1 == @2", "@1 != @2", "@1 < @2", "@1 <= @2", "@1 > @2", "@1 >= @2",
        "@1 && @2", "@1 || @2", "@1 ?? @2", "@1 & @2", "@1 | @2", "@1[@2]", "@1[@2] = 1; @1", "@1[@2:]", "@1[:@2]", "@1.kh(@2)", "@1.kl(@2)", "@1.push(@2)", "@1.randSize(@2)",
        "@1(@2)", "@1.a(@2)", "store(@1, @2)", "(@1)d(@2)", "(@1)a(@2)", "(@1)c(@2)", "2d6k(@1)+(@2)", "3d6kh(@1)kl(@2)", "2d6min(@1)max(@2)", "[@1..@2]", "[@1, @2].sum()",
        "[@1, @2].kh()", "{'k': @1}.k + @2", "{@1: @2}", "@1.a = @2; @1.a", "&cq = @1 + @2; cq", "func fq(n) { n + @1 }; fq(@2)", "^st力量=(@1) 敏捷=(@2)", "^st力量*(@1)=(@2)", "^st力量=@1|@2", "^st力量=@1?@2|3:4", "^st力量-@1?@2:3", "^st力量-@1&&@2", "^st力量=@1 敏捷-@2", "^st力量=@1(@2&``)">>
T3 == <<"@1[@2:@3]", "@1[@2:@3] = [1]; @1", "@1 ? @2 : @3", "@1 ? @2, @3 ? 1", "(@1)d(@2)k(@3)", "(@1)d(@2)q(@3)", "(@1)d(@2)dl(@3)", "(@1)d(@2)dh(@3)", "4d(@1)min(@2)k(@3)",
        "(@1)a(@2)m(@3)", "3a(@1)k(@2)q(@3)", "(@1)c(@2)m(@3)", "@1(@2, @3)", "[@1, @2, @3].kl(2)", "@1[@2][@3]", "@1[@2] = @3; @1", "^st力量-@1?@2:@3", "^st力量=@1?@2|3:@3", "^st力量=@1?@2d:@3">>

\* nesting contexts: % is where the case goes
Contexts == <<"%", "1; %", "if 1 { % }", "i7 = 0; while i7 < 2 { i7 = i7 + 1; % }", "i7 = 0; while i7 < 25 { i7 = i7 + 1; if 1 { continue }; % }",
              "`{% }`", "`{%% % %%}`", "func g7() { % }; g7()", "&c7 = %; c7", "[%]", "x7 = %; x7", "(%)", "[1,2]\n[%]", "% ; `{x7}`">>

N == Len(Reps)
Assign1 == [i \in 1..N |-> <<Reps[i]>>]
Assign2 == [k \in 1..(N*N) |-> <<Reps[((k-1) \div N) + 1], Reps[((k-1) % N) + 1]>>]
Assign3 == [k \in 1..(N*N*N) |-> <<Reps[((k-1) \div (N*N)) + 1], Reps[(((k-1) \div N) % N) + 1], Reps[((k-1) % N) + 1]>>]

Cases(ts, as) == [k \in 1..(Len(ts) * Len(as)) |-> [t |-> ts[((k-1) \div Len(as)) + 1], a |-> as[((k-1) % Len(as)) + 1]]]

IsCyc(r) == \E i \in 1..Len(CycReps) : CycReps[i] = r
Pairs(pool) == [k \in 1..(Len(pool) * Len(pool)) |-> <<pool[((k-1) \div Len(pool)) + 1], pool[((k-1) % Len(pool)) + 1]>>]
Triples(pool) == LET M == Len(pool) IN [k \in 1..(M*M*M) |-> <<pool[((k-1) \div (M*M)) + 1], pool[(((k-1) \div M) % M) + 1], pool[((k-1) % M) + 1]>>]
HasCyc(a) == \E i \in 1..Len(a) : IsCyc(a[i])
AssignC1 == [i \in 1..Len(CycReps) |-> <<CycReps[i]>>]
AssignC2 == SelectSeq(Pairs(CycReps \o Partners2), HasCyc)
AssignC3 == SelectSeq(Triples(CycReps \o Partners3), HasCyc)
CycCases == Cases(T1, AssignC1) \o Cases(T2, AssignC2) \o Cases(T3, AssignC3)

\* nesting: every construct that can contain itself, repeated to depths from the everyday to the absurd, closed or left open
Nesters == <<[o |-> "[", c |-> "]"], [o |-> "(", c |-> ")"], [o |-> "g7(", c |-> ")"], [o |-> "v_arr[", c |-> "]"], [o |-> "`{", c |-> "}`"], [o |-> "{'a':", c |-> "}"],
             [o |-> "if 1 {", c |-> "}"], [o |-> "while 0 {", c |-> "}"], [o |-> "1+(", c |-> ")"], [o |-> "-", c |-> ""], [o |-> "!", c |-> ""], [o |-> "1?", c |-> ":2"], [o |-> "1?2:", c |-> ""],
             [o |-> "[1..", c |-> "]"], [o |-> "d(", c |-> ")"], [o |-> "2d6k(", c |-> ")"], [o |-> "`{%", c |-> "%}`"], [o |-> "func f7(){", c |-> "}"], [o |-> "&c7=", c |-> ""], [o |-> "x7=", c |-> ""],
             [o |-> "^st力量=(", c |-> ")"], [o |-> "b(", c |-> ")"], [o |-> "1 ?? ", c |-> ""], [o |-> "1**", c |-> ""], [o |-> "[1][", c |-> "]"], [o |-> "v_dict.a(", c |-> ")"],
             [o |-> "1+", c |-> ""], [o |-> "1 ", c |-> ""], [o |-> "x7.a", c |-> ""], [o |-> "1;", c |-> ""], [o |-> "'a'+", c |-> ""]>>     \* long rather than deep
Depths == <<25, 600, 3000, 30000, 120000>>
DeepCases == [k \in 1..(Len(Nesters) * Len(Depths) * 2) |->
                LET i == ((k-1) \div (Len(Depths) * 2)) + 1
                    j == (((k-1) \div 2) % Len(Depths)) + 1 IN
                [o |-> Nesters[i].o, c |-> Nesters[i].c, n |-> Depths[j], closed |-> (k % 2 = 0)]]

VARIABLE done
Init == done = FALSE
Write == /\ ~done
         /\ JsonSerialize(IOEnv.HEADER, [reps |-> Reps \o CycReps, contexts |-> Contexts, templates |-> Len(T1) + Len(T2) + Len(T3)])
         /\ ndJsonSerialize(IOEnv.OUT1, Cases(T1, Assign1))
         /\ ndJsonSerialize(IOEnv.OUT2, Cases(T2, Assign2))
         /\ ndJsonSerialize(IOEnv.OUT3, Cases(T3, Assign3))
         /\ ndJsonSerialize(IOEnv.OUT4, CycCases)
         /\ ndJsonSerialize(IOEnv.OUT5, DeepCases)
         /\ done' = TRUE
Next == Write
Spec == Init /\ [][Next]_done
=============================================================================
