----------------------------- MODULE VMapGen -----------------------------
(***************************************************************************)
(* Replay-case generator for C12: every call sequence up to length Depth   *)
(* over Key x Val, with the return values the abstract map prescribes.     *)
(* The harness executes each on a real ValueMap and compares.              *)
(***************************************************************************)
EXTENDS VMapDefs, Json, SequencesExt, IOUtils

CONSTANT Depth

RECURSIVE RunSeq(_, _, _)
RunSeq(m, cs, i) ==
  IF i > Len(cs) THEN <<>>
  ELSE LET r == ACall(m, cs[i]) IN
       <<[res |-> r.res, ok |-> r.ok, rng |-> r.rng]>> \o RunSeq(r.m, cs, i + 1)

AllSeqs == UNION {[1..d -> Calls] : d \in 1..Depth}

Case(cs) == [ops |-> cs, exp |-> RunSeq(AInit, cs, 1)]

VARIABLE done
Init == done = FALSE
Next == /\ ~done
        /\ ndJsonSerialize(IOEnv.OUT, SetToSeq({Case(cs) : cs \in AllSeqs}))
        /\ done' = TRUE
Spec == Init /\ [][Next]_done
=============================================================================
