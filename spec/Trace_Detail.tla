---------------------------- MODULE Trace_Detail ----------------------------
(***************************************************************************)
(* C14: the calculation-process text.  One event = one arithmetic          *)
(* expression over integer literals, parentheses, + - * and dice terms,    *)
(* run on a seeded VM:                                                     *)
(*   ast      the expression (num / slot i / bin / neg / paren)             *)
(*   chunks   the source text outside the slots (n+1 pieces)               *)
(*   slots    what the text must replace by value[annotation]              *)
(*   terms    per dice term: an evaluation record in Trace_Dice's format   *)
(*            (parameters, observed Roll calls, value, displayed dice      *)
(*            parsed from the annotation)                                  *)
(*   seg      the real text cut by the harness into literal pieces and     *)
(*            value[annotation] placeholders                               *)
(*   observations around GetDetailText (called twice)                      *)
(* Checked: the text is the source with each roll replaced by its          *)
(* placeholder; replacing every placeholder by its value gives an          *)
(* expression that evaluates to the result; each annotation's dice total   *)
(* its value and are the dice that were rolled; asking for the text is     *)
(* idempotent and changes neither result, variables nor generator state.   *)
(***************************************************************************)
EXTENDS DiceCheck, Json, IOUtils

Trace == ndJsonDeserialize(IOEnv.TRACE)
VARIABLES l, bad

RECURSIVE EvalAst(_, _)
EvalAst(a, vals) ==
  CASE a.k = "num"   -> a.v
    [] a.k = "slot"  -> vals[a.i]
    [] a.k = "paren" -> EvalAst(a.e, vals)
    [] a.k = "neg"   -> -EvalAst(a.e, vals)
    [] a.k = "bin"   -> (CASE a.op = "+" -> EvalAst(a.l, vals) + EvalAst(a.r, vals)
                           [] a.op = "-" -> EvalAst(a.l, vals) - EvalAst(a.r, vals)
                           [] a.op = "*" -> EvalAst(a.l, vals) * EvalAst(a.r, vals))

(* A slot is what the text replaces by value[annotation]:                  *)
(*   term      a dice term (record e.terms[ti])                            *)
(*   nested    a dice term whose count, sides or keep-count are themselves *)
(*             sums over rolls and variables, (2d3+x)d(1d4): record ti is  *)
(*             the outer term, subs what its operands contain, each shown  *)
(*             after the main part as ",text=value"                        *)
(*   var       a variable holding an integer; annotated with its name      *)
(*   computed  a computed value; annotated name=process=value              *)
SlotValue(e, s) == IF s.k \in {"term", "nested"} THEN e.terms[s.ti].total ELSE s.value

CheckSlot(e, s) ==
  CASE s.k = "term"     -> Tag(s.hasSpan /\ s.annotOk, "annotation")
    [] s.k = "nested"   ->
         LET m == Len(s.subs)
             sv == [i \in 1..m |-> IF s.subs[i].k = "term" THEN e.terms[s.subs[i].ti].total ELSE s.subs[i].value]
             o == e.terms[s.ti] IN
         Tag(s.hasSpan /\ \A i \in 1..m : s.subs[i].hasSpan, "annotation")
         \* a variable inside an operand shows the value it holds
         \cup Tag(\A i \in 1..m : s.subs[i].k = "var" => s.subs[i].value = s.subs[i].assigned, "sub-roll")
         \* every roll and variable inside the operands is listed after the main part, in source order, with its value
         \cup (IF e.aligned
               THEN Tag(s.annotOk /\ Len(s.annotSubs) = m
                        /\ \A i \in 1..Len(s.annotSubs) : i <= m => (s.annotSubs[i].name = s.subs[i].name /\ s.annotSubs[i].value = sv[i]), "sub-roll")
               ELSE {})
         \* the operands of the outer term are the values of its sub-expressions (its record was built so)
         \cup Tag(o.p.times = EvalAst(s.timesAst, sv) /\ o.p.sides = EvalAst(s.sidesAst, sv) /\ o.p.cnt = EvalAst(s.cntAst, sv), "sub-roll-count")
    [] s.k = "var"      -> Tag(s.hasSpan, "annotation")
                           \cup (IF e.aligned /\ Len(e.slots) > 1 THEN Tag(s.annotName = s.name, "annotation") ELSE {})
    [] s.k = "computed" -> Tag(s.hasSpan, "annotation")
                           \cup (IF e.aligned
                                 THEN Tag(s.annotOk /\ s.annotName = s.name /\ s.annotValue = s.value, "annotation")
                                 ELSE {})

CheckDetail(e) ==
  IF e.err THEN {"legal-rejected"}
  ELSE LET n == Len(e.slots)
           vals == [i \in 1..n |-> SlotValue(e, e.slots[i])] IN
       \* observing is harmless and idempotent
       Tag(~e.detailPanic, "detail-crash")
       \cup Tag(e.detail2 = e.detail, "not-idempotent")
       \cup Tag(e.retAfter = e.ret /\ e.varsAfter = e.varsBefore /\ e.seedAfter = e.seedBefore, "observation-changed-state")
       \* every slot was evaluated once, in source order
       \cup Tag(e.marks = Len(e.terms) + Cardinality({i \in 1..n : e.slots[i].k \in {"var", "computed"}})
                             + Cardinality({ij \in (1..n) \X (1..8) : e.slots[ij[1]].k = "nested" /\ ij[2] <= Len(e.slots[ij[1]].subs)
                                                                        /\ e.slots[ij[1]].subs[ij[2]].k = "var"}), "evaluation-count")
       \* the result is what the shown values imply
       \cup Tag(e.ret = EvalAst(e.ast, vals), "result-vs-values")
       \* structure of the text
       \cup (IF e.detail = "" THEN Tag(n = 0 \/ (n = 1 /\ e.ast.k \in {"slot", "paren", "neg"}), "text-missing")
             ELSE Tag(e.aligned, "structure")
                  \cup (IF ~e.aligned THEN {}
                        ELSE Tag(\A i \in 1..n : e.shownValues[i] = vals[i], "placeholder-value")))
       \cup UNION {CheckSlot(e, e.slots[i]) : i \in 1..n}
       \* every annotation against the dice rules and the dice actually rolled
       \cup UNION {Check(e.terms[i]) : i \in 1..Len(e.terms)}

Init == l = 1 /\ bad = <<>>
Step == /\ l <= Len(Trace)
        /\ LET why == CheckDetail(Trace[l]) IN bad' = IF why = {} THEN bad ELSE Append(bad, [i |-> l, why |-> why])
        /\ l' = l + 1
Finish == /\ l = Len(Trace) + 1
          /\ JsonSerialize(IOEnv.RESULT, [n |-> Len(Trace), bad |-> bad])
          /\ l' = l + 1 /\ UNCHANGED bad
Next == Step \/ Finish
Spec == Init /\ [][Next]_<<l, bad>>
=============================================================================
