------------------------------- MODULE Shared -------------------------------
(***************************************************************************)
(* C11: independent VMs.  N VMs with private state run one evaluation each *)
(* (more through the schedules the harness strings together).  What they   *)
(* could share is package-level state:                                     *)
(*   errLang    the language syntax errors are formatted in                *)
(*   globalRng  the generator unseeded VMs draw from                       *)
(* One evaluation of VM i is, at the granularity of the gates (hook H5):   *)
(*   Begin(i)   Parse starts: the language to use is fixed                 *)
(*   Parse(i)   the text is parsed; a syntax error is formatted            *)
(*   Draw(i)    an unseeded VM draws from the global generator             *)
(*              (read the state, then write it back: two steps)            *)
(*   End(i)     the evaluation returns                                     *)
(* AsWas = TRUE is the pinned code: Begin writes errLang, Parse reads it,  *)
(* draws are unsynchronised.  AsWas = FALSE is the repaired design: the    *)
(* language travels with the parser, draws are serialised by a lock.       *)
(*                                                                         *)
(* Lazily compiled code.  A die without sides evaluates the configured     *)
(* default-sides expression; its text is compiled on first use, under the  *)
(* flags of the VM that uses it, and the compiled object is kept in that   *)
(* VM's own configuration:                                                 *)
(*   LazyPrivate(i)  compile under flag[i], keep in pcache[i]              *)
(* SharedCache = TRUE is the design the code does NOT have (one compiled   *)
(* object per expression text for the whole process): look-up, then        *)
(* compile and store are two steps, and a VM runs whatever it finds:       *)
(*   LazyLookup(i), LazyStore(i)                                           *)
(* It exists so that TLC shows what Isolation and NoRace forbid there.     *)
(***************************************************************************)
EXTENDS Naturals, Sequences, FiniteSets, TLC

CONSTANTS N, AsWas, Langs,
          SharedCache,   \* the rejected design: one process-wide cache of lazily compiled code
          LazySet,       \* values lazy[i] may take (the schedules written for replay use {FALSE}: there is no gate at the compile step)
          FlagSet        \* values flag[i] may take (one value where the flag cannot matter, so that it does not multiply the schedules)

VM == 1..N

VARIABLES pc,        \* per VM: "idle" | "begun" | "parsed" | "drawing" | "drawn" | "done"
          lang,      \* per VM: its configured language
          unseeded,  \* per VM: whether it draws from the global generator
          errLang,   \* the package-level language (used only AsWas)
          usedLang,  \* per VM: the language its error was formatted in
          rng,       \* the global generator's state (a counter)
          held,      \* per VM: the state it read and has not yet written back
          draws,     \* per VM: the value it drew
          order,     \* the schedule: VM ids in the order of their steps
          flag,      \* per VM: a parse-time flag of its configuration ("on" | "off"), e.g. DisableBitwiseOp
          lazy,      \* per VM: whether its evaluation rolls a die without sides
          pcache,    \* per VM: the flag its privately cached default-sides code was compiled under ("none" before)
          gcache,    \* the process-wide cache (used only with SharedCache)
          ranUnder   \* per VM: the flag the default-sides code it executed was compiled under
lvars == <<flag, lazy, pcache, gcache, ranUnder>>
vars == <<pc, lang, unseeded, errLang, usedLang, rng, held, draws, order, flag, lazy, pcache, gcache, ranUnder>>

Init == /\ pc = [i \in VM |-> "idle"]
        /\ lang \in [VM -> Langs]
        /\ unseeded \in [VM -> BOOLEAN]
        /\ errLang \in Langs
        /\ usedLang = [i \in VM |-> "none"]
        /\ rng = 0 /\ held = [i \in VM |-> 0] /\ draws = [i \in VM |-> 0]
        /\ order = <<>>
        /\ flag \in [VM -> FlagSet] /\ lazy \in [VM -> LazySet]
        /\ pcache = [i \in VM |-> "none"] /\ gcache = "none" /\ ranUnder = [i \in VM |-> "none"]

Sched(i) == order' = Append(order, i)

Begin(i) == /\ pc[i] = "idle"
            /\ pc' = [pc EXCEPT ![i] = "begun"]
            /\ errLang' = IF AsWas THEN lang[i] ELSE errLang
            /\ Sched(i) /\ UNCHANGED <<lang, unseeded, usedLang, rng, held, draws, lvars>>
Parse(i) == /\ pc[i] = "begun"
            /\ pc' = [pc EXCEPT ![i] = "parsed"]
            /\ usedLang' = [usedLang EXCEPT ![i] = IF AsWas THEN errLang ELSE lang[i]]
            /\ Sched(i) /\ UNCHANGED <<lang, unseeded, errLang, rng, held, draws, lvars>>
\* the default-sides code: compiled on first use
Compiled(i) == lazy[i] => ranUnder[i] # "none"
Rest == <<lang, unseeded, errLang, usedLang, rng, held, draws, flag, lazy>>
LazyPrivate(i) == /\ pc[i] = "parsed" /\ lazy[i] /\ ~SharedCache /\ ranUnder[i] = "none"
                  /\ pcache' = [pcache EXCEPT ![i] = flag[i]] /\ ranUnder' = [ranUnder EXCEPT ![i] = flag[i]]
                  /\ Sched(i) /\ UNCHANGED <<pc, gcache, Rest>>
LazyLookup(i) == /\ pc[i] = "parsed" /\ lazy[i] /\ SharedCache /\ ranUnder[i] = "none"
                 /\ IF gcache = "none" THEN pc' = [pc EXCEPT ![i] = "compiling"] /\ UNCHANGED ranUnder
                                       ELSE ranUnder' = [ranUnder EXCEPT ![i] = gcache] /\ UNCHANGED pc
                 /\ Sched(i) /\ UNCHANGED <<pcache, gcache, Rest>>
LazyStore(i) == /\ pc[i] = "compiling"
                /\ gcache' = flag[i] /\ ranUnder' = [ranUnder EXCEPT ![i] = flag[i]]
                /\ pc' = [pc EXCEPT ![i] = "parsed"]
                /\ Sched(i) /\ UNCHANGED <<pcache, Rest>>
\* a draw: unsynchronised read ... write (AsWas), or one step under the lock
DrawRead(i) == /\ pc[i] = "parsed" /\ unseeded[i] /\ AsWas /\ Compiled(i)
               /\ pc' = [pc EXCEPT ![i] = "drawing"]
               /\ held' = [held EXCEPT ![i] = rng]
               /\ Sched(i) /\ UNCHANGED <<lang, unseeded, errLang, usedLang, rng, draws, lvars>>
DrawWrite(i) == /\ pc[i] = "drawing"
                /\ pc' = [pc EXCEPT ![i] = "drawn"]
                /\ rng' = held[i] + 1 /\ draws' = [draws EXCEPT ![i] = held[i] + 1]
                /\ Sched(i) /\ UNCHANGED <<lang, unseeded, errLang, usedLang, held, lvars>>
DrawLocked(i) == /\ pc[i] = "parsed" /\ unseeded[i] /\ ~AsWas /\ Compiled(i)
                 /\ pc' = [pc EXCEPT ![i] = "drawn"]
                 /\ rng' = rng + 1 /\ draws' = [draws EXCEPT ![i] = rng + 1]
                 /\ Sched(i) /\ UNCHANGED <<lang, unseeded, errLang, usedLang, held, lvars>>
End(i) == /\ pc[i] \in {"parsed", "drawn"} /\ (pc[i] = "parsed" => ~unseeded[i]) /\ Compiled(i)
          /\ pc' = [pc EXCEPT ![i] = "done"]
          /\ Sched(i) /\ UNCHANGED <<lang, unseeded, errLang, usedLang, rng, held, draws, lvars>>

View == <<pc, lang, unseeded, errLang, usedLang, rng, held, draws, flag, lazy, pcache, gcache, ranUnder>>   \* (the schedule is history, not state)

Next == \E i \in VM : Begin(i) \/ Parse(i) \/ LazyPrivate(i) \/ LazyLookup(i) \/ LazyStore(i) \/ DrawRead(i) \/ DrawWrite(i) \/ DrawLocked(i) \/ End(i)
Spec == Init /\ [][Next]_vars

-----------------------------------------------------------------------------
\* each VM's error is in its own language, whatever the others do
\* ... and the code it runs was compiled under its own flags
Isolation == \A i \in VM : usedLang[i] \in {"none", lang[i]} /\ ranUnder[i] \in {"none", flag[i]}
\* two VMs never have conflicting unordered accesses to package-level state in flight
NoRace == /\ \A i, j \in VM : (i # j /\ pc[i] = "drawing") => pc[j] # "drawing"
          /\ \A i, j \in VM : (i # j /\ pc[i] = "compiling") => pc[j] # "compiling"
          /\ AsWas => \A i, j \in VM : (i # j /\ pc[i] = "begun" /\ pc[j] = "idle") => lang[i] = lang[j]
\* no draw is lost: every unseeded VM that has drawn got its own value
NoLostDraw == \A i, j \in VM : (i # j /\ draws[i] # 0 /\ draws[j] # 0) => draws[i] # draws[j]
=============================================================================
