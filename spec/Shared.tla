------------------------------- MODULE Shared -------------------------------
(***************************************************************************)
(* C11: independent VMs.  N VMs with private state run one evaluation each *)
(* (more through the schedules the harness strings together).  What they   *)
(* could share is package-level state:                                     *)
(*   errLang    the language syntax errors are formatted in                *)
(*   globalRng  the generator unseeded VMs draw from                       *)
(* One evaluation of VM i is, at the granularity of the gates (hook H5):   *)
(*   Begin(i)   Parse starts: the language to use is fixed                 *)
(*   Parse(i)   the text is parsed; a syntax error is formatted            *)
(*   Draw(i)    an unseeded VM draws from the global generator             *)
(*              (read the state, then write it back: two steps)            *)
(*   End(i)     the evaluation returns                                     *)
(* AsWas = TRUE is the pinned code: Begin writes errLang, Parse reads it,  *)
(* draws are unsynchronised.  AsWas = FALSE is the repaired design: the    *)
(* language travels with the parser, draws are serialised by a lock.       *)
(***************************************************************************)
EXTENDS Naturals, Sequences, FiniteSets, TLC

CONSTANTS N, AsWas, Langs

VM == 1..N

VARIABLES pc,        \* per VM: "idle" | "begun" | "parsed" | "drawing" | "drawn" | "done"
          lang,      \* per VM: its configured language
          unseeded,  \* per VM: whether it draws from the global generator
          errLang,   \* the package-level language (used only AsWas)
          usedLang,  \* per VM: the language its error was formatted in
          rng,       \* the global generator's state (a counter)
          held,      \* per VM: the state it read and has not yet written back
          draws,     \* per VM: the value it drew
          order      \* the schedule: VM ids in the order of their steps
vars == <<pc, lang, unseeded, errLang, usedLang, rng, held, draws, order>>

Init == /\ pc = [i \in VM |-> "idle"]
        /\ lang \in [VM -> Langs]
        /\ unseeded \in [VM -> BOOLEAN]
        /\ errLang \in Langs
        /\ usedLang = [i \in VM |-> "none"]
        /\ rng = 0 /\ held = [i \in VM |-> 0] /\ draws = [i \in VM |-> 0]
        /\ order = <<>>

Sched(i) == order' = Append(order, i)

Begin(i) == /\ pc[i] = "idle"
            /\ pc' = [pc EXCEPT ![i] = "begun"]
            /\ errLang' = IF AsWas THEN lang[i] ELSE errLang
            /\ Sched(i) /\ UNCHANGED <<lang, unseeded, usedLang, rng, held, draws>>
Parse(i) == /\ pc[i] = "begun"
            /\ pc' = [pc EXCEPT ![i] = "parsed"]
            /\ usedLang' = [usedLang EXCEPT ![i] = IF AsWas THEN errLang ELSE lang[i]]
            /\ Sched(i) /\ UNCHANGED <<lang, unseeded, errLang, rng, held, draws>>
\* a draw: unsynchronised read ... write (AsWas), or one step under the lock
DrawRead(i) == /\ pc[i] = "parsed" /\ unseeded[i] /\ AsWas
               /\ pc' = [pc EXCEPT ![i] = "drawing"]
               /\ held' = [held EXCEPT ![i] = rng]
               /\ Sched(i) /\ UNCHANGED <<lang, unseeded, errLang, usedLang, rng, draws>>
DrawWrite(i) == /\ pc[i] = "drawing"
                /\ pc' = [pc EXCEPT ![i] = "drawn"]
                /\ rng' = held[i] + 1 /\ draws' = [draws EXCEPT ![i] = held[i] + 1]
                /\ Sched(i) /\ UNCHANGED <<lang, unseeded, errLang, usedLang, held>>
DrawLocked(i) == /\ pc[i] = "parsed" /\ unseeded[i] /\ ~AsWas
                 /\ pc' = [pc EXCEPT ![i] = "drawn"]
                 /\ rng' = rng + 1 /\ draws' = [draws EXCEPT ![i] = rng + 1]
                 /\ Sched(i) /\ UNCHANGED <<lang, unseeded, errLang, usedLang, held>>
End(i) == /\ pc[i] \in {"parsed", "drawn"} /\ (pc[i] = "parsed" => ~unseeded[i])
          /\ pc' = [pc EXCEPT ![i] = "done"]
          /\ Sched(i) /\ UNCHANGED <<lang, unseeded, errLang, usedLang, rng, held, draws>>

View == <<pc, lang, unseeded, errLang, usedLang, rng, held, draws>>   \* (the schedule is history, not state)

Next == \E i \in VM : Begin(i) \/ Parse(i) \/ DrawRead(i) \/ DrawWrite(i) \/ DrawLocked(i) \/ End(i)
Spec == Init /\ [][Next]_vars

-----------------------------------------------------------------------------
\* each VM's error is in its own language, whatever the others do
Isolation == \A i \in VM : usedLang[i] \in {"none", lang[i]}
\* two VMs never have conflicting unordered accesses to package-level state in flight
NoRace == /\ \A i, j \in VM : (i # j /\ pc[i] = "drawing") => pc[j] # "drawing"
          /\ AsWas => \A i, j \in VM : (i # j /\ pc[i] = "begun" /\ pc[j] = "idle") => lang[i] = lang[j]
\* no draw is lost: every unseeded VM that has drawn got its own value
NoLostDraw == \A i, j \in VM : (i # j /\ draws[i] # 0 /\ draws[j] # 0) => draws[i] # draws[j]
=============================================================================
