----------------------------- MODULE Trace_Codec -----------------------------
(* C10: every decoded document is either rejected or well-formed (Codec!WellFormed on the harness's projection of the decoded
   value) and survives the battery of operations without a crash. *)
EXTENDS Codec, Json, IOUtils, TLC
Trace == ndJsonDeserialize(IOEnv.TRACE)
VARIABLES l, bad
Tag(c, t) == IF c THEN {} ELSE {t}
Check(e) ==
  IF e.err THEN Tag(~e.decodePanic, "decode-crash")
  ELSE Tag(~e.decodePanic, "decode-crash")
       \cup Tag(WellFormed(e.proj), "ill-formed-value")
       \cup Tag(\A i \in 1..Len(e.battery) : ~e.battery[i].panic, "operation-crash")
Init == l = 1 /\ bad = <<>>
Step == /\ l <= Len(Trace)
        /\ LET why == Check(Trace[l]) IN bad' = IF why = {} THEN bad ELSE Append(bad, [i |-> l, why |-> why])
        /\ l' = l + 1
Finish == /\ l = Len(Trace) + 1
          /\ JsonSerialize(IOEnv.RESULT, [n |-> Len(Trace), bad |-> bad])
          /\ l' = l + 1 /\ UNCHANGED bad
Next == Step \/ Finish
Spec == Init /\ [][Next]_<<l, bad>>
=============================================================================
