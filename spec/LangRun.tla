------------------------------ MODULE LangRun ------------------------------
(***************************************************************************)
(* Oracle driver: reads histories of programs as JSON ASTs (IOEnv.ASTS),   *)
(* and for every program writes the token sequence the published grammar   *)
(* prescribes (Unparse) and the outcome the definitional semantics         *)
(* prescribes (Lang): value or error, and the variables afterwards.  The   *)
(* programs of one history run on one VM (state carried over, also after a *)
(* failed program).  Output: IOEnv.OUT.<chunk> (ndjson), one line per      *)
(* history.  A program outside the oracle's domain ends its history.       *)
(***************************************************************************)
EXTENDS Lang, Unparse, Json, IOUtils

Asts == ndJsonDeserialize(IOEnv.ASTS)
Chunk == 250

RECURSIVE RunHist(_, _, _, _)
RunHist(progs, k, S, acc) ==
  IF k > Len(progs) THEN acc
  ELSE LET S0 == [S EXCEPT !.env = <<1>>, !.tdepth = 0]
           r  == RunProgram(progs[k], S0)
           toks == UStmts(progs[k]) IN
       IF r.sig = "ood"
       THEN Append(acc, [toks |-> toks, sig |-> "ood", v |-> VNull, vars |-> <<>>])
       ELSE RunHist(progs, k + 1, r.S,
                    Append(acc, [toks |-> toks, sig |-> r.sig, v |-> r.v, vars |-> VarsOf(r.S), pos |-> r.S.pos]))

Case(h) == [id |-> h.id, cfg |-> h.cfg, faces |-> h.faces,
            runs |-> RunHist(h.progs, 1, InitState(h.cfg, h.faces), <<>>)]

VARIABLE c
NChunks == (Len(Asts) + Chunk - 1) \div Chunk
Init == c = 1
Next == /\ c <= NChunks
        /\ LET lo == (c - 1) * Chunk + 1
               hi == IF c * Chunk > Len(Asts) THEN Len(Asts) ELSE c * Chunk IN
           ndJsonSerialize(IOEnv.OUT \o "." \o ToString(c), [j \in 1..(hi - lo + 1) |-> Case(Asts[lo + j - 1])])
        /\ c' = c + 1
Spec == Init /\ [][Next]_c
=============================================================================
