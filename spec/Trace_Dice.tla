----------------------------- MODULE Trace_Dice -----------------------------
(***************************************************************************)
(* Trace validation for the dice families (C04, C15 and the own-source     *)
(* part of C06).  One event = one evaluation of one dice term on the real  *)
(* package (through the Roll* functions or through VM syntax), carrying    *)
(*   - the parameters, the mode,                                           *)
(*   - every call of Roll observed by hook H2: sides asked, mode, face,    *)
(*     and whether the context's own generator was used,                   *)
(*   - the returned total / error, and the dice DISPLAYED in the detail    *)
(*     text, parsed by the harness,                                        *)
(*   - whether the generator state moved.                                  *)
(* The rules of Dice.tla are recomputed from the observed faces and every  *)
(* observed field is compared.  Failures are collected, not fatal.         *)
(***************************************************************************)
EXTENDS DiceCheck, Json, IOUtils

Trace == ndJsonDeserialize(IOEnv.TRACE)

VARIABLES l, bad

Init == l = 1 /\ bad = <<>>

Step == /\ l <= Len(Trace)
        /\ LET why == CheckAny(Trace[l]) IN
           bad' = IF why = {} THEN bad ELSE Append(bad, [i |-> l, why |-> why])
        /\ l' = l + 1

Finish == /\ l = Len(Trace) + 1
          /\ JsonSerialize(IOEnv.RESULT, [n |-> Len(Trace), bad |-> bad])
          /\ l' = l + 1
          /\ UNCHANGED bad

Next == Step \/ Finish
Spec == Init /\ [][Next]_<<l, bad>>
=============================================================================
