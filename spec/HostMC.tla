------------------------------- MODULE HostMC -------------------------------
(* Bounded instance: every call sequence up to MaxLen written as a replay plan. *)
EXTENDS Host, IOUtils, Json
MaxLen == atoi(IOEnv.MAXLEN)
Dump == \/ Len(hist) < MaxLen
        \/ Serialize(ToJson([calls |-> hist]) \o "\n", IOEnv.OUT, [format |-> "TXT", charset |-> "UTF-8", openOptions |-> <<"WRITE", "CREATE", "APPEND">>]).exitValue = 0
Bound == Len(hist) <= MaxLen /\ Dump
NextB == Len(hist) < MaxLen /\ Next
=============================================================================
