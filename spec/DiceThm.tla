------------------------------ MODULE DiceThm ------------------------------
(***************************************************************************)
(* Theorems about the dice rules of Dice.tla, checked by TLC over every    *)
(* parameter tuple of a grid and EVERY face sequence (each initial state   *)
(* is one (term, faces) pair):                                             *)
(*  C04  totals lie in the range the rule allows, kept and dropped dice    *)
(*       partition the clamped faces, pick counts are right;               *)
(*  C15  "every die at its lowest / highest face" (how min- and max-mode   *)
(*       are documented) brackets every outcome, and for XdY terms the     *)
(*       bounds are attained and equal the closed forms.                   *)
(* CocBracket is the same statement for CoC dice; it is FALSE for penalty  *)
(* dice (lowest faces give 11, faces <<5,10>> give 5): a design-level      *)
(* finding that the replay then confirms on the code.                      *)
(***************************************************************************)
EXTENDS Dice

CONSTANTS T, S, CocN

VARIABLES fam, t, s, kind, cnt, mn, mx, faces, bonus

vars == <<fam, t, s, kind, cnt, mn, mx, faces, bonus>>

Clamps(ss) == {<<NONE, NONE>>} \cup {<<a, NONE>> : a \in 0..(ss + 2)} \cup {<<NONE, b>> : b \in 0..(ss + 2)}
              \cup {<<a, b>> \in (1..ss) \X (1..ss) : a <= b}

InitCommon ==
  /\ fam = "common" /\ bonus = FALSE
  /\ t \in 1..T /\ s \in 1..S
  /\ kind \in 0..4
  /\ cnt \in (IF kind = 0 THEN {0} ELSE 1..(t + 1))
  /\ \E cl \in Clamps(s) : mn = cl[1] /\ mx = cl[2]
  /\ faces \in [1..t -> 1..s]

InitFate ==
  /\ fam = "fate" /\ bonus = FALSE /\ t = 4 /\ s = 3 /\ kind = 0 /\ cnt = 0 /\ mn = NONE /\ mx = NONE
  /\ faces \in [1..4 -> 1..3]

InitCoc ==
  /\ fam = "coc" /\ bonus \in BOOLEAN /\ s = 10 /\ kind = 0 /\ cnt = 0 /\ mn = NONE /\ mx = NONE
  /\ t \in 0..CocN
  /\ \E base \in 1..100 : \E tens \in [1..t -> 1..10] : faces = <<base>> \o tens

Init == InitCommon \/ InitFate \/ InitCoc
Next == UNCHANGED vars
Spec == Init /\ [][Next]_vars

C == Common(faces, kind, cnt, mn, mx)
Ones(n, v) == [i \in 1..n |-> v]

IsPerm(a, b) == Asc(a) = Asc(b)

CommonThm ==
  fam = "common" =>
    LET p  == Pick(t, kind, cnt)
        lo == Clamp(1, mn, mx)
        hi == Clamp(s, mn, mx)
        cl == [i \in 1..t |-> Clamp(faces[i], mn, mx)]
    IN /\ Len(C.kept) = p /\ Len(C.dropped) = t - p
       /\ IsPerm(C.kept \o C.dropped, cl)
       /\ \A i \in 1..t : cl[i] >= lo /\ cl[i] <= hi
       /\ C.total >= p * lo /\ C.total <= p * hi
       \* keep-low/drop-high keep the smallest p, keep-high/drop-low the largest p
       /\ (kind \in {1, 4} => \A i \in 1..Len(C.kept) : \A j \in 1..Len(C.dropped) : C.kept[i] <= C.dropped[j])
       /\ (kind \in {2, 3} => \A i \in 1..Len(C.kept) : \A j \in 1..Len(C.dropped) : C.kept[i] >= C.dropped[j])

\* C15 for XdY: bracketing, attained, closed forms
CommonBracket ==
  fam = "common" =>
    LET lowRun  == Common(Ones(t, 1), kind, cnt, mn, mx).total
        highRun == Common(Ones(t, s), kind, cnt, mn, mx).total
    IN /\ lowRun <= C.total /\ C.total <= highRun
       /\ lowRun = CommonAllLow(t, kind, cnt, mn, mx)
       /\ highRun = CommonAllHigh(t, s, kind, cnt, mn, mx)

FateThm ==
  fam = "fate" => /\ Fate(faces) >= -4 /\ Fate(faces) <= 4
                  /\ Fate(Ones(4, 1)) <= Fate(faces) /\ Fate(faces) <= Fate(Ones(4, 3))

CocThm ==
  fam = "coc" => LET v == CoC(faces[1], Tail(faces), bonus) IN
                 /\ v >= 1 /\ v <= 100
                 /\ v % 10 = faces[1] % 10                       \* the units die is never replaced
                 /\ (bonus => v <= faces[1]) /\ (~bonus => v >= faces[1])

\* the mode semantics of CoC dice (tens dice show 0): bounds 1 and 100, attained
CocModeBracket ==
  fam = "coc" => LET v == CoC(faces[1], Tail(faces), bonus) IN
                 /\ CoCInMode(t, bonus, -1) <= v /\ v <= CoCInMode(t, bonus, 1)
                 /\ CoCInMode(t, bonus, -1) = 1 /\ CoCInMode(t, bonus, 1) = 100

\* "every die at its lowest face" applied naively to CoC dice: NOT a theorem for penalty dice
CocBracket ==
  fam = "coc" => LET v  == CoC(faces[1], Tail(faces), bonus)
                     lo == CoC(1, Ones(t, 1), bonus)
                     hi == CoC(100, Ones(t, 10), bonus)
                 IN lo <= v /\ v <= hi
=============================================================================
