---------------------------- MODULE Trace_VMap ----------------------------
(***************************************************************************)
(* Trace validation for C12 (sequential): a log of calls made on a real    *)
(* ValueMap, with the observed return values (Obs) and a snapshot of the   *)
(* internals (Aux), must be a behaviour of the abstract map and of the     *)
(* implementation machine of VMapDefs.  Many independent histories are     *)
(* concatenated with "reset" events.  A mismatch does not stop the run:    *)
(* its index is collected in bad (Obs) or drift (Aux).                     *)
(***************************************************************************)
EXTENDS VMapDefs, Json, IOUtils

Trace == ndJsonDeserialize(IOEnv.TRACE)

VARIABLES l, abs, impl, bad, drift

vars == <<l, abs, impl, bad, drift>>

SeqToSet(s) == {s[i] : i \in 1..Len(s)}

Shape(s) == [readLen |-> Cardinality(s.inRead), dirtyLen |-> Cardinality(s.inDirty), misses |-> s.misses,
             amended |-> s.amended, dirtyNil |-> s.dirtyNil,
             readNil |-> Cardinality({k \in s.inRead : s.ent[k] = NIL}),
             readExp |-> Cardinality({k \in s.inRead : s.ent[k] = EXP})]

Init == l = 1 /\ abs = AInit /\ impl = IInit /\ bad = {} /\ drift = {}

Step ==
  /\ l <= Len(Trace)
  /\ LET e == Trace[l] IN
     IF e.ev = "reset"
     THEN /\ abs' = AInit /\ impl' = IInit /\ UNCHANGED <<bad, drift>>
     ELSE LET c == [op |-> e.op, k |-> e.k, v |-> e.v]
              a == ACall(abs, c)
              i == ICall(impl, c)
              obsOK == a.res = e.res /\ a.ok = e.ok /\ a.rng = SeqToSet(e.rng)
              auxOK == Shape(i.s) = e.aux
          IN /\ abs' = a.m
             /\ impl' = i.s
             /\ bad' = IF obsOK THEN bad ELSE bad \cup {l}
             /\ drift' = IF auxOK THEN drift ELSE drift \cup {l}
  /\ l' = l + 1

Finish == /\ l = Len(Trace) + 1
          /\ JsonSerialize(IOEnv.RESULT, [n |-> Len(Trace), bad |-> bad, drift |-> drift])
          /\ l' = l + 1
          /\ UNCHANGED <<abs, impl, bad, drift>>

Next == Step \/ Finish
Spec == Init /\ [][Next]_vars

\* refinement still holds along the observed behaviour
AbsAlong == Abs(impl) = abs
=============================================================================
