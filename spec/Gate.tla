------------------------------- MODULE Gate -------------------------------
(***************************************************************************)
(* C16: configuration flags gate what an input can do.                     *)
(*                                                                         *)
(* The VM owns a configuration cfg.  Parse copies it into the parser's     *)
(* copy pcfg; every gated alternative of the grammar consults pcfg at the  *)
(* moment it is tried.  A macro line  // #EnableDice <family> <bool>       *)
(* writes pcfg only; the part of an st-command value (assigned value or    *)
(* modification amount) that is not inside parentheses is parsed with      *)
(* statements, default-sides dice and bitwise operators switched off (the  *)
(* flags are saved before and restored after it, and restored for what is  *)
(* inside parentheses).                                                    *)
(* When the parse ends pcfg is discarded; cfg is never written.            *)
(* Text that is compiled only when it is first evaluated - a computed      *)
(* value created by the host or restored from JSON, the default-sides      *)
(* expression, the text given to RunExpr - is compiled by a child VM that  *)
(* starts from cfg: the macros of the input being evaluated do not reach   *)
(* it (its code is cached, so they would outlive that input).              *)
(*                                                                         *)
(* Two passes.  The grammar guards most alternatives with a look-ahead of  *)
(* the same text (&X X), and the code emitted by an alternative that fails *)
(* after its guard succeeded is not taken back: the guard and the real     *)
(* parse must make the same thing of every item.  Predicates run in both   *)
(* passes, actions only in the real one.  gcfg is the configuration the    *)
(* guard of the enclosing expression sees:                                 *)
(*   - the switches of an st value are set by predicates (repaired;        *)
(*     GuardSeesSwitches = FALSE is the grammar as it was: an action);     *)
(*   - a macro line is an action.  At statement position that is harmless  *)
(*     (the next guard starts after it).  Inside a template block in the   *)
(*     middle of an expression (MacroInHole) the guard of that expression  *)
(*     has parsed the rest under the old flags: a known defect of the      *)
(*     code, outside the configurations that must hold (HoleMacros).       *)
(*                                                                         *)
(* One input is a sequence of items (one per line); the machine records    *)
(* for each item what the published grammar makes of it under the flags    *)
(* in force:                                                               *)
(*   dice   the family / default-sides dice is compiled                    *)
(*   ident  the spelling is an ordinary identifier (a variable load)       *)
(*   stmt   a statement construct is compiled                              *)
(*   op     a bitwise operator is compiled                                 *)
(*   stop   the spelling is not a program under these flags: the matched   *)
(*          text ends before it                                            *)
(*   error  the input is rejected as a whole (a statement keyword where    *)
(*          statements are off is reported, not skipped)                   *)
(***************************************************************************)
EXTENDS Naturals, Sequences, FiniteSets, TLC

Fam == {"coc", "wod", "fate", "doublecross"}

\* spellings of one dice term per family; `idlike` spellings are identifiers when the family is off
Forms == [coc         |-> <<[s |-> "b2", idlike |-> TRUE], [s |-> "p", idlike |-> TRUE], [s |-> "B", idlike |-> TRUE], [s |-> "P3", idlike |-> TRUE]>>,
          wod         |-> <<[s |-> "a10", idlike |-> TRUE], [s |-> "3a10", idlike |-> FALSE], [s |-> "2A9m8k6", idlike |-> FALSE]>>,
          fate        |-> <<[s |-> "f", idlike |-> TRUE], [s |-> "F", idlike |-> TRUE]>>,
          doublecross |-> <<[s |-> "2c5", idlike |-> FALSE], [s |-> "3C10m7", idlike |-> FALSE]>>]

StmtKinds == {"if", "while", "func"}
NDiceForms == <<[s |-> "d", idlike |-> TRUE], [s |-> "2d", idlike |-> FALSE], [s |-> "D", idlike |-> TRUE]>>

FlagSets == [fam : [Fam -> BOOLEAN], noStmts : BOOLEAN, noNDice : BOOLEAN, noBit : BOOLEAN]

CONSTANTS GuardSeesSwitches,   \* the look-ahead pass sees the switches of an st value (TRUE: the code; FALSE: as it was)
          HoleMacros           \* macro lines inside template blocks in the middle of an expression are part of the behaviours

VARIABLES cfg,    \* the VM's configuration
          pcfg,   \* the parser's copy while an input is being parsed
          phase,  \* "idle" | "parse" | "stopped"
          cur,    \* items of the input being parsed, with what became of each
          macros, \* families switched on by a macro earlier in this input
          runs,   \* finished inputs of this VM
          gcfg    \* what the guard (look-ahead) of the expression being parsed sees
vars == <<cfg, pcfg, phase, cur, macros, runs, gcfg>>

Init == /\ cfg \in FlagSets
        /\ pcfg = cfg /\ phase = "idle" /\ cur = <<>> /\ macros = {} /\ runs = <<>> /\ gcfg = cfg

Begin == /\ phase = "idle"
         /\ pcfg' = cfg                      \* the copy
         /\ phase' = "parse" /\ cur' = <<>> /\ macros' = {}
         /\ gcfg' = cfg
         /\ UNCHANGED <<cfg, runs>>

Put(item, becomes) ==
  /\ cur' = Append(cur, item @@ [as |-> becomes])
  /\ phase' = IF becomes \in {"stop", "error"} THEN "stopped" ELSE "parse"

\* // #EnableDice f on   -- at statement position
Macro(f, on) == /\ phase = "parse"
                /\ pcfg' = [pcfg EXCEPT !.fam[f] = on]
                /\ macros' = IF on THEN macros \cup {f} ELSE macros
                /\ Put([t |-> "macro", f |-> f, on |-> on, guard |-> "macro"], "macro")
                /\ gcfg' = pcfg'                \* statement position: the next guard starts after the line
                /\ UNCHANGED <<cfg, runs>>

\* the same line inside a template block in the middle of an expression: the guard of the expression does not see it
MacroInHole(f, on) == /\ HoleMacros /\ phase = "parse"
                      /\ pcfg' = [pcfg EXCEPT !.fam[f] = on]
                      /\ macros' = IF on THEN macros \cup {f} ELSE macros
                      /\ Put([t |-> "macro", f |-> f, on |-> on, guard |-> "macro"], "macro")
                      /\ UNCHANGED <<cfg, runs, gcfg>>
\* the expression ends: the next statement is guarded afresh
NextStmt == /\ phase = "parse" /\ gcfg # pcfg
            /\ gcfg' = pcfg
            /\ UNCHANGED <<cfg, pcfg, phase, cur, macros, runs>>

UseOutcome(flags, f, form) == IF flags.fam[f] THEN "dice" ELSE IF form.idlike THEN "ident" ELSE "stop"
NDiceOutcome(flags, form) == IF ~flags.noNDice THEN "dice" ELSE IF form.idlike THEN "ident" ELSE "stop"

Use(f, i) == /\ phase = "parse"
             /\ Put([t |-> "use", f |-> f, s |-> Forms[f][i].s, guard |-> UseOutcome(gcfg, f, Forms[f][i])], UseOutcome(pcfg, f, Forms[f][i]))
             /\ UNCHANGED <<cfg, pcfg, macros, runs, gcfg>>

Stmt(k) == /\ phase = "parse"
           /\ Put([t |-> "stmt", kind |-> k, guard |-> IF gcfg.noStmts THEN "error" ELSE "stmt"], IF pcfg.noStmts THEN "error" ELSE "stmt")
           /\ UNCHANGED <<cfg, pcfg, macros, runs, gcfg>>

NDice(i) == /\ phase = "parse"
            /\ Put([t |-> "ndice", s |-> NDiceForms[i].s, guard |-> NDiceOutcome(gcfg, NDiceForms[i])], NDiceOutcome(pcfg, NDiceForms[i]))
            /\ UNCHANGED <<cfg, pcfg, macros, runs, gcfg>>

Bitwise == /\ phase = "parse"
           /\ Put([t |-> "bit", guard |-> IF gcfg.noBit THEN "stop" ELSE "op"], IF pcfg.noBit THEN "stop" ELSE "op")
           /\ UNCHANGED <<cfg, pcfg, macros, runs, gcfg>>

\* an st command value: flags saved, the three switches turned off unless the value is parenthesised, restored after
EstFlags(flags, paren) == IF paren THEN flags ELSE [flags EXCEPT !.noStmts = TRUE, !.noNDice = TRUE, !.noBit = TRUE]
\* ... and what the guards of the st alternatives see of that
EstGuard(flags, paren) == IF GuardSeesSwitches THEN EstFlags(flags, paren) ELSE flags

StUse(paren, f, i) ==
  /\ phase = "parse" /\ cur = <<>>           \* an st command is the whole input
  /\ Put([t |-> "st", paren |-> paren, inner |-> "use", f |-> f, s |-> Forms[f][i].s, guard |-> UseOutcome(EstGuard(gcfg, paren), f, Forms[f][i])],
         UseOutcome(EstFlags(pcfg, paren), f, Forms[f][i]))
  /\ phase' = "stopped"
  /\ UNCHANGED <<cfg, pcfg, macros, runs, gcfg>>  \* pcfg restored
StNDice(paren, i) ==
  /\ phase = "parse" /\ cur = <<>>
  /\ Put([t |-> "st", paren |-> paren, inner |-> "ndice", s |-> NDiceForms[i].s, guard |-> NDiceOutcome(EstGuard(gcfg, paren), NDiceForms[i])],
         NDiceOutcome(EstFlags(pcfg, paren), NDiceForms[i]))
  /\ phase' = "stopped"
  /\ UNCHANGED <<cfg, pcfg, macros, runs, gcfg>>
StBitwise(paren) ==
  /\ phase = "parse" /\ cur = <<>>
  /\ Put([t |-> "st", paren |-> paren, inner |-> "bit", guard |-> IF EstGuard(gcfg, paren).noBit THEN "stop" ELSE "op"], IF EstFlags(pcfg, paren).noBit THEN "stop" ELSE "op")
  /\ phase' = "stopped"
  /\ UNCHANGED <<cfg, pcfg, macros, runs, gcfg>>

\* the input loads a host-created computed value whose text is the spelling: compiled lazily, from cfg
Lazy(f, i) == /\ phase = "parse" /\ Forms[f][i].idlike
              /\ Put([t |-> "lazy", f |-> f, s |-> Forms[f][i].s, guard |-> UseOutcome(cfg, f, Forms[f][i])], UseOutcome(cfg, f, Forms[f][i]))
              /\ UNCHANGED <<cfg, pcfg, macros, runs, gcfg>>

\* the host evaluates a text with RunExpr between inputs: an input of its own, compiled from cfg
RunExpr(f, i) == /\ phase = "idle" /\ Forms[f][i].idlike
                 /\ runs' = Append(runs, <<[t |-> "runexpr", f |-> f, s |-> Forms[f][i].s, as |-> UseOutcome(cfg, f, Forms[f][i])]>>)
                 /\ UNCHANGED <<cfg, pcfg, phase, cur, macros, gcfg>>

End == /\ phase \in {"parse", "stopped"}
       /\ runs' = Append(runs, cur)
       /\ phase' = "idle" /\ cur' = <<>> /\ macros' = {}
       /\ pcfg' = cfg                        \* the copy is discarded
       /\ gcfg' = cfg
       /\ UNCHANGED cfg

Next == \/ Begin \/ End \/ NextStmt
        \/ \E f \in Fam, on \in BOOLEAN : Macro(f, on) \/ MacroInHole(f, on)
        \/ \E f \in Fam : \E i \in 1..Len(Forms[f]) : Use(f, i) \/ Lazy(f, i) \/ RunExpr(f, i)
        \/ \E k \in StmtKinds : Stmt(k)
        \/ \E i \in 1..Len(NDiceForms) : NDice(i)
        \/ Bitwise
        \/ \E p \in BOOLEAN : \/ \E f \in Fam : \E i \in 1..Len(Forms[f]) : StUse(p, f, i)
                              \/ \E i \in 1..Len(NDiceForms) : StNDice(p, i)
                              \/ StBitwise(p)

Spec == Init /\ [][Next]_vars

-----------------------------------------------------------------------------
(* Properties *)
TypeOK == cfg \in FlagSets /\ pcfg \in FlagSets /\ phase \in {"idle", "parse", "stopped"}

\* a family is compiled only if the VM enables it or a macro of this very input did
FamilyGated == \A i \in 1..Len(cur) :
                 (cur[i].t \in {"use", "st"} /\ "f" \in DOMAIN cur[i] /\ cur[i].as = "dice")
                   => (cfg.fam[cur[i].f] \/ \E j \in 1..(i-1) : cur[j].t = "macro" /\ cur[j].f = cur[i].f /\ cur[j].on)
\* lazily compiled text is gated by the VM's configuration alone
LazyGated == /\ \A i \in 1..Len(cur) : (cur[i].t = "lazy" /\ cur[i].as = "dice") => cfg.fam[cur[i].f]
             /\ \A r \in 1..Len(runs) : \A i \in 1..Len(runs[r]) :
                   (runs[r][i].t \in {"lazy", "runexpr"} /\ runs[r][i].as = "dice") => cfg.fam[runs[r][i].f]
\* with statements disabled nothing becomes a statement construct
StmtsGated == cfg.noStmts => \A i \in 1..Len(cur) : cur[i].as # "stmt"
NDiceGated == cfg.noNDice => \A i \in 1..Len(cur) : ~(cur[i].t \in {"ndice"} /\ cur[i].as = "dice")
BitGated   == cfg.noBit => \A i \in 1..Len(cur) : cur[i].as # "op"
\* what the parser's copy may differ in: only families, and only through macros of this input
CopyDiffers == /\ pcfg.noStmts = cfg.noStmts /\ pcfg.noNDice = cfg.noNDice /\ pcfg.noBit = cfg.noBit
               /\ \A f \in Fam : (pcfg.fam[f] /\ ~cfg.fam[f]) => f \in macros
\* the guard and the real parse make the same thing of every item (else code emitted by an abandoned alternative stays in the program)
GuardAgrees == \A i \in 1..Len(cur) : cur[i].guard = cur[i].as
\* a macro is over when its input is over
MacroScoped == phase = "idle" => pcfg = cfg /\ macros = {}
\* the configuration of the VM never changes
CfgStable == [][cfg' = cfg]_vars
=============================================================================
