------------------------------- MODULE Values -------------------------------
(***************************************************************************)
(* The value domain of DiceScript and its operator tables (types.go        *)
(* 728-1073, 1178-1439, 1644-1710), as documented in docs/GUIDE.md.        *)
(*                                                                         *)
(*   int   [t |-> "int", v]                                                *)
(*   float [t |-> "flt", n, d]   exact dyadic rational n/d, d a power of 2 *)
(*   str   [t |-> "str", c]      sequence of one-character tokens          *)
(*   null  [t |-> "null"]                                                  *)
(*   array [t |-> "arr", a]      reference to heap cell [xs]               *)
(*   dict  [t |-> "dict", a]     reference to heap cell [ks, vs]           *)
(*   func  [t |-> "func", n, ps, b]                                        *)
(*   comp  [t |-> "comp", e, a]  computed value: expression + attrs cell   *)
(*   nat   [t |-> "nat", n]      built-in function                         *)
(*                                                                         *)
(* Results are [sig, v, S]; sig "ok" | "err" | "ood" (outside the oracle's *)
(* domain: 64-bit overflow, non-dyadic floats, unordered printing ...).    *)
(***************************************************************************)
EXTENDS Integers, Sequences, FiniteSets, TLC, SequencesExt

MaxMag == 1048576          \* 2^20: beyond this the case is declared out of domain
MaxDen == 1024
MaxArr == 512              \* container length cap of the implementation

VInt(i)  == [t |-> "int", v |-> i]
VStr(c)  == [t |-> "str", c |-> c]
VNull    == [t |-> "null"]
VRef(k, a) == [t |-> k, a |-> a]
VNat(n)  == [t |-> "nat", n |-> n]

Abs(x) == IF x < 0 THEN -x ELSE x
Sgn(x) == IF x < 0 THEN -1 ELSE IF x > 0 THEN 1 ELSE 0

RECURSIVE NormF(_, _)
NormF(n, d) == IF d > 1 /\ n % 2 = 0 THEN NormF(n \div 2, d \div 2) ELSE [t |-> "flt", n |-> n, d |-> d]
VFlt(n, d) == NormF(n, d)

IsNum(v) == v.t \in {"int", "flt"}
NumN(v) == IF v.t = "int" THEN v.v ELSE v.n
NumD(v) == IF v.t = "int" THEN 1 ELSE v.d

\* truncating division / remainder (Go semantics), b # 0
TDiv(a, b) == Sgn(a) * Sgn(b) * (Abs(a) \div Abs(b))
TRem(a, b) == a - b * TDiv(a, b)

IsPow2(x) == x \in {1, 2, 4, 8, 16, 32, 64, 128, 256, 512, 1024}

Ok(v, S)  == [sig |-> "ok", v |-> v, S |-> S]
Err(S)    == [sig |-> "err", v |-> VNull, S |-> S]
Ood(S)    == [sig |-> "ood", v |-> VNull, S |-> S]

InDomain(v) == CASE v.t = "int" -> Abs(v.v) <= MaxMag
                 [] v.t = "flt" -> v.d <= MaxDen /\ Abs(v.n) <= MaxMag
                 [] OTHER -> TRUE
\* operands small enough for TLC's 32-bit arithmetic (products and cross-multiplications cannot overflow)
SmallNum(v) == IsNum(v) => (Abs(NumN(v)) <= 30000 /\ NumD(v) <= 64)
OkNum(v, S) == IF InDomain(v) THEN Ok(v, S) ELSE Ood(S)

-----------------------------------------------------------------------------
(* Heap: a sequence of cells; arrays [xs], dicts / frames / attrs [ks, vs] *)

Alloc(S, cell) == [S EXCEPT !.heap = Append(S.heap, cell)]
NewAddr(S) == Len(S.heap) + 1
Cell(S, a) == S.heap[a]

NewArr(S, xs) == LET S2 == Alloc(S, [xs |-> xs]) IN Ok(VRef("arr", Len(S2.heap)), S2)
EmptyDictCell == [ks |-> <<>>, vs |-> <<>>]

KeyIndex(cell, key) == IF \E i \in 1..Len(cell.ks) : cell.ks[i] = key
                       THEN CHOOSE i \in 1..Len(cell.ks) : cell.ks[i] = key ELSE 0
DictGet(cell, key) == LET i == KeyIndex(cell, key) IN IF i = 0 THEN VNull ELSE cell.vs[i]
DictHas(cell, key) == KeyIndex(cell, key) # 0
DictPut(cell, key, v) == LET i == KeyIndex(cell, key) IN
                         IF i = 0 THEN [ks |-> Append(cell.ks, key), vs |-> Append(cell.vs, v)]
                         ELSE [cell EXCEPT !.vs[i] = v]
SetCell(S, a, cell) == [S EXCEPT !.heap[a] = cell]

\* Attribute look-up on a dict: the dict's own entry, else the entry of the first dict along its __proto__ chain that has
\* one, else null.  The chain may return to a dict already visited (d.__proto__ = d): the walk stops there.
ProtoKey == <<"_", "_", "p", "r", "o", "t", "o", "_", "_">>
RECURSIVE ProtoGet(_, _, _, _)
ProtoGet(S, a, key, visited) ==
  LET cell == S.heap[a] IN
  IF KeyIndex(cell, key) # 0 THEN DictGet(cell, key)
  ELSE LET p == DictGet(cell, ProtoKey) IN
       IF p.t = "dict" /\ p.a \notin visited THEN ProtoGet(S, p.a, key, visited \cup {p.a}) ELSE [t |-> "null"]

-----------------------------------------------------------------------------
(* Text *)

DigitCh(i) == ToString(i)

RECURSIVE NatChars(_)
NatChars(n) == IF n < 10 THEN <<DigitCh(n)>> ELSE NatChars(n \div 10) \o <<DigitCh(n % 10)>>
IntChars(i) == IF i < 0 THEN <<"-">> \o NatChars(-i) ELSE NatChars(i)

RECURSIVE FracChars(_, _)
FracChars(r, d) == IF r = 0 THEN <<>> ELSE <<DigitCh((r * 10) \div d)>> \o FracChars((r * 10) % d, d)
\* shortest decimal expansion of a dyadic rational (= strconv.FormatFloat(v, 'f', -1, 64) on this subset)
FltChars(n, d) ==
  LET a == Abs(n)
      ip == NatChars(a \div d)
      fr == FracChars(a % d, d) IN
  (IF n < 0 THEN <<"-">> ELSE <<>>) \o ip \o (IF fr = <<>> THEN <<>> ELSE <<".">> \o fr)

\* Values are graphs: a container may contain itself, two containers may share a third.  The containers reachable from v:
RECURSIVE ReachFrom(_, _, _)
ReachFrom(todo, done, S) ==
  IF todo = {} THEN done
  ELSE LET a == CHOOSE x \in todo : TRUE
           c == Cell(S, a)
           kids == IF "xs" \in DOMAIN c THEN {c.xs[i].a : i \in {j \in 1..Len(c.xs) : c.xs[j].t \in {"arr", "dict"}}}
                   ELSE {c.vs[i].a : i \in {j \in 1..Len(c.vs) : c.vs[j].t \in {"arr", "dict"}}}
           done2 == done \cup {a} IN
       ReachFrom((todo \cup kids) \ done2, done2, S)
Reach(v, S) == IF v.t \in {"arr", "dict"} THEN ReachFrom({v.a}, {}, S) ELSE {}
CellLen(c) == IF "xs" \in DOMAIN c THEN Len(c.xs) ELSE Len(c.vs)
\* the oracle's domain for walks over a value (comparison, printing): at most MaxObjs containers of at most 40 elements each,
\* cyclic or not (a walk that remembers where it has been is bounded by the number of objects, not by the number of paths)
MaxObjs == 10
TooBig(v, S) == LET R == Reach(v, S) IN Cardinality(R) > MaxObjs \/ \E a \in R : CellLen(Cell(S, a)) > 40

RECURSIVE JoinSeqs(_, _)
JoinSeqs(ss, sep) == IF ss = <<>> THEN <<>>
                     ELSE IF Len(ss) = 1 THEN ss[1] ELSE ss[1] \o sep \o JoinSeqs(Tail(ss), sep)

\* Dicts are walked in the byte order of their keys (keys/values/items, printing, serialisation).  The oracle knows that order
\* for keys written with ASCII letters, digits and '_' ("simple" keys); other keys leave the walk outside its domain.
AsciiSeq == <<"0", "1", "2", "3", "4", "5", "6", "7", "8", "9",
              "A", "B", "C", "D", "E", "F", "G", "H", "I", "J", "K", "L", "M", "N", "O", "P", "Q", "R", "S", "T", "U", "V", "W", "X", "Y", "Z", "_",
              "a", "b", "c", "d", "e", "f", "g", "h", "i", "j", "k", "l", "m", "n", "o", "p", "q", "r", "s", "t", "u", "v", "w", "x", "y", "z">>
AsciiSet == {AsciiSeq[i] : i \in 1..Len(AsciiSeq)}
Rank(c) == CHOOSE i \in 1..Len(AsciiSeq) : AsciiSeq[i] = c
SimpleKey(k) == \A i \in 1..Len(k) : k[i] \in AsciiSet
RECURSIVE KeyLess(_, _)
KeyLess(a, b) == IF a = <<>> THEN b # <<>>
                 ELSE IF b = <<>> THEN FALSE
                 ELSE IF Rank(a[1]) # Rank(b[1]) THEN Rank(a[1]) < Rank(b[1])
                 ELSE KeyLess(Tail(a), Tail(b))
\* the positions of a dict cell's entries in walking order
KeyOrder(cell) == SortSeq([i \in 1..Len(cell.ks) |-> i], LAMBDA a, b : KeyLess(cell.ks[a], cell.ks[b]))
Walkable(cell) == \A i \in 1..Len(cell.ks) : SimpleKey(cell.ks[i])

\* ToStr / ToRepr; depth-bounded by the generators (no cyclic values).  Dicts with two or more keys have no
\* defined order: "unordered" marks the result as out of the oracle's domain.
MaxDepth == 6       \* deeper values are outside the oracle's domain unless they are small graphs (OutOfWalk)
RECURSIVE DepthOf(_, _, _)
TooDeep(v, S) == DepthOf(v, S, 0) > MaxDepth
OutOfWalk(v, S) == TooDeep(v, S) /\ TooBig(v, S)     \* shallow values of any size and small graphs of any shape are inside
\* SeenElision (the code's recursion guard, modelled as it is): within ONE rendering, a container that has already been
\* rendered - an ancestor (a true cycle) or merely an earlier sibling that is the same object - is printed as [...] / {...}.
\* `seen` is threaded left to right; every rendering (every ToStr call, every hole of a template) starts with none seen.
RECURSIVE StrOfS(_, _, _, _, _)
RECURSIVE StrList(_, _, _, _, _)
RECURSIVE StrPairs(_, _, _, _, _, _)
StrOf(v, S, repr) == LET r == StrOfS(v, S, repr, 0, {}) IN [ok |-> r.ok, c |-> r.c]
StrList(xs, S, dep, seen, k) ==
  IF k > Len(xs) THEN [ok |-> TRUE, parts |-> <<>>, seen |-> seen]
  ELSE LET h == StrOfS(xs[k], S, TRUE, dep, seen)
           t == StrList(xs, S, dep, h.seen, k + 1) IN
       [ok |-> h.ok /\ t.ok, parts |-> <<h.c>> \o t.parts, seen |-> t.seen]
\* the entries of a dict cell in walking order: 'key': repr(value)
StrPairs(cell, idx, S, dep, seen, k) ==
  IF k > Len(idx) THEN [ok |-> TRUE, parts |-> <<>>, seen |-> seen]
  ELSE LET h == StrOfS(cell.vs[idx[k]], S, TRUE, dep, seen)
           t == StrPairs(cell, idx, S, dep, h.seen, k + 1) IN
       [ok |-> h.ok /\ t.ok, parts |-> <<<<"SQ">> \o cell.ks[idx[k]] \o <<"SQ", ":", "SP">> \o h.c>> \o t.parts, seen |-> t.seen]
StrOfS(v, S, repr, dep, seen) ==
  IF dep > MaxDepth THEN [ok |-> FALSE, c |-> <<>>, seen |-> seen] ELSE
  CASE v.t = "int"  -> [ok |-> TRUE, c |-> IntChars(v.v), seen |-> seen]
    [] v.t = "flt"  -> [ok |-> TRUE, c |-> FltChars(v.n, v.d), seen |-> seen]
    [] v.t = "str"  -> [ok |-> TRUE, c |-> IF repr THEN <<"SQ">> \o v.c \o <<"SQ">> ELSE v.c, seen |-> seen]
    [] v.t = "null" -> [ok |-> TRUE, c |-> <<"n", "u", "l", "l">>, seen |-> seen]
    [] v.t = "arr"  -> IF v.a \in seen THEN [ok |-> TRUE, c |-> <<"[", ".", ".", ".", "]">>, seen |-> seen]
                       ELSE LET xs == Cell(S, v.a).xs IN
                            IF Len(xs) > 64 \/ OutOfWalk(v, S) THEN [ok |-> FALSE, c |-> <<>>, seen |-> seen]
                            ELSE LET r == StrList(xs, S, dep + 1, seen \cup {v.a}, 1) IN
                                 [ok |-> r.ok, c |-> <<"[">> \o JoinSeqs(r.parts, <<",", "SP">>) \o <<"]">>, seen |-> r.seen]
    [] v.t = "dict" -> IF v.a \in seen THEN [ok |-> TRUE, c |-> <<"LB", ".", ".", ".", "RB">>, seen |-> seen]
                       ELSE LET cell == Cell(S, v.a) IN
                            IF Len(cell.ks) = 0 THEN [ok |-> TRUE, c |-> <<"LB", "RB">>, seen |-> seen \cup {v.a}]
                            ELSE IF Len(cell.ks) = 1
                            THEN LET p == StrOfS(cell.vs[1], S, TRUE, dep + 1, seen \cup {v.a}) IN
                                 [ok |-> p.ok, c |-> <<"LB", "SQ">> \o cell.ks[1] \o <<"SQ", ":", "SP">> \o p.c \o <<"RB">>, seen |-> p.seen]
                            ELSE IF Walkable(cell) /\ Len(cell.ks) <= 8
                            THEN LET r == StrPairs(cell, KeyOrder(cell), S, dep + 1, seen \cup {v.a}, 1) IN
                                 [ok |-> r.ok, c |-> <<"LB">> \o JoinSeqs(r.parts, <<",", "SP">>) \o <<"RB">>, seen |-> r.seen]
                            ELSE [ok |-> FALSE, c |-> <<>>, seen |-> seen]
    [] OTHER -> [ok |-> FALSE, c |-> <<>>, seen |-> seen]

-----------------------------------------------------------------------------
(* Truthiness and equality *)

Truthy(v, S) ==
  CASE v.t = "int"  -> v.v # 0
    [] v.t = "flt"  -> v.n # 0
    [] v.t = "str"  -> v.c # <<>>
    [] v.t = "null" -> FALSE
    [] v.t = "arr"  -> Cell(S, v.a).xs # <<>>
    [] v.t = "dict" -> Cell(S, v.a).ks # <<>>
    [] v.t = "comp" -> TRUE          \* a computed value with a non-empty expression
    [] OTHER -> TRUE

\* nesting depth of a value (capped): equality and printing of deeper or cyclic values are out of domain
DepthOf(v, S, dep) ==
  IF dep > MaxDepth THEN dep
  ELSE CASE v.t = "arr" -> LET xs == Cell(S, v.a).xs IN
                          IF Len(xs) > 40 /\ (dep >= 1 \/ \E i \in 1..Len(xs) : xs[i].t \in {"arr", "dict"}) THEN MaxDepth + 1   \* big nested containers: out of domain
                          ELSE IF xs = <<>> THEN dep ELSE LET ds == {DepthOf(xs[i], S, dep + 1) : i \in 1..Len(xs)} IN CHOOSE m \in ds : \A y \in ds : m >= y
         [] v.t = "dict" -> LET vs == Cell(S, v.a).vs IN
                          IF vs = <<>> THEN dep ELSE LET ds == {DepthOf(vs[i], S, dep + 1) : i \in 1..Len(vs)} IN CHOOSE m \in ds : \A y \in ds : m >= y
         [] OTHER -> dep

\* Equality of graphs: pairs of containers under comparison are remembered; meeting a pair again counts as equal at that
\* point (two cyclic values are equal exactly when they have the same shape).  `vis` is threaded through the conjunction.
RECURSIVE VEqV(_, _, _, _)
RECURSIVE VEqList(_, _, _, _, _)
VEqList(x, y, S, vis, k) ==   \* x, y: sequences of values of equal length
  IF k > Len(x) THEN [eq |-> TRUE, vis |-> vis]
  ELSE LET h == VEqV(x[k], y[k], S, vis) IN
       IF ~h.eq THEN h ELSE VEqList(x, y, S, h.vis, k + 1)
VEqV(a, b, S, vis) ==
  IF IsNum(a) /\ IsNum(b) THEN [eq |-> NumN(a) * NumD(b) = NumN(b) * NumD(a), vis |-> vis]
  ELSE IF a.t # b.t THEN [eq |-> FALSE, vis |-> vis]
  ELSE CASE a.t = "str"  -> [eq |-> a.c = b.c, vis |-> vis]
         [] a.t = "null" -> [eq |-> TRUE, vis |-> vis]
         [] a.t = "arr"  -> IF <<a.a, b.a>> \in vis THEN [eq |-> TRUE, vis |-> vis]
                            ELSE LET x == Cell(S, a.a).xs
                                     y == Cell(S, b.a).xs IN
                                 IF Len(x) # Len(y) THEN [eq |-> FALSE, vis |-> vis]
                                 ELSE VEqList(x, y, S, vis \cup {<<a.a, b.a>>}, 1)
         [] a.t = "dict" -> IF <<a.a, b.a>> \in vis THEN [eq |-> TRUE, vis |-> vis]
                            ELSE LET x == Cell(S, a.a)
                                     y == Cell(S, b.a) IN
                                 IF Len(x.ks) # Len(y.ks) \/ \E i \in 1..Len(x.ks) : ~DictHas(y, x.ks[i]) THEN [eq |-> FALSE, vis |-> vis]
                                 ELSE VEqList(x.vs, [i \in 1..Len(x.ks) |-> DictGet(y, x.ks[i])], S, vis \cup {<<a.a, b.a>>}, 1)
         [] a.t = "func" -> [eq |-> a.n = b.n, vis |-> vis]
         [] a.t = "nat"  -> [eq |-> a.n = b.n, vis |-> vis]
         [] OTHER -> [eq |-> FALSE, vis |-> vis]
VEq(a, b, S) == VEqV(a, b, S, {}).eq

-----------------------------------------------------------------------------
(* Arithmetic *)

AddNum(a, b, sgn) ==   \* a + sgn*b on numbers
  IF a.t = "int" /\ b.t = "int" THEN VInt(a.v + sgn * b.v)
  ELSE LET d == IF NumD(a) > NumD(b) THEN NumD(a) ELSE NumD(b) IN
       VFlt(NumN(a) * (d \div NumD(a)) + sgn * NumN(b) * (d \div NumD(b)), d)

MulNum(a, b) ==
  IF a.t = "int" /\ b.t = "int" THEN VInt(a.v * b.v)
  ELSE VFlt(NumN(a) * NumN(b), NumD(a) * NumD(b))

RECURSIVE IPow(_, _)
IPow(b, e) == IF e = 0 THEN 1 ELSE b * IPow(b, e - 1)

RECURSIVE RepeatSeq(_, _)
RepeatSeq(xs, k) == IF k <= 0 THEN <<>> ELSE xs \o RepeatSeq(xs, k - 1)

\* bitwise and/or on naturals below 2^21
RECURSIVE BitOp(_, _, _, _)
BitOp(x, y, isAnd, k) ==
  IF k > 21 THEN 0
  ELSE LET bx == x % 2
           by == y % 2
           bit == IF isAnd THEN (IF bx = 1 /\ by = 1 THEN 1 ELSE 0) ELSE (IF bx = 1 \/ by = 1 THEN 1 ELSE 0) IN
       bit + 2 * BitOp(x \div 2, y \div 2, isAnd, k + 1)

CmpNum(op, a, b) ==
  LET l == NumN(a) * NumD(b)
      r == NumN(b) * NumD(a) IN
  CASE op = "<" -> l < r [] op = "<=" -> l <= r [] op = ">=" -> l >= r [] op = ">" -> l > r

B2I(b) == VInt(IF b THEN 1 ELSE 0)

\* cfg.div0: IgnoreDiv0
BinOp(op, a, b, S, cfg) ==
  IF ~SmallNum(a) \/ ~SmallNum(b) THEN Ood(S) ELSE
  CASE op = "+" ->
         IF IsNum(a) /\ IsNum(b) THEN OkNum(AddNum(a, b, 1), S)
         ELSE IF a.t = "str" /\ b.t = "str" THEN Ok(VStr(a.c \o b.c), S)
         ELSE IF a.t = "arr" /\ b.t = "arr"
         THEN LET xs == Cell(S, a.a).xs \o Cell(S, b.a).xs IN
              IF Len(xs) > MaxArr THEN Err(S) ELSE NewArr(S, xs)
         ELSE Err(S)
    [] op = "-" -> IF IsNum(a) /\ IsNum(b) THEN OkNum(AddNum(a, b, -1), S) ELSE Err(S)
    [] op = "*" ->
         IF IsNum(a) /\ IsNum(b) THEN OkNum(MulNum(a, b), S)
         ELSE IF (a.t = "arr" /\ b.t = "int") \/ (a.t = "int" /\ b.t = "arr")
         THEN LET arr == IF a.t = "arr" THEN a ELSE b
                  k   == IF a.t = "int" THEN a.v ELSE b.v
                  xs  == Cell(S, arr.a).xs IN
              IF k < 0 THEN Err(S)                       \* a negative repeat count is an error
              ELSE IF Len(xs) * k > MaxArr THEN Err(S)
              ELSE NewArr(S, RepeatSeq(xs, k))
         ELSE Err(S)
    [] op = "/" ->
         IF ~(IsNum(a) /\ IsNum(b)) THEN Err(S)
         ELSE IF NumN(b) = 0 THEN (IF cfg.div0 THEN Ok(a, S) ELSE Err(S))
         ELSE IF a.t = "int" /\ b.t = "int" THEN Ok(VInt(TDiv(a.v, b.v)), S)
         ELSE \* (an/ad) / (bn/bd) = an*bd / (ad*bn): dyadic only when |bn| is a power of two
              IF ~IsPow2(Abs(NumN(b))) \/ NumD(a) * Abs(NumN(b)) > MaxDen THEN Ood(S)
              ELSE OkNum(VFlt(Sgn(NumN(b)) * NumN(a) * NumD(b), NumD(a) * Abs(NumN(b))), S)
    [] op = "%" ->
         IF a.t = "int" /\ b.t = "int" THEN (IF b.v = 0 THEN Err(S) ELSE Ok(VInt(TRem(a.v, b.v)), S)) ELSE Err(S)
    [] op \in {"^", "**"} ->
         IF ~(IsNum(a) /\ IsNum(b)) THEN Err(S)
         ELSE IF b.t = "flt" THEN Ood(S)
         ELSE IF a.t = "int"
         THEN IF b.v >= 0 THEN (IF b.v > 20 \/ (Abs(a.v) > 1 /\ (b.v > 12 \/ Abs(a.v) > 30 \/ (Abs(a.v) > 4 /\ b.v > 6))) THEN Ood(S) ELSE OkNum(VInt(IPow(a.v, b.v)), S))
              ELSE IF a.v = 1 THEN Ok(VInt(1), S)
              ELSE IF a.v = -1 THEN Ok(VInt(IF b.v % 2 = 0 THEN 1 ELSE -1), S)
              ELSE IF a.v = 0 THEN Ood(S)
              ELSE Ok(VInt(0), S)
         ELSE IF b.v >= 0 /\ b.v <= 3 /\ Abs(a.n) <= 100 /\ a.d <= 8 THEN OkNum(VFlt(IPow(a.n, b.v), IPow(a.d, b.v)), S) ELSE Ood(S)
    [] op = "??" -> IF a.t = "null" THEN Ok(b, S) ELSE Ok(a, S)
    [] op \in {"<", "<=", ">=", ">"} -> IF IsNum(a) /\ IsNum(b) THEN Ok(B2I(CmpNum(op, a, b)), S) ELSE Err(S)
    [] op = "==" -> IF a.t \in {"comp"} \/ b.t \in {"comp"} \/ OutOfWalk(a, S) \/ OutOfWalk(b, S) THEN Ood(S) ELSE Ok(B2I(VEq(a, b, S)), S)
    [] op = "!=" -> IF a.t \in {"comp"} \/ b.t \in {"comp"} \/ OutOfWalk(a, S) \/ OutOfWalk(b, S) THEN Ood(S) ELSE Ok(B2I(~VEq(a, b, S)), S)
    [] op \in {"&", "|"} ->
         IF a.t = "int" /\ b.t = "int"
         THEN (IF a.v < 0 \/ b.v < 0 THEN Ood(S) ELSE Ok(VInt(BitOp(a.v, b.v, op = "&", 0)), S))
         ELSE Err(S)

UnOp(op, a, S) ==
  IF ~IsNum(a) THEN Err(S)
  ELSE IF op = "+" THEN Ok(a, S)
  ELSE IF a.t = "int" THEN Ok(VInt(-a.v), S) ELSE Ok([a EXCEPT !.n = -a.n], S)

-----------------------------------------------------------------------------
(* Indexing and slicing *)

\* negative indices count from the end; out of range is an error
RealIndex(i, len) == IF i < 0 THEN len + i ELSE i
ClampIndex(i, len) == LET j == RealIndex(i, len) IN IF j < 0 THEN 0 ELSE IF j > len THEN len ELSE j

KeyOf(v) == \* dict keys: strings as they are, numbers through their printed form
  CASE v.t = "str" -> [ok |-> TRUE, c |-> v.c]
    [] v.t = "int" -> [ok |-> TRUE, c |-> IntChars(v.v)]
    [] v.t = "flt" -> [ok |-> TRUE, c |-> FltChars(v.n, v.d)]
    [] OTHER -> [ok |-> FALSE, c |-> <<>>]

ItemGet(o, i, S) ==
  CASE o.t = "arr" ->
         IF i.t # "int" THEN Err(S)
         ELSE LET xs == Cell(S, o.a).xs
                  j == RealIndex(i.v, Len(xs)) IN
              IF j < 0 \/ j >= Len(xs) THEN Err(S) ELSE Ok(xs[j + 1], S)
    [] o.t = "str" ->
         IF i.t # "int" THEN Err(S)
         ELSE LET j == RealIndex(i.v, Len(o.c)) IN
              IF j < 0 \/ j >= Len(o.c) THEN Err(S) ELSE Ok(VStr(<<o.c[j + 1]>>), S)
    [] o.t = "dict" ->
         LET k == KeyOf(i) IN IF ~k.ok THEN Err(S) ELSE Ok(DictGet(Cell(S, o.a), k.c), S)
    [] OTHER -> Err(S)

ItemSet(o, i, v, S) ==
  CASE o.t = "arr" ->
         IF i.t # "int" THEN Err(S)
         ELSE LET xs == Cell(S, o.a).xs
                  j == RealIndex(i.v, Len(xs)) IN
              IF j < 0 \/ j >= Len(xs) THEN Err(S)
              ELSE Ok(v, SetCell(S, o.a, [xs |-> [xs EXCEPT ![j + 1] = v]]))
    [] o.t = "dict" ->
         LET k == KeyOf(i) IN
         IF ~k.ok THEN Err(S) ELSE Ok(v, SetCell(S, o.a, DictPut(Cell(S, o.a), k.c, v)))
    [] OTHER -> Err(S)

\* a, b: values (null = omitted)
SliceBounds(a, b, len) ==
  IF (a.t \notin {"int", "null"}) \/ (b.t \notin {"int", "null"}) THEN [ok |-> FALSE, lo |-> 0, hi |-> 0]
  ELSE LET x == ClampIndex(IF a.t = "null" THEN 0 ELSE a.v, len)
           y == ClampIndex(IF b.t = "null" THEN len ELSE b.v, len) IN
       [ok |-> TRUE, lo |-> IF x > y THEN y ELSE x, hi |-> y]

SliceGet(o, a, b, S) ==
  IF o.t \notin {"arr", "str", "dict"} THEN Err(S)
  ELSE IF o.t = "dict" THEN Err(S)
  ELSE LET len == IF o.t = "arr" THEN Len(Cell(S, o.a).xs) ELSE Len(o.c)
           sb == SliceBounds(a, b, len) IN
       IF ~sb.ok THEN Err(S)
       ELSE IF o.t = "str" THEN Ok(VStr(SubSeq(o.c, sb.lo + 1, sb.hi)), S)
       ELSE NewArr(S, SubSeq(Cell(S, o.a).xs, sb.lo + 1, sb.hi))

SliceSet(o, a, b, v, S) ==
  IF o.t # "arr" THEN Err(S)
  ELSE IF v.t # "arr" THEN Err(S)
  ELSE LET xs == Cell(S, o.a).xs
           sb == SliceBounds(a, b, Len(xs)) IN
       IF ~sb.ok THEN Err(S)
       ELSE Ok(v, SetCell(S, o.a, [xs |-> SubSeq(xs, 1, sb.lo) \o Cell(S, v.a).xs \o SubSeq(xs, sb.hi + 1, Len(xs))]))

=============================================================================
