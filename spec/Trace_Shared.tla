---------------------------- MODULE Trace_Shared ----------------------------
(***************************************************************************)
(* C11: recorded concurrent runs against spec/Shared.tla.                  *)
(*   c11s  one schedule of Shared replayed with goroutines parked at the   *)
(*         gates: per VM the outcome alone (iso) and in the schedule (conc)*)
(*   c11f  one evaluation of a free-running goroutine (race-detector       *)
(*         build) and the same evaluation alone                            *)
(*   c11r  one report of the Go race detector, with the package-level      *)
(*         symbols / functions on its stacks                               *)
(* Isolation: a seeded VM returns exactly what it returns alone; an        *)
(* unseeded VM returns a value of the same kind (its dice are not          *)
(* reproducible, its error texts and its language are).  NoRace: the race  *)
(* detector reports nothing.                                               *)
(***************************************************************************)
EXTENDS Naturals, Sequences, TLC, Json, IOUtils

Trace == ndJsonDeserialize(IOEnv.TRACE)
VARIABLES l, bad
Tag(ok, t) == IF ok THEN {} ELSE {t}

Same(v) == IF v.seeded THEN v.conc = v.iso
           ELSE v.conc.err = v.iso.err /\ v.conc.panic = v.iso.panic /\ (v.iso.err => v.conc.text = v.iso.text)

Check(e) ==
  CASE e.ev = "c11s" -> Tag(\A i \in 1..Len(e.vms) : Same(e.vms[i]), "differs-from-isolated-run")
                        \cup Tag(\A i \in 1..Len(e.vms) : ~e.vms[i].conc.panic, "crash")
    [] e.ev = "c11f" -> Tag(Same(e), "differs-from-isolated-run") \cup Tag(~e.conc.panic, "crash")
    [] e.ev = "c11r" -> {"data-race"}
    [] OTHER -> {"unknown-event"}

Init == l = 1 /\ bad = <<>>
Step == /\ l <= Len(Trace)
        /\ LET why == Check(Trace[l]) IN bad' = IF why = {} THEN bad ELSE Append(bad, [i |-> l, why |-> why])
        /\ l' = l + 1
Finish == /\ l = Len(Trace) + 1
          /\ JsonSerialize(IOEnv.RESULT, [n |-> Len(Trace), bad |-> bad])
          /\ l' = l + 1 /\ UNCHANGED bad
Next == Step \/ Finish
Spec == Init /\ [][Next]_<<l, bad>>
=============================================================================
