------------------------------ MODULE Unparse ------------------------------
(***************************************************************************)
(* The published grammar (roll.peg) as seen from the AST side: Unparse      *)
(* turns an AST into a token sequence with the MINIMAL parentheses the      *)
(* grammar requires.  The table is asymmetric where the grammar is:         *)
(*   a * b ?? c   stops after a * b         => (a * b) ?? c, a * (b ?? c)   *)
(*   ternaries do not nest unparenthesised;  -2 ** 2 is (-2) ** 2           *)
(*   x[a:b] applies to a whole conditional expression, so a slice is only   *)
(*   written bare where an expression root is expected                      *)
(*   the target of [i], .k and (args) is a name, a literal or (expr)        *)
(* The harness joins the tokens with legal whitespace.  Tokens:             *)
(*   [k |-> "t", s]  text     [k |-> "str", c, q]  string literal, style q  *)
(*   [k |-> "tmpl", q, parts] template    [k |-> "sep"]  statement break    *)
(***************************************************************************)
EXTENDS Integers, Sequences, TLC

T(s)   == [k |-> "t", s |-> s]        \* word, number, bracket: joined without blanks
Op(s)  == [k |-> "op", s |-> s]       \* binary operator, ? : = : blanks on both sides are legal (and used)
Pre(s) == [k |-> "pre", s |-> s]      \* prefix operator
Kw(s)  == [k |-> "kw", s |-> s]       \* keyword: a blank must follow
Sep == [k |-> "sep"]                  \* between statements (";" with optional line breaks)

\* binding level of an expression node (higher binds tighter)
Level(e) ==
  CASE e.k \in {"assign", "assignThis", "assignIdx", "assignAttr", "assignSlice", "computed", "computedAttr"} -> 1
    [] e.k = "slice" -> 2
    [] e.k \in {"tern", "multi"} -> 3
    [] e.k = "or"  -> 4
    [] e.k = "and" -> 5
    [] e.k = "bin" -> (CASE e.op = "|" -> 6
                         [] e.op = "&" -> 7
                         [] e.op \in {"<", "<=", "==", "!=", ">=", ">"} -> 8
                         [] e.op \in {"+", "-"} -> 9
                         [] e.op \in {"*", "/", "%"} -> 10
                         [] e.op = "??" -> 11
                         [] e.op \in {"^", "**"} -> 12)
    [] e.k = "un" -> 13
    [] OTHER -> 14

\* negative literals are written -n: they bind like a unary minus
IsNegLit(e) == (e.k = "int" /\ e.v < 0) \/ (e.k = "flt" /\ e.n < 0)
Lvl(e) == IF IsNegLit(e) THEN 13 ELSE Level(e)

\* same chain: a left operand at the parent's own level needs no parentheses (all binary operators are left-associative)
SameChain(p, c) ==
  \/ (p.k = "or" /\ c.k = "or") \/ (p.k = "and" /\ c.k = "and")
  \/ (p.k = "bin" /\ c.k = "bin" /\ Level(p) = Level(c))

\* minimal level the grammar accepts for the left / right operand of a binary node
LeftMin(p) ==
  CASE p.k = "or" -> 5 [] p.k = "and" -> 6
    [] OTHER -> (CASE Level(p) = 6 -> 7 [] Level(p) = 7 -> 8 [] Level(p) = 8 -> 9 [] Level(p) = 9 -> 10
                   [] Level(p) = 10 -> 11      \* first operand of * / % is a null-coalescing expression
                   [] Level(p) = 11 -> 12 [] Level(p) = 12 -> 13)
RightMin(p) ==
  CASE p.k = "or" -> 5 [] p.k = "and" -> 6
    [] OTHER -> (CASE Level(p) = 6 -> 7 [] Level(p) = 7 -> 8 [] Level(p) = 8 -> 9 [] Level(p) = 9 -> 10
                   [] Level(p) = 10 -> 12      \* further operands of * / % are exponent expressions: no bare ??
                   [] Level(p) = 11 -> 12 [] Level(p) = 12 -> 13)

RECURSIVE U(_), UStmts(_), UStmt(_), UList(_, _), UArms(_, _), UKV(_, _), UParts(_, _)

Paren(ts) == <<T("(")>> \o ts \o <<T(")")>>
\* operand that must bind at least at level m
Opnd(e, m) == IF Lvl(e) >= m /\ ~(e.pp = TRUE) THEN U(e) ELSE Paren(U(e))
\* operand where an expression root is accepted (assignment right-hand sides, arguments, elements, indices)
Root(e) == IF e.pp = TRUE THEN Paren(U(e)) ELSE U(e)
\* target of a postfix operator: [i] must directly follow a name, a literal array, another [i] or a call by name;
\* .k / .m() may also follow an attribute or a method call; everything else goes in parentheses
TargetIdx(e)  == IF e.k \in {"var", "arr", "idx", "call"} /\ ~(e.pp = TRUE) THEN U(e) ELSE Paren(U(e))
TargetAttr(e) == IF e.k \in {"var", "arr", "idx", "call", "attr", "mcall"} /\ ~(e.pp = TRUE) THEN U(e) ELSE Paren(U(e))
\* the lower bound of a slice is followed directly by ':' - a name there would swallow the colon (a:b is an identifier)
SliceLo(a) == IF a.k = "null" THEN <<>> ELSE IF a.k = "int" /\ a.v >= 0 /\ ~(a.pp = TRUE) THEN U(a) ELSE Paren(U(a))

DiceText(e) ==
  LET kindTxt == CASE e.kind = 0 -> "" [] e.kind = 1 -> "kl" \o ToString(e.cnt) [] e.kind = 2 -> "kh" \o ToString(e.cnt)
                   [] e.kind = 3 -> "dl" \o ToString(e.cnt) [] e.kind = 4 -> "dh" \o ToString(e.cnt)
      clamp == IF e.mn # -1 THEN "min" \o ToString(e.mn) ELSE IF e.mx # -1 THEN "max" \o ToString(e.mx) ELSE "" IN
  ToString(e.times) \o "d" \o ToString(e.sides) \o kindTxt \o clamp

FltText(n, d) ==  \* written as a decimal literal with the exact expansion
  LET a == IF n < 0 THEN -n ELSE n
      ip == a \div d
      frac == CASE d = 1 -> "0" [] d = 2 -> (IF a % 2 = 1 THEN "5" ELSE "0")
                [] d = 4 -> (CASE a % 4 = 0 -> "0" [] a % 4 = 1 -> "25" [] a % 4 = 2 -> "5" [] a % 4 = 3 -> "75")
                [] d = 8 -> (CASE a % 8 = 0 -> "0" [] a % 8 = 1 -> "125" [] a % 8 = 2 -> "25" [] a % 8 = 3 -> "375"
                               [] a % 8 = 4 -> "5" [] a % 8 = 5 -> "625" [] a % 8 = 6 -> "75" [] a % 8 = 7 -> "875") IN
  (IF n < 0 THEN "-" ELSE "") \o ToString(ip) \o "." \o frac

\* list elements: a multi-arm conditional uses "," itself, so it is parenthesised inside lists
ListElem(e) == IF e.k = "multi" THEN Paren(U(e)) ELSE Root(e)
UList(es, i) == IF i > Len(es) THEN <<>>
                ELSE (IF i > 1 THEN <<T(",")>> ELSE <<>>) \o ListElem(es[i]) \o UList(es, i + 1)

UArms(arms, i) == IF i > Len(arms) THEN <<>>
                  ELSE (IF i > 1 THEN <<T(",")>> ELSE <<>>) \o Opnd(arms[i].c, 4) \o <<Op("?")>> \o Opnd(arms[i].a, 4) \o UArms(arms, i + 1)

UKV(kvs, i) == IF i > Len(kvs) THEN <<>>
               ELSE (IF i > 1 THEN <<T(",")>> ELSE <<>>) \o ListElem(kvs[i].key) \o <<Op(":")>> \o ListElem(kvs[i].val) \o UKV(kvs, i + 1)

UParts(ps, i) == IF i > Len(ps) THEN <<>>
                 ELSE <<IF ps[i].k = "lit" THEN [k |-> "lit", c |-> ps[i].c]
                        ELSE [k |-> "hole", pct |-> ps[i].pct, toks |-> UStmts(ps[i].body)]>> \o UParts(ps, i + 1)

U(e) ==
  CASE e.k = "int"  -> <<T(ToString(e.v))>>
    [] e.k = "flt"  -> <<T(FltText(e.n, e.d))>>
    [] e.k = "str"  -> <<[k |-> "str", c |-> e.c, q |-> e.q]>>
    [] e.k = "null" -> <<T("null")>>
    [] e.k = "var"  -> <<T(e.n)>>
    [] e.k = "raw"  -> <<T("&" \o e.n)>>
    [] e.k = "this" -> <<T("this"), T("."), T(e.n)>>
    [] e.k = "un"   -> <<Pre(e.op)>> \o Opnd(e.e, 14)
    [] e.k = "bin"  -> (IF SameChain(e, e.l) /\ ~(e.l.pp = TRUE) THEN U(e.l) ELSE Opnd(e.l, LeftMin(e))) \o <<Op(e.op)>> \o Opnd(e.r, RightMin(e))
    [] e.k = "and"  -> (IF SameChain(e, e.l) /\ ~(e.l.pp = TRUE) THEN U(e.l) ELSE Opnd(e.l, LeftMin(e))) \o <<Op("&&")>> \o Opnd(e.r, RightMin(e))
    [] e.k = "or"   -> (IF SameChain(e, e.l) /\ ~(e.l.pp = TRUE) THEN U(e.l) ELSE Opnd(e.l, LeftMin(e))) \o <<Op("||")>> \o Opnd(e.r, RightMin(e))
    [] e.k = "tern" -> Opnd(e.c, 4) \o <<Op("?")>> \o Opnd(e.a, 4) \o <<Op(":")>> \o Opnd(e.b, 4)
    [] e.k = "multi" -> UArms(e.arms, 1)
    [] e.k = "arr"  -> <<T("[")>> \o UList(e.xs, 1) \o <<T("]")>>
    [] e.k = "range" -> <<T("[")>> \o Root(e.a) \o <<T("..")>> \o Root(e.b) \o <<T("]")>>
    [] e.k = "dict" -> <<T("{")>> \o UKV(e.kv, 1) \o <<T("}")>>
    [] e.k = "idx"  -> TargetIdx(e.o) \o <<T("[")>> \o Root(e.i) \o <<T("]")>>
    [] e.k = "slice" -> Opnd(e.o, 3) \o <<T("[")>> \o SliceLo(e.a) \o <<T(":")>>
                        \o (IF e.b.k = "null" THEN <<>> ELSE Root(e.b)) \o <<T("]")>>
    [] e.k = "attr" -> TargetAttr(e.o) \o <<T("."), T(e.n)>>
    [] e.k = "call" -> <<T(e.f), T("(")>> \o UList(e.args, 1) \o <<T(")")>>
    [] e.k = "mcall" -> TargetAttr(e.o) \o <<T("."), T(e.m), T("(")>> \o UList(e.args, 1) \o <<T(")")>>
    [] e.k = "tmpl" -> <<[k |-> "tmpl", q |-> e.q, parts |-> UParts(e.parts, 1)]>>
    [] e.k = "dice" -> <<T(DiceText(e))>>
    [] e.k = "assign" -> <<T(e.n), Op("=")>> \o Root(e.e)
    [] e.k = "assignThis" -> <<T("this"), T("."), T(e.n), Op("=")>> \o Root(e.e)
    [] e.k = "assignIdx" -> TargetIdx(e.o) \o <<T("[")>> \o Root(e.i) \o <<T("]"), Op("=")>> \o Root(e.e)
    [] e.k = "assignAttr" -> <<T(e.n), T("."), T(e.a), Op("=")>> \o Root(e.e)
    [] e.k = "assignSlice" -> TargetIdx(e.o) \o <<T("[")>> \o SliceLo(e.a) \o <<T(":")>>
                              \o (IF e.b.k = "null" THEN <<>> ELSE Root(e.b)) \o <<T("]"), Op("=")>> \o Root(e.e)
    [] e.k = "computed" -> <<T("&" \o e.n), Op("=")>> \o Root(e.e)
    [] e.k = "computedAttr" -> <<T("&" \o e.n), T("."), T(e.a), Op("=")>> \o Root(e.e)

Block(ss) == <<T("{")>> \o UStmts(ss) \o <<T("}")>>

UStmt(s) ==
  CASE s.k = "expr" -> Root(s.e)
    [] s.k = "if" -> <<Kw("if")>> \o Root(s.c) \o Block(s.t)
                     \o (IF s.e = <<>> THEN <<>>
                         ELSE IF s.elif /\ Len(s.e) = 1 /\ s.e[1].k = "if" THEN <<Kw("else")>> \o UStmt(s.e[1])
                         ELSE <<Kw("else")>> \o Block(s.e))
    [] s.k = "while" -> <<Kw("while")>> \o Root(s.c) \o Block(s.b)
    [] s.k = "break" -> <<T("break")>>
    [] s.k = "continue" -> <<T("continue")>>
    [] s.k = "return" -> IF s.has THEN <<Kw("return")>> \o Root(s.e) ELSE <<Kw("return")>>
    [] s.k = "func" -> <<Kw("func"), T(s.n), T("(")>> \o [i \in 1..(2 * Len(s.ps) - (IF Len(s.ps) > 0 THEN 1 ELSE 0)) |->
                          IF i % 2 = 1 THEN T(s.ps[(i + 1) \div 2]) ELSE T(",")] \o <<T(")")>> \o Block(s.b)

UStmts(ss) == IF ss = <<>> THEN <<>>
              ELSE IF Len(ss) = 1 THEN UStmt(ss[1])
              ELSE UStmt(ss[1]) \o <<Sep>> \o UStmts(Tail(ss))
=============================================================================
