------------------------------ MODULE StCmdGen ------------------------------
(* All edit lists up to MaxLen over the name / value / form / separator tables (sampled along the value and blank axes by
   arithmetic strides so that every pair (form, next form) x separator x name kind occurs), with their expected callbacks. *)
EXTENDS StCmd, Json, IOUtils, SequencesExt
CONSTANTS MaxLen, Stride

NN == Len(Names)
NV == Len(Values)

AllAssign == {e \in [kind : {"a"}, name : 1..NN, form : AssignForms, val : 1..NV, mult : 1..Len(Mults), sp : 0..1, sep : 0..4] :
                  /\ FormOK(Names[e.name], e.form)
                  /\ (e.form # "x1" => e.mult = 1)
                  /\ (e.form = "j" => e.sp = 0)}
AllMod == [kind : {"m"}, name : 1..NN, op : ModOps, val : 1..NV, sp : 0..1, sep : 0..4]

\* lists of two or three edits are built from a strided sub-family (every form x form x separator combination still occurs)
Sub(S, a) == LET q == SetToSeq(S) IN SelectSeq(q, LAMBDA e : (e.val + 2 * e.name + 3 * e.sep + e.sp) % Stride = a)

\* A value that begins with '(' used to be parsed with the full language, and not only up to its ')': without a comma a following
\* computed edit ('&name=') continued it as a bitwise operator, and a following name that begins like a dice operator ('dex') as a dice
\* term.  The edit list says otherwise; such lists are generated and marked (an earlier version of this module left them out, which
\* was the specification following the code).  Repaired in the repository: parentheses restore the flags for what is inside them only.
IsParen(v) == Values[v].src \in {"(1+2)", "(2*3)", "(1-3)", "(0-1.5)"}
RunsOn(es) == \E i \in 1..(Len(es) - 1) :
                /\ IsParen(es[i].val) /\ es[i].sep \in {0, 1}
                /\ \/ es[i + 1].kind = "a" /\ es[i + 1].form = "c"
                   \/ Names[es[i + 1].name].id = 7
Case(es) == [spell |-> Spell(es), exp |-> Expected(es), n |-> Len(es), ok |-> TRUE, runon |-> RunsOn(es)]

Singles(S) == LET q == SetToSeq(S) IN [i \in 1..Len(q) |-> Case(<<q[i]>>)]
Pairs(S) == LET x == Sub(S, 0)
                y == Sub(S, 1) IN
            [i \in 1..(Len(x) * Len(y)) |-> Case(<<x[((i - 1) \div Len(y)) + 1], y[((i - 1) % Len(y)) + 1]>>)]
Triples(S) == LET x == Sub(S, 0)
                  y == Sub(S, 1)
                  z == Sub(S, 2)
                  m == IF Len(x) < 12 THEN Len(x) ELSE 12
                  n == IF Len(y) < 12 THEN Len(y) ELSE 12
                  o == IF Len(z) < 12 THEN Len(z) ELSE 12 IN
              [i \in 1..(m * n * o) |-> Case(<<x[((i - 1) \div (n * o)) + 1], y[(((i - 1) \div o) % n) + 1], z[((i - 1) % o) + 1]>>)]

VARIABLE k
Init == k = 1
Next == /\ k = 1
        /\ ndJsonSerialize(IOEnv.OUT \o ".a1", Singles(AllAssign))
        /\ ndJsonSerialize(IOEnv.OUT \o ".m1", Singles(AllMod))
        /\ ndJsonSerialize(IOEnv.OUT \o ".a2", Pairs(AllAssign))
        /\ ndJsonSerialize(IOEnv.OUT \o ".m2", Pairs(AllMod))
        /\ (MaxLen >= 3 => ndJsonSerialize(IOEnv.OUT \o ".a3", Triples(AllAssign)) /\ ndJsonSerialize(IOEnv.OUT \o ".m3", Triples(AllMod)))
        /\ k' = 2
Spec == Init /\ [][Next]_k
=============================================================================
