-------------------------------- MODULE Dice --------------------------------
(***************************************************************************)
(* Game rules of every dice family as FUNCTIONS OF THE FACES ROLLED.       *)
(* Randomness is a face stream: a die with s sides is any value in 1..s.   *)
(* The rules are written from the game definitions in docs/GUIDE.md, not   *)
(* from roll_func.go:                                                      *)
(*   XdY[kl|kh|dl|dh n][min a][max b]  sum of the kept, clamped dice       *)
(*   f        4 dice in {-1,0,+1}, summed                                  *)
(*   bN / pN  d100 plus N extra tens dice, lowest / highest candidate      *)
(*   XaYmZkN  WoD pool, rounds while dice reach the add-line               *)
(*   XcYmZ    Double Cross: 10 per critical round + highest of last round  *)
(* Used by DiceGen (replay plan), Trace_Dice (validation of what the real  *)
(* package rolled, returned and displayed) and DiceThm (model theorems:    *)
(* ranges, min/max bracketing - C04, C15).                                 *)
(***************************************************************************)
EXTENDS Integers, Sequences, FiniteSets, SequencesExt, Functions, TLC

NONE == -1            \* "no clamp"

MinI(a, b) == IF a < b THEN a ELSE b
MaxI(a, b) == IF a > b THEN a ELSE b

RECURSIVE SumSeq(_)
SumSeq(s) == IF s = <<>> THEN 0 ELSE Head(s) + SumSeq(Tail(s))

SetMin(S) == CHOOSE x \in S : \A y \in S : x <= y
SetMax(S) == CHOOSE x \in S : \A y \in S : x >= y

Asc(s)  == SortSeq(s, LAMBDA a, b : a < b)
Desc(s) == SortSeq(s, LAMBDA a, b : a > b)

-----------------------------------------------------------------------------
(* Common dice *)

\* max is applied first, then min (only matters when mn > mx, which the grids avoid)
Clamp(d, mn, mx) ==
  LET a == IF mx # NONE /\ d > mx THEN mx ELSE d IN
  IF mn # NONE /\ a < mn THEN mn ELSE a

\* kind: 0 none, 1 keep lowest, 2 keep highest, 3 drop lowest, 4 drop highest
Pick(times, kind, cnt) ==
  LET p == CASE kind = 0 -> times
             [] kind \in {1, 2} -> cnt
             [] OTHER -> times - cnt
  IN MaxI(0, MinI(times, p))

Common(faces, kind, cnt, mn, mx) ==
  LET n  == Len(faces)
      cl == [i \in 1..n |-> Clamp(faces[i], mn, mx)]
      p  == Pick(n, kind, cnt)
      \* keep-lowest and drop-highest keep the LOW end; keep-highest and drop-lowest the HIGH end
      ordered == CASE kind = 0 -> cl
                   [] kind \in {1, 4} -> Asc(cl)
                   [] OTHER -> Desc(cl)
      kept == SubSeq(ordered, 1, p)
      dropped == SubSeq(ordered, p + 1, n)
  IN [total |-> SumSeq(kept), kept |-> kept, dropped |-> dropped]

CommonLegal(times, sides, kind, cnt) == times >= 1 /\ sides >= 1 /\ (kind # 0 => cnt >= 1)

\* closed forms of the attained bounds (C15): every die at 1 / at sides
CommonAllLow(times, kind, cnt, mn, mx)         == Pick(times, kind, cnt) * Clamp(1, mn, mx)
CommonAllHigh(times, sides, kind, cnt, mn, mx) == Pick(times, kind, cnt) * Clamp(sides, mn, mx)

-----------------------------------------------------------------------------
(* Fate: four d3, face f counts f-2 *)

Fate(faces) == SumSeq([i \in 1..Len(faces) |-> faces[i] - 2])

-----------------------------------------------------------------------------
(* Call of Cthulhu bonus / penalty dice.                                   *)
(* One units digit, 1+N tens digits; 00 with units 0 reads 100.            *)

Digit(f) == IF f = 10 THEN 0 ELSE f                 \* a d10 showing 10 is the digit 0
CocVal(t, u) == IF t = 0 /\ u = 0 THEN 100 ELSE 10 * t + u

CoC(base, tens, isBonus) ==
  LET u  == base % 10
      t0 == (base \div 10) % 10
      cands == {CocVal(t0, u)} \cup {CocVal(Digit(tens[i]), u) : i \in 1..Len(tens)}
  IN IF isBonus THEN SetMin(cands) ELSE SetMax(cands)

CocLegal(n) == n >= 0

\* In min-/max-mode the extra tens dice show the digit 0 (face 10): with the units of the base die at
\* 1 / 0 that attains the true bounds 01 and 100 for bonus and penalty dice alike.
CocModeTens(n) == [i \in 1..n |-> 10]
CoCInMode(n, isBonus, mode) == CoC(IF mode = -1 THEN 1 ELSE 100, CocModeTens(n), isBonus)

-----------------------------------------------------------------------------
(* World of Darkness pools.  fs = the faces in the order rolled.           *)
(* Result: successes, dice rolled, rounds, the dice of each round, and     *)
(* whether the stream ran out before the rule was finished (short).        *)

WodLegal(pool, add, sides, thr) ==
  pool >= 1 /\ pool <= 20000 /\ (add = 0 \/ add >= 2) /\ sides >= 1 /\ thr >= 1

RECURSIVE WodRounds(_, _, _, _, _, _, _)
WodRounds(fs, pos, pool, add, thr, isGE, acc) ==
  IF pos + pool - 1 > Len(fs)
  THEN [acc EXCEPT !.short = TRUE]
  ELSE LET ds   == SubSeq(fs, pos, pos + pool - 1)
           succ == Cardinality({i \in 1..pool : IF isGE THEN ds[i] >= thr ELSE ds[i] <= thr})
           adds == IF add = 0 THEN 0 ELSE Cardinality({i \in 1..pool : ds[i] >= add})
           acc2 == [acc EXCEPT !.succ = @ + succ, !.total = @ + pool, !.rounds = @ + 1,
                                !.dice = Append(@, ds), !.used = @ + pool]
       IN IF adds = 0 THEN acc2
          ELSE WodRounds(fs, pos + pool, adds, add, thr, isGE, acc2)

WoD(fs, pool, add, thr, isGE) ==
  WodRounds(fs, 1, pool, add, thr, isGE,
            [succ |-> 0, total |-> 0, rounds |-> 0, dice |-> <<>>, used |-> 0, short |-> FALSE])

-----------------------------------------------------------------------------
(* Double Cross: each critical round is worth 10, the last round its best  *)
(* die.                                                                    *)

DcLegal(pool, crit, sides) == pool >= 1 /\ pool <= 20000 /\ crit >= 2 /\ sides >= 1

RECURSIVE DcRounds(_, _, _, _, _)
DcRounds(fs, pos, pool, crit, acc) ==
  IF pos + pool - 1 > Len(fs)
  THEN [acc EXCEPT !.short = TRUE]
  ELSE LET ds    == SubSeq(fs, pos, pos + pool - 1)
           crits == Cardinality({i \in 1..pool : ds[i] >= crit})
           best  == SetMax({ds[i] : i \in 1..pool})
           val   == IF crits > 0 THEN 10 ELSE best
           acc2  == [acc EXCEPT !.value = @ + val, !.total = @ + pool, !.rounds = @ + 1,
                                 !.dice = Append(@, ds), !.used = @ + pool]
       IN IF crits = 0 THEN acc2
          ELSE DcRounds(fs, pos + pool, crits, crit, acc2)

DC(fs, pool, crit) ==
  DcRounds(fs, 1, pool, crit,
           [value |-> 0, total |-> 0, rounds |-> 0, dice |-> <<>>, used |-> 0, short |-> FALSE])

=============================================================================
