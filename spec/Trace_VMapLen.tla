--------------------------- MODULE Trace_VMapLen ---------------------------
(***************************************************************************)
(* C12: Length under concurrency.  One writer moves a token round a ring   *)
(* of keys (Store the next key, then Delete the previous one), so that     *)
(* after every prefix of its operations the map holds `lo`..`hi` live      *)
(* keys; readers call Length all the while.  In every linearization a      *)
(* Length call takes effect between two writer operations, so its result   *)
(* is the size of the map after some prefix: a result outside lo..hi has   *)
(* no linearization.  (VMapDefs!ACall gives Length as ACount of the map.)  *)
(* One event = one run: the bounds, the distinct results seen, the number  *)
(* of calls, and the size once quiescent.                                  *)
(***************************************************************************)
EXTENDS Integers, Sequences, TLC, Json, IOUtils

Trace == ndJsonDeserialize(IOEnv.TRACE)
VARIABLES l, bad
Tag(ok, t) == IF ok THEN {} ELSE {t}

Check(e) ==
  Tag(\A i \in 1..Len(e.seen) : e.seen[i] >= e.lo /\ e.seen[i] <= e.hi, "length-outside-every-linearization")
  \cup Tag(e.final = e.finalExpected, "length-wrong-when-quiescent")

Init == l = 1 /\ bad = <<>>
Step == /\ l <= Len(Trace)
        /\ LET why == Check(Trace[l]) IN bad' = IF why = {} THEN bad ELSE Append(bad, [i |-> l, why |-> why])
        /\ l' = l + 1
Finish == /\ l = Len(Trace) + 1
          /\ JsonSerialize(IOEnv.RESULT, [n |-> Len(Trace), bad |-> bad])
          /\ l' = l + 1 /\ UNCHANGED bad
Next == Step \/ Finish
Spec == Init /\ [][Next]_<<l, bad>>
=============================================================================
