----------------------------- MODULE RollWord64 -----------------------------
(* Apalache: the uniformity conditions of RollWord for ALL n and ALL words at the real width 64. *)
EXTENDS RollWord

VARIABLES
  \* @type: Int;
  n,
  \* @type: Int;
  v

WW == 64

Init == /\ n \in 1..MaxSides(WW)
        /\ v \in 0..MaxWord(WW)

Next == UNCHANGED <<n, v>>

Inv1 == S1(n, WW)
Inv2 == S2(v, n, WW)
Inv3 == S3(v, n, WW)
Inv4 == S4(n, WW)
Inv5 == S5(v, n, WW)
=============================================================================
