------------------------------ MODULE BudgetInd ------------------------------
(***************************************************************************)
(* spec/Budget.tla for ALL limits and batch sizes: an inductive invariant  *)
(* discharged by Apalache (Init => IndInv at length 0, IndInv /\ Next =>   *)
(* IndInv' at length 1).  Limit and MaxBatch are unconstrained naturals    *)
(* (ConstInit).  The module repeats Budget's actions with type             *)
(* annotations; CountRounds is fixed to TRUE (the repaired design).        *)
(***************************************************************************)
EXTENDS Integers

CONSTANTS
  \* @type: Int;
  Limit,
  \* @type: Int;
  MaxBatch

VARIABLES
  \* @type: Int;
  ops,
  \* @type: Int;
  work,
  \* @type: Str;
  status,
  \* @type: Int;
  depth

ConstInit == Limit \in Nat /\ MaxBatch \in Nat /\ MaxBatch >= 1

Init == ops = 0 /\ work = 0 /\ status = "run" /\ depth = 0

Charge(n, w, next) ==
  /\ ops' = ops + n
  /\ IF ops + n > Limit
     THEN status' = "error" /\ work' = work
     ELSE status' = next /\ work' = work + w

Plain    == status = "run" /\ Charge(1, 1, "run") /\ UNCHANGED depth
Dice(n)  == status = "run" /\ Charge(1 + n, 1 + n, "run") /\ UNCHANGED depth
Call     == status = "run" /\ Charge(1 + 100, 1, "run") /\ depth' = depth + 1
Return   == status = "run" /\ depth > 0 /\ Charge(1, 1, "run") /\ depth' = depth - 1
Explode(n) == status = "run" /\ Charge(1 + n, 1 + n, "round") /\ UNCHANGED depth
Round(n)   == status = "round" /\ Charge(n, n, "round") /\ UNCHANGED depth
EndRounds  == status = "round" /\ status' = "run" /\ UNCHANGED <<ops, work, depth>>
Halt       == status = "run" /\ depth = 0 /\ status' = "done" /\ UNCHANGED <<ops, work, depth>>

Next == Plain \/ Call \/ Return \/ EndRounds \/ Halt
        \/ \E n \in 1..MaxBatch : Dice(n) \/ Explode(n) \/ Round(n)

\* the invariant is its own induction hypothesis
IndInv == /\ status \in {"run", "round", "error", "done"}
          /\ ops >= 0 /\ work >= 0 /\ depth >= 0
          /\ work <= ops                               \* Accounting
          /\ (ops > Limit <=> status = "error")        \* FailClosed
          /\ work <= Limit \/ (work = 0)               \* BoundedWork (work stays 0 if the very first charge fails; Limit may be 0)
IndInit == ops \in Int /\ work \in Int /\ depth \in Int /\ status \in {"run", "round", "error", "done"} /\ IndInv
==============================================================================
