------------------------------- MODULE ErrPos -------------------------------
(***************************************************************************)
(* Where a syntax error points (C19).  An input is a sequence of runes,    *)
(* each with its UTF-8 width and whether it is a line feed.  For a byte    *)
(* offset o, 0 <= o <= total width:                                        *)
(*   Line(o) = 1 + number of line feeds strictly before o                  *)
(*   Col(o)  = 1 + number of runes between the last such line feed and o   *)
(* The friendly message quotes line Line(o) (or its documented truncation) *)
(* and puts the caret under column Col(o); its header and message lines    *)
(* are written in the configured language only.                            *)
(***************************************************************************)
EXTENDS Integers, Sequences, FiniteSets

\* byte offset at which rune i starts (1-based rune index); Start(n+1) = total width
RECURSIVE StartOf(_, _)
StartOf(ws, i) == IF i <= 1 THEN 0 ELSE StartOf(ws, i - 1) + ws[i - 1]
Total(ws) == StartOf(ws, Len(ws) + 1)

\* number of runes that start strictly before offset o
RunesBefore(ws, o) == Cardinality({i \in 1..Len(ws) : StartOf(ws, i) < o})
OnBoundary(ws, o) == \E i \in 1..(Len(ws) + 1) : StartOf(ws, i) = o

Line(ws, lf, o) == 1 + Cardinality({i \in 1..RunesBefore(ws, o) : lf[i]})
LastLF(ws, lf, o) == LET S == {i \in 1..RunesBefore(ws, o) : lf[i]} IN
                     IF S = {} THEN 0 ELSE CHOOSE m \in S : \A y \in S : m >= y
Col(ws, lf, o) == 1 + RunesBefore(ws, o) - LastLF(ws, lf, o)

\* message table (parser_errors.go errMsgs); %c stands for the quoted character
Msgs == {
  [key |-> "empty",           cn |-> "输入为空", en |-> "Empty input"],
  [key |-> "invalidStart",    cn |-> "表达式不能以 '%c' 开头", en |-> "Expression cannot start with '%c'"],
  [key |-> "missingRParen",   cn |-> "缺少右括号 ')'", en |-> "Missing closing parenthesis ')'"],
  [key |-> "missingRBrace",   cn |-> "缺少右花括号 '}'", en |-> "Missing closing brace '}'"],
  [key |-> "missingRBracket", cn |-> "缺少右方括号 ']'", en |-> "Missing closing bracket ']'"],
  [key |-> "unclosedString",  cn |-> "字符串未闭合", en |-> "Unclosed string literal"],
  [key |-> "missingExpr",     cn |-> "'%c' 后需要表达式", en |-> "Expression expected after '%c'"],
  [key |-> "incomplete",      cn |-> "表达式不完整", en |-> "Incomplete expression"],
  [key |-> "unexpectedChar",  cn |-> "无法识别的字符 '%c'", en |-> "Unexpected character '%c'"],
  [key |-> "syntax",          cn |-> "语法错误", en |-> "Syntax error"]}

\* language settings: 0 both, 1 Chinese only, 2 English only
HeaderFor(lang) == CASE lang = 1 -> "语法错误" [] lang = 2 -> "Syntax Error" [] OTHER -> "语法错误 Syntax Error"
=============================================================================
