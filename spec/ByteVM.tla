------------------------------- MODULE ByteVM -------------------------------
(***************************************************************************)
(* The stack VM of rollvm.go at the level of CONTROL AND STACK SHAPE:      *)
(* one action per instruction, values abstracted away, every conditional   *)
(* jump taken both ways.  The programs are the REAL compiler's output      *)
(* (main code and the bodies of functions / computed values), read from    *)
(* IOEnv.PROGS.  State: program p, pc, operand-stack height h, the saved   *)
(* heights of open blocks / template holes, dice-state depth, wod/dc       *)
(* initialised, whether an annotation span exists, whether anything was    *)
(* popped yet (push.last).                                                 *)
(*                                                                         *)
(* C08: on every path no instruction pops more than the stack holds, every *)
(* jump has an integer operand and lands inside the program, every pc is   *)
(* reached with one block depth only, and roll/annotation state is set up  *)
(* before use.  Violating states are terminal and recorded (register 2);   *)
(* the POSTCONDITION writes them, with the (pc, depth) conflicts, to       *)
(* IOEnv.RESULT.  Run with -workers 1.                                     *)
(***************************************************************************)
EXTENDS ByteVMDefs, TLC, Json, IOUtils

Progs == ndJsonDeserialize(IOEnv.PROGS)

\* Stack effects observed on the real VM that differ from the table (normally empty).  When the recorded
\* dispatch steps show an opcode with another net effect, the all-paths check is run with the OBSERVED
\* effect, so that the verdict is about the compiler/VM pair as it really is.
Overrides == ndJsonDeserialize(IOEnv.OVERRIDES)
Eff(i) == IF \E j \in 1..Len(Overrides) : Overrides[j].op = i.op
          THEN LET j == CHOOSE j \in 1..Len(Overrides) : Overrides[j].op = i.op IN <<Overrides[j].pops, Overrides[j].pushes>>
          ELSE Effect(i)

Cap(x) == IF x > HCap THEN HCap ELSE x

VARIABLES p, pc, h, blk, fblk, dice, wod, dc, det, lastpop, status

vars == <<p, pc, h, blk, fblk, dice, wod, dc, det, lastpop, status>>

Code == Progs[p].code
Len0 == Len(Code)
Ins == Code[pc + 1]

Init == /\ p \in 1..Len(Progs)
        /\ pc = 0 /\ h = 0 /\ blk = <<>> /\ fblk = <<>> /\ dice = 0 /\ wod = FALSE /\ dc = FALSE
        /\ det = FALSE /\ lastpop = FALSE
        /\ status = IF Len(Progs[p].code) = 0 THEN "end" ELSE "run"
        /\ TLCSet(100 + p, {<<0, 0, 0>>})

Violate(kind) ==
  /\ status' = "violation"
  /\ TLCSet(2, TLCGet(2) \cup {[p |-> p, pc |-> pc, kind |-> kind, op |-> Ins.op, h |-> h]})
  /\ UNCHANGED <<p, pc, h, blk, fblk, dice, wod, dc, det, lastpop>>

Stop(s) == status' = s /\ UNCHANGED <<p, pc, h, blk, fblk, dice, wod, dc, det, lastpop>>

\* register 100+p: the (pc, block depth, template depth) triples reached so far in program p.
\* A pc reached with a second depth is a violation and is NOT explored further (ill-formed loops would
\* otherwise grow the block stack on every iteration and blow the state space up).
Seen == TLCGet(100 + p)
DepthConflict(pc2, b, f) == \E x \in Seen : x[1] = pc2 /\ (x[2] # Len(b) \/ x[3] # Len(f))

Goto(pc2, h2, blk2, fblk2, dice2, wod2, dc2, det2, lp2) ==
  IF pc2 < 0 \/ pc2 > Len0
  THEN Violate("jump-out-of-bounds")
  ELSE IF DepthConflict(pc2, blk2, fblk2)
  THEN Violate("block-depth-conflict")
  ELSE /\ pc' = pc2 /\ h' = Cap(h2) /\ blk' = blk2 /\ fblk' = fblk2 /\ dice' = dice2 /\ wod' = wod2 /\ dc' = dc2
       /\ det' = det2 /\ lastpop' = lp2
       /\ status' = IF pc2 = Len0 THEN "end" ELSE "run"
       /\ TLCSet(100 + p, Seen \cup {<<pc2, Len(blk2), Len(fblk2)>>})
       /\ UNCHANGED p

Step ==
  /\ status = "run"
  /\ LET i  == Ins
         ef == Eff(i)
         popped == ef[1] > 0
     IN
     IF ~Known(i) THEN Violate("unknown-opcode")
     ELSE IF i.op \in Jumps /\ i.nilop THEN Violate("unpatched-jump")
     ELSE IF h < ef[1] /\ i.op # "ld.fs" THEN Violate("stack-underflow")
     ELSE IF NeedsDet(i) /\ ~det THEN Violate("annotation-state-missing")
     ELSE IF NeedsDice(i) /\ dice < 1 THEN Violate("dice-state-missing")
     ELSE IF NeedsWod(i) /\ ~wod THEN Violate("wod-state-missing")
     ELSE IF NeedsDc(i) /\ ~dc THEN Violate("dc-state-missing")
     ELSE IF i.op = "push.last" /\ ~lastpop THEN Stop("error")          \* guarded by the VM: an error, not a crash
     ELSE
     CASE i.op \in {"ret", "halt"} -> Stop("end")
       [] i.op = "jmp" -> Goto(pc + 1 + i.n, h, blk, fblk, dice, wod, dc, det, lastpop)
       [] i.op = "jne" -> \/ Goto(pc + 1, h - 1, blk, fblk, dice, wod, dc, det, TRUE)
                          \/ Goto(pc + 1 + i.n, h - 1, blk, fblk, dice, wod, dc, det, TRUE)
       [] i.op = "je"  -> \/ Goto(pc + 1, h - 1, blk, fblk, dice, wod, dc, det, TRUE)
                          \/ Goto(pc + 1 + i.n, h - 1, blk, fblk, dice, wod, dc, det, TRUE)
       [] i.op = "je.dup" -> \/ Goto(pc + 1, h - 1, blk, fblk, dice, wod, dc, det, TRUE)
                             \/ Goto(pc + 1 + i.n, h, blk, fblk, dice, wod, dc, det, TRUE)
       [] i.op = "ld.fs" -> IF h < i.n THEN Stop("error")
                            ELSE Goto(pc + 1, h - i.n + 1, blk, fblk, dice, wod, dc, det, lastpop)
       [] i.op = "block.push" -> IF Len(blk) >= MaxBlk THEN Stop("error")
                                 ELSE Goto(pc + 1, h, Append(blk, h), fblk, dice, wod, dc, det, lastpop)
       [] i.op = "block.pop" -> IF Len(blk) = 0 THEN Violate("block-pop-without-push")
                                ELSE Goto(pc + 1, blk[Len(blk)] + 1, SubSeq(blk, 1, Len(blk) - 1), fblk, dice, wod, dc, det, lastpop)
       [] i.op = "fstr.block.push" -> IF Len(fblk) >= MaxBlk THEN Stop("error")
                                      ELSE Goto(pc + 1, h, blk, Append(fblk, h), dice, wod, dc, det, lastpop)
       [] i.op = "fstr.block.pop" -> IF Len(fblk) = 0 THEN Violate("block-pop-without-push")
                                     ELSE IF h < fblk[Len(fblk)] THEN Violate("stack-underflow")
                                     ELSE Goto(pc + 1, fblk[Len(fblk)] + 1, blk, SubSeq(fblk, 1, Len(fblk) - 1), dice, wod, dc, det,
                                               lastpop \/ h # fblk[Len(fblk)])
       [] i.op = "mark.detail" -> Goto(pc + 1, h, blk, fblk, dice, wod, dc, TRUE, lastpop)
       [] i.op = "dice.init"   -> Goto(pc + 1, h, blk, fblk, IF dice < 8 THEN dice + 1 ELSE dice, wod, dc, det, lastpop)
       [] i.op = "dice"        -> Goto(pc + 1, h, blk, fblk, dice - 1, wod, dc, det, TRUE)
       [] i.op = "wod.init"    -> Goto(pc + 1, h, blk, fblk, dice, TRUE, dc, det, lastpop)
       [] i.op = "dc.setInit"  -> Goto(pc + 1, h, blk, fblk, dice, wod, TRUE, det, lastpop)
       [] OTHER -> \* straight-line: the op may also fail with a run-time error, which is a legitimate outcome
                   \/ Goto(pc + 1, h - ef[1] + ef[2], blk, fblk, dice, wod, dc, det, lastpop \/ (popped /\ i.op # "store"))
                   \/ (i.op \notin Push1 \cup {"mark.detail"} /\ Stop("error"))

Next == Step
Spec == Init /\ [][Next]_vars

\* end of a program: nothing left open is NOT required by the VM (blocks may stay open after break/return),
\* but a program must not end inside a block it could re-enter: covered by the depth conflict check.

\* POSTCONDITION: write everything found
Done == JsonSerialize(IOEnv.RESULT, [viol |-> TLCGet(2), programs |-> Len(Progs)])

\* registers are initialised from an ASSUME (evaluated once, before Init)
ASSUME TLCSet(2, {})
=============================================================================
