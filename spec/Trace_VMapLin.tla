--------------------------- MODULE Trace_VMapLin ---------------------------
(***************************************************************************)
(* Linearizability check for concurrent ValueMap histories recorded from   *)
(* real goroutines.  Each history: initial contents, a set of completed    *)
(* operations with invocation/response tickets (global atomic counter      *)
(* taken inside the call window) and return values, and the contents at    *)
(* quiescence.  A history is accepted iff some total order that respects   *)
(* real time (rsp[i] < inv[j] => i before j) is explained step by step by  *)
(* the abstract map and ends in the observed contents.                     *)
(***************************************************************************)
EXTENDS VMapDefs, Json, IOUtils

Hist == ndJsonDeserialize(IOEnv.TRACE)

VARIABLES h, m, done

vars == <<h, m, done>>

FromPairs(ps) == [k \in Key |-> IF \E i \in 1..Len(ps) : ps[i].k = k
                                THEN (CHOOSE i \in 1..Len(ps) : ps[i].k = k) \* index
                                ELSE 0]
MapOf(ps) == LET f == FromPairs(ps) IN [k \in Key |-> IF f[k] = 0 THEN ABSENT ELSE ps[f[k]].v]

Ops(x) == Hist[x].ops
N(x) == Len(Ops(x))

Init == /\ h \in 1..Len(Hist)
        /\ m = MapOf(Hist[h].init)
        /\ done = {}

Lin(i) ==
  LET o == Ops(h)[i]
      a == ACall(m, [op |-> o.op, k |-> o.k, v |-> o.v]) IN
  /\ i \notin done
  /\ \A j \in (1..N(h)) \ (done \cup {i}) : ~(Ops(h)[j].rsp < o.inv)
  /\ a.res = o.res /\ a.ok = o.ok
  /\ m' = a.m
  /\ done' = done \cup {i}
  /\ UNCHANGED h

Accept == /\ done = 1..N(h)
          /\ m = MapOf(Hist[h].final)
          /\ PrintT(<<"LINOK", h>>)
          /\ done' = {0}           \* terminal marker
          /\ UNCHANGED <<h, m>>

Next == (\E i \in 1..N(h) : Lin(i)) \/ Accept
Spec == Init /\ [][Next]_vars
=============================================================================
