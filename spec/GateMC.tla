------------------------------ MODULE GateMC ------------------------------
(* Bounded instance of Gate for exhaustive checking and for dumping behaviours as replay plans. *)
EXTENDS Gate, IOUtils, Json

MaxItems == atoi(IOEnv.MAXITEMS)
MaxRuns  == atoi(IOEnv.MAXRUNS)
Bound == Len(cur) <= MaxItems /\ Len(runs) <= MaxRuns

\* every finished history of MaxRuns inputs is written once, as one JSON line
Dump == \/ ~(Len(runs) = MaxRuns /\ phase = "idle")
        \/ Serialize(ToJson([cfg |-> [coc |-> cfg.fam["coc"], wod |-> cfg.fam["wod"], fate |-> cfg.fam["fate"], doublecross |-> cfg.fam["doublecross"],
                                        noStmts |-> cfg.noStmts, noNDice |-> cfg.noNDice, noBit |-> cfg.noBit],
                             runs |-> runs]) \o "\n",
                     IOEnv.OUT, [format |-> "TXT", charset |-> "UTF-8", openOptions |-> <<"WRITE", "CREATE", "APPEND">>]).exitValue = 0
BoundDump == Bound /\ Dump
NextB == Len(runs) < MaxRuns /\ Next /\ Len(cur') <= MaxItems /\ Len(runs') <= MaxRuns

\* focused instance: histories in which macros, direct uses and lazily compiled text of two families meet
FocusFam == {"coc", "fate"}
InitF == Init /\ ~cfg.noStmts /\ ~cfg.noNDice /\ ~cfg.noBit /\ ~cfg.fam["wod"] /\ ~cfg.fam["doublecross"]
NextF == /\ Len(runs) < MaxRuns
         /\ \/ Begin \/ End
            \/ \E f \in FocusFam : Macro(f, TRUE)
            \/ \E f \in FocusFam : \E i \in 1..Len(Forms[f]) : Use(f, i) \/ Lazy(f, i) \/ RunExpr(f, i)
         /\ Len(cur') <= MaxItems /\ Len(runs') <= MaxRuns
=============================================================================
