----------------------------- MODULE Trace_Host -----------------------------
(***************************************************************************)
(* The embedding API as a contract over observed calls (Context.Run,       *)
(* Matched/RestInput, Ret, GetDetailText, variables, generator state,      *)
(* st callbacks).  Each trace line is one experiment the harness performed *)
(* on real VMs; the checks below are the host-level statements of the      *)
(* properties:                                                             *)
(*   c03   Run(input) vs Run(Matched) on an identical fresh VM:            *)
(*         Concat, Closed, SameOutcome (value, detail, variables,          *)
(*         generator state, callbacks), and - when the consumed text is a  *)
(*         program of the Lang oracle - the value Lang prescribes          *)
(* Failures are collected per line (never fatal).                          *)
(***************************************************************************)
EXTENDS Integers, Sequences, TLC, Json, IOUtils

Trace == ndJsonDeserialize(IOEnv.TRACE)

VARIABLES l, bad

Tag(c, t) == IF c THEN {} ELSE {t}
Ran(o) == ~o.err /\ ~o.panic

CheckC03(e) ==
  LET a == e.a
      b == e.b IN
  IF ~Ran(a) THEN {}     \* the whole input was rejected (or crashed: C01's concern); nothing was attributed to a prefix
  ELSE Tag(a.matched \o a.rest = e.input, "concat")
       \cup Tag(e.hasB /\ Ran(b), "matched-alone-fails")
       \cup (IF e.hasB /\ Ran(b)
             THEN Tag(b.rest = "" /\ b.matched = a.matched, "not-closed")
                  \cup Tag(b.ret = a.ret, "value-differs")
                  \cup Tag(b.detail = a.detail, "detail-differs")
                  \cup Tag(b.vars = a.vars, "vars-differ")
                  \cup Tag(b.seed = a.seed /\ b.rolls = a.rolls, "rng-differs")
                  \cup Tag(b.st = a.st, "callbacks-differ")
             ELSE {})
       \cup Tag(e.consumedProgram => e.valOK, "prefix-value")

Check(e) == CASE e.ev = "c03" -> CheckC03(e)
              [] OTHER -> {"unknown-event"}

Init == l = 1 /\ bad = <<>>
Step == /\ l <= Len(Trace)
        /\ LET why == Check(Trace[l]) IN bad' = IF why = {} THEN bad ELSE Append(bad, [i |-> l, why |-> why])
        /\ l' = l + 1
Finish == /\ l = Len(Trace) + 1
          /\ JsonSerialize(IOEnv.RESULT, [n |-> Len(Trace), bad |-> bad])
          /\ l' = l + 1 /\ UNCHANGED bad
Next == Step \/ Finish
Spec == Init /\ [][Next]_<<l, bad>>
=============================================================================
