----------------------------- MODULE Trace_Host -----------------------------
(***************************************************************************)
(* The embedding API as a contract over observed calls (Context.Run,       *)
(* Matched/RestInput, Ret, GetDetailText, variables, generator state,      *)
(* st callbacks).  Each trace line is one experiment the harness performed *)
(* on real VMs; the checks below are the host-level statements of the      *)
(* properties:                                                             *)
(*   c03   Run(input) vs Run(Matched) on an identical fresh VM:            *)
(*         Concat, Closed, SameOutcome (value, detail, variables,          *)
(*         generator state, callbacks), and - when the consumed text is a  *)
(*         program of the Lang oracle - the value Lang prescribes          *)
(*   c06/c09/c09u  reproducibility, snapshot/restore (see below)           *)
(*   c17t/c17p     extension points: transparency of inert extensions and  *)
(*         the custom dice protocol of spec/Ext.tla on recorded runs       *)
(* Failures are collected per line (never fatal).                          *)
(***************************************************************************)
EXTENDS Integers, Sequences, TLC, Json, IOUtils

Trace == ndJsonDeserialize(IOEnv.TRACE)

VARIABLES l, bad

Tag(c, t) == IF c THEN {} ELSE {t}
Ran(o) == ~o.err /\ ~o.panic
\* (process texts that render a multi-key dict used to depend on map iteration order and were exempt; dicts are walked in key order now)
SameDetail(x, y) == x = y

CheckC03(e) ==
  LET a == e.a
      b == e.b IN
  IF ~Ran(a) THEN {}     \* the whole input was rejected (or crashed: C01's concern); nothing was attributed to a prefix
  ELSE Tag(a.matched \o a.rest = e.input, "concat")
       \cup Tag(e.hasB /\ Ran(b), "matched-alone-fails")
       \cup (IF e.hasB /\ Ran(b)
             THEN Tag(b.rest = "" /\ b.matched = a.matched, "not-closed")
                  \cup Tag(b.ret = a.ret, "value-differs")
                  \cup Tag(SameDetail(b.detail, a.detail), "detail-differs")
                  \cup Tag(b.vars = a.vars, "vars-differ")
                  \cup Tag(b.seed = a.seed /\ b.rolls = a.rolls, "rng-differs")
                  \cup Tag(b.st = a.st, "callbacks-differ")
             ELSE {})
       \cup Tag(e.consumedProgram => e.valOK, "prefix-value")

\* c09: variables snapshotted to JSON after a statement prefix (a crash point), restored into a fresh VM with the same
\* generator state; the remaining statements and follow-up programs run on both VMs
SameOutcome(x, y) ==
  /\ x.err = y.err /\ x.panic = y.panic
  /\ (Ran(x) => (x.ret = y.ret /\ SameDetail(x.detail, y.detail) /\ x.matched = y.matched /\ x.rest = y.rest))
  /\ x.vars = y.vars /\ x.rolls = y.rolls /\ x.st = y.st

CheckC09(e) ==
  Tag(~e.snapPanic, "snapshot-crash")
  \cup (IF e.snapPanic \/ e.snapErr THEN {}          \* an unrepresentable value (cycle, non-finite float) may be refused
        ELSE Tag(~e.restoreErr, "restore-rejects-own-snapshot")
             \cup (IF e.restoreErr THEN {}
                   ELSE Tag(e.varsA = e.varsB, "restored-variables-differ")
                        \* JSON is a tree: two variables sharing one array/dict come back as two copies (tagged separately)
                        \cup Tag(Len(e.a) = Len(e.b) /\ \A i \in 1..Len(e.a) : SameOutcome(e.a[i], e.b[i]),
                                 IF e.aliased THEN "behaviour-differs-after-restore-of-shared-containers"
                                 ELSE IF e.flagBody THEN "behaviour-differs-after-restore-of-bodies-compiled-under-other-flags"
                                 ELSE "behaviour-differs-after-restore")
                        \cup Tag(\A i \in 1..Len(e.a) : ~e.a[i].panic /\ ~e.b[i].panic, "crash-after-restore")))

\* c09u: a value that JSON cannot represent (reference cycle, non-finite float): serialising it, alone or as part of the
\* variables, reports an error
CheckC09u(e) ==
  IF e.setupErr THEN {}
  ELSE Tag(~e.valPanic /\ ~e.mapPanic, "serialisation-crash")
       \cup Tag(e.valErr, "unrepresentable-value-serialised")
       \cup Tag(e.mapErr, "unrepresentable-variable-serialised")

\* c06: the same program under the same seed, before and after unrelated activity on other contexts and on the global
\* generator; a captured generator state installed in a fresh context; the origin of every die
SameSeeded(x, y) ==
  /\ x.err = y.err /\ x.panic = y.panic
  /\ (Ran(x) => (x.ret = y.ret /\ SameDetail(x.detail, y.detail)))
  /\ x.seed = y.seed /\ x.rolls = y.rolls

CheckC06(e) ==
  Tag(SameSeeded(e.a, e.a2), "not-reproducible")
  \cup Tag(e.a.foreign = 0 /\ e.a2.foreign = 0 /\ e.r1.foreign = 0 /\ e.r2.foreign = 0, "die-from-foreign-generator")
  \cup Tag(~e.a.globalMoved /\ ~e.a2.globalMoved /\ ~e.r1.globalMoved /\ ~e.r2.globalMoved, "global-generator-used")
  \cup Tag(SameSeeded(e.r1, e.r2), "not-resumable")
  \cup Tag(~e.a.panic /\ ~e.r1.panic /\ ~e.r2.panic, "crash")

\* c17t: a history of programs on a plain VM (a) and on an identically seeded VM with extensions installed that never act (b):
\* custom syntaxes that do not match at any operand start, pass-through load/store hooks, identity detail rewriters
CheckC17t(e) ==
  Tag(e.invokes = 0, "handler-ran-without-a-match")
  \cup Tag(Len(e.a) = Len(e.b) /\ \A i \in 1..Len(e.a) : (SameOutcome(e.a[i], e.b[i]) /\ e.a[i].seed = e.b[i].seed), "not-transparent")

\* c17c: Ext!UsedByCopy for containers - a handler returns ONE array / nested array / dict object every time; the script changes
\* the value it received; a later evaluation and the handler's own object are as before.  kind = "groups": a stream parser returns
\* ONE groups slice every time; every handler call sees the text of its own operand.
CheckC17c(e) ==
  Tag(~e.err, "custom-operand-rejected")
  \cup (IF e.err THEN {}
        ELSE Tag(e.got = e.want, "handler-value-not-used-by-copy")
             \cup Tag(e.handlerObject = e.handlerWant, "handler-object-changed-by-script")
             \cup Tag(e.kind # "groups" \/ e.texts = e.wantTexts, "handler-received-foreign-groups"))

\* c17p: a program whose operands include matching custom syntaxes (b), and the same program with their values written out (a).
\* ops = the custom operands in source order with what the handler must receive and how often each is evaluated;
\* listing = the dice.custom instructions compiled; events = handler invocations and dice.custom dispatches (hook H1) in real order.
\* Statements of spec/Ext.tla on the recorded run: CodeFaithful, InvokeOncePerExec, UsedByCopy.
RunEvents(e) == SelectSeq(e.events, LAMBDA x : x.e \in {"exec", "invoke"})
Count(seq, P(_)) == Len(SelectSeq(seq, P))
CheckC17p(e) ==
  LET re == RunEvents(e)
      n == Len(e.ops) IN
  IF ~Ran(e.a) THEN {}     \* the program is not valid even with plain numbers (generator artefact)
  ELSE Tag(Ran(e.b), "custom-operand-rejected")
       \* CodeFaithful: one instruction per written operand, in source order, carrying exactly the matched text, groups and payload
       \cup Tag(Len(e.listing) = n /\ \A i \in 1..Len(e.listing) : i <= n =>
                   (e.listing[i].groups = e.ops[i].groups /\ e.listing[i].text = e.ops[i].display /\ e.listing[i].payload = e.ops[i].payload),
               "compiled-operand-differs")
       \cup (IF ~Ran(e.b) THEN {}
             ELSE \* InvokeOncePerExec: dispatch and handler call alternate, the call receives the instruction's own pristine groups
                  Tag(Len(re) % 2 = 0 /\ \A k \in 1..Len(re) :
                        IF k % 2 = 1 THEN re[k].e = "exec"
                        ELSE re[k].e = "invoke" /\ re[k].groups = re[k-1].groups /\ re[k].payload = re[k-1].payload /\ re[k].depth = re[k-1].depth,
                      "handler-calls-differ-from-dispatches")
                  \* each operand is evaluated as often as the program evaluates it
                  \cup Tag(\A i \in 1..n :
                            Count(re, LAMBDA x : x.e = "exec" /\ x.groups = e.ops[i].groups)
                              = LET same == {j \in 1..n : e.ops[j].groups = e.ops[i].groups}
                                    RECURSIVE Sum(_)
                                    Sum(S) == IF S = {} THEN 0 ELSE LET j == CHOOSE j \in S : TRUE IN e.ops[j].count + Sum(S \ {j})
                                IN Sum(same),
                          "evaluation-count")
                  \* the returned value is the operand's value
                  \cup Tag(e.b.ret = e.a.ret /\ e.b.vars = e.a.vars /\ e.b.rolls = e.a.rolls, "returned-value-not-used")
                  \* UsedByCopy: changing the returned object afterwards changes nothing the VM holds
                  \cup Tag(e.retAfter = e.retBefore /\ e.varsAfter = e.varsBefore, "result-aliased")
                  \* ... nor what the process text shows: each operand with the value it returned when it was evaluated
                  \cup Tag(\A i \in 1..Len(e.shown) : e.shown[i].present, "result-aliased-in-process-text"))

Check(e) == CASE e.ev = "c03" -> CheckC03(e)
              [] e.ev = "c17t" -> CheckC17t(e)
              [] e.ev = "c17p" -> CheckC17p(e)
              [] e.ev = "c17c" -> CheckC17c(e)
              [] e.ev = "c06" -> CheckC06(e)
              [] e.ev = "c09" -> CheckC09(e)
              [] e.ev = "c09u" -> CheckC09u(e)
              [] OTHER -> {"unknown-event"}

Init == l = 1 /\ bad = <<>>
Step == /\ l <= Len(Trace)
        /\ LET why == Check(Trace[l]) IN bad' = IF why = {} THEN bad ELSE Append(bad, [i |-> l, why |-> why])
        /\ l' = l + 1
Finish == /\ l = Len(Trace) + 1
          /\ JsonSerialize(IOEnv.RESULT, [n |-> Len(Trace), bad |-> bad])
          /\ l' = l + 1 /\ UNCHANGED bad
Next == Step \/ Finish
Spec == Init /\ [][Next]_<<l, bad>>
=============================================================================
