-------------------------------- MODULE Lexis --------------------------------
(***************************************************************************)
(* String literals (C13): texts are sequences of symbolic characters       *)
(*   a n SQ DQ BT RS BSL LB RB PCT LF CR TAB FF CJK1 EMOJI                  *)
(* Escape(t, style, policy) writes a text as the body of a literal in one  *)
(* of the four quote styles (1 '...'  2 "..."  3 `...`  4 0x1E...0x1E)     *)
(* using the documented escapes  \n \r \f \t \\ \' \" \{ \}  ; policy      *)
(* "min" escapes only what must be, "max" every character that has an      *)
(* escape.  The delimiter of styles 3 and 4 has no escape: such texts are  *)
(* not representable in that style.  Unescape is the documented reading    *)
(* (a backslash before any other character stands for itself).             *)
(*   Theorem (TLC, all texts up to length N):                              *)
(*     Representable(t, s) => Unescape(Escape(t, s, p), s) = t             *)
(***************************************************************************)
EXTENDS Integers, Sequences, TLC

Alphabet == <<"a", "n", "SQ", "DQ", "BT", "RS", "BSL", "LB", "RB", "PCT", "LF", "CR", "TAB", "FF", "CJK1", "EMOJI">>

Delim(style) == CASE style = 1 -> "SQ" [] style = 2 -> "DQ" [] style = 3 -> "BT" [] style = 4 -> "RS"

\* the escape sequence of a character, <<>> if it has none
EscOf(c) == CASE c = "LF" -> <<"BSL", "n">> [] c = "CR" -> <<"BSL", "r">> [] c = "FF" -> <<"BSL", "f">> [] c = "TAB" -> <<"BSL", "t">>
              [] c = "BSL" -> <<"BSL", "BSL">> [] c = "SQ" -> <<"BSL", "SQ">> [] c = "DQ" -> <<"BSL", "DQ">>
              [] c = "LB" -> <<"BSL", "LB">> [] c = "RB" -> <<"BSL", "RB">> [] OTHER -> <<>>

MustEscape(c, style) == c = "BSL" \/ (style \in {1, 2} /\ c = Delim(style)) \/ (style \in {3, 4} /\ c = "LB")
Representable(t, style) == style \in {3, 4} => \A i \in 1..Len(t) : t[i] # Delim(style)

RECURSIVE Escape(_, _, _)
Escape(t, style, policy) ==
  IF t = <<>> THEN <<>>
  ELSE LET c == Head(t)
           e == IF MustEscape(c, style) \/ (policy = "max" /\ EscOf(c) # <<>>) THEN EscOf(c) ELSE <<c>> IN
       e \o Escape(Tail(t), style, policy)

\* documented reading of a literal body
RECURSIVE Unescape(_)
Unescape(s) ==
  IF s = <<>> THEN <<>>
  ELSE IF Head(s) = "BSL" /\ Len(s) >= 2
       THEN LET x == s[2] IN
            (CASE x = "n" -> <<"LF">> [] x = "r" -> <<"CR">> [] x = "f" -> <<"FF">> [] x = "t" -> <<"TAB">>
               [] x = "BSL" -> <<"BSL">> [] x = "SQ" -> <<"SQ">> [] x = "DQ" -> <<"DQ">> [] x = "LB" -> <<"LB">> [] x = "RB" -> <<"RB">>
               [] OTHER -> <<"BSL", x>>) \o Unescape(SubSeq(s, 3, Len(s)))
       ELSE <<Head(s)>> \o Unescape(Tail(s))

Literal(t, style, policy) == <<Delim(style)>> \o Escape(t, style, policy) \o <<Delim(style)>>

RoundTrip(t, style, policy) == Representable(t, style) => Unescape(Escape(t, style, policy)) = t
=============================================================================
