---------------------------- MODULE Trace_Total ----------------------------
(***************************************************************************)
(* C01: recorded observation sequences against the totality contract of    *)
(* spec/Total.tla.  One event = one input on one configured VM (events     *)
(* with the same outcomes are merged, with a count and an example):        *)
(*   steps    the calls made, in order, each with how it came back         *)
(*            value | error | panic | skipped                              *)
(*   hang     the watchdog had to cut the case (an op budget was set)      *)
(*   fatal    the process died (stack exhaustion, out of memory)           *)
(* The sequence is the one the property lists: Parse, RunAfterParsed, Run  *)
(* again, GetDetailText (twice), GetAsmText, Ret.ToString / ToRepr /       *)
(* ToJSON, Matched/RestInput, RunExpr - also after a failed parse or run   *)
(* and on a VM that earlier inputs left in any state.                      *)
(***************************************************************************)
EXTENDS Naturals, Sequences, TLC, Json, IOUtils

Trace == ndJsonDeserialize(IOEnv.TRACE)
VARIABLES l, bad
Tag(ok, t) == IF ok THEN {} ELSE {t}

Outcome == {"value", "error"}
\* what the host may do with a VM: any call at any time; the order below is the one the harness uses
Calls == {"Parse", "RunAfterParsed", "Run", "GetDetailText", "GetDetailText2", "GetAsmText", "ToString", "ToRepr", "ToJSON", "MatchedRest", "RunExpr"}

CheckTotal(e) ==
  Tag(~e.fatal, "fatal-runtime-error")
  \cup Tag(~e.hang, "hang-under-budget")
  \cup Tag(\A i \in 1..Len(e.steps) : e.steps[i].call \in Calls /\ e.steps[i].out \in Outcome \cup {"skipped"}, "panic-escapes")
  \* the text the process text is asked for twice is the same text (the second call reads the cache or recomputes: both return)
  \cup Tag(e.detailStable, "detail-unstable")

\* host: one call of a call sequence of spec/Host.tla (any order of Parse / RunAfterParsed / Run / RunExpr and the observers on one
\* context), with the outcome the model prescribes in the state it tracks.  Totality is the property; agreement with the rest of
\* the model (outcome class, value of a variable-free text = its value on a fresh context, Matched+Rest = input) is reported as drift.
CheckHost(e) ==
  Tag(e.out \in Outcome, "panic-escapes")
  \cup Tag(e.out \notin Outcome \/ (e.out = e.pred /\ e.same /\ e.concat), "host-model-drift")

Check(e) == IF e.ev = "host" THEN CheckHost(e) ELSE CheckTotal(e)

Init == l = 1 /\ bad = <<>>
Step == /\ l <= Len(Trace)
        /\ LET why == Check(Trace[l]) IN bad' = IF why = {} THEN bad ELSE Append(bad, [i |-> l, why |-> why])
        /\ l' = l + 1
Finish == /\ l = Len(Trace) + 1
          /\ JsonSerialize(IOEnv.RESULT, [n |-> Len(Trace), bad |-> bad])
          /\ l' = l + 1 /\ UNCHANGED bad
Next == Step \/ Finish
Spec == Init /\ [][Next]_<<l, bad>>
=============================================================================
