-------------------------------- MODULE Ext --------------------------------
(***************************************************************************)
(* C17: the custom dice protocol.                                          *)
(*                                                                         *)
(* Parse time.  The input has operand positions Pos = 1..N; a registered   *)
(* syntax matches at the positions in Custom.  The parser visits the       *)
(* positions of the final parse in increasing order, and around them it    *)
(* makes any number of speculative attempts at any position (look-aheads,  *)
(* alternatives that are abandoned, memo misses): an attempt runs the      *)
(* matcher and leaves its result in the single `pending` slot, nothing     *)
(* else.  For an operand of the final parse the parser does                *)
(*     Prepare(p)  - match at p, leave it pending                          *)
(*     Consume(p)  - advance over the pending match if it is the one       *)
(*                   found AT p, otherwise match again                     *)
(*     Commit(p)   - emit one dice.custom carrying the pending match       *)
(* Run time.  Control flow may execute the emitted instructions in any     *)
(* order, any number of times.  Executing one calls its handler once with  *)
(* a copy of the groups and pushes a copy of the returned object; the      *)
(* handler may keep both and change them at any later time.                *)
(***************************************************************************)
EXTENDS Naturals, Sequences, FiniteSets, TLC

CONSTANTS N,             \* operand positions
          MaxSpec,       \* speculative attempts
          MaxExec,       \* executed custom instructions
          CheckOffset    \* TRUE: Consume trusts the pending match only if it was found at its own position (the design)

Pos == 1..N
None == [start |-> 0]

VARIABLES custom,    \* positions where a registered syntax matches
          next,      \* next position of the final parse
          step,      \* "idle" | "prepared" | "consumed" within the current operand
          pending,   \* the one slot the matcher leaves its result in
          spec,      \* speculative attempts made
          code,      \* emitted dice.custom instructions: the position whose text/groups each carries
          phase,     \* "parse" | "run"
          execs,     \* executed instruction indexes, in order
          invokes,   \* handler invocations: [instr, groups] in order
          heap,      \* contents of objects the handler returned (it may change them later)
          stack      \* what the VM pushed: [obj, val]
vars == <<custom, next, step, pending, spec, code, phase, execs, invokes, heap, stack>>

Match(p) == IF p \in custom THEN [start |-> p] ELSE None

Init == /\ custom \in SUBSET Pos
        /\ next = 1 /\ step = "idle" /\ pending = None /\ spec = 0 /\ code = <<>>
        /\ phase = "parse" /\ execs = <<>> /\ invokes = <<>> /\ heap = <<>> /\ stack = <<>>

\* a predicate evaluated for an alternative that is not (or not yet) taken
Speculate(p) == /\ phase = "parse" /\ step = "idle" /\ spec < MaxSpec
                /\ pending' = Match(p) /\ spec' = spec + 1
                /\ UNCHANGED <<custom, next, step, code, phase, execs, invokes, heap, stack>>

\* the final parse reaches position `next`
SkipPlain == /\ phase = "parse" /\ step = "idle" /\ next <= N /\ next \notin custom
             /\ next' = next + 1
             /\ pending' = None              \* Prepare ran and found nothing
             /\ UNCHANGED <<custom, step, spec, code, phase, execs, invokes, heap, stack>>
Prepare == /\ phase = "parse" /\ step = "idle" /\ next <= N /\ next \in custom
           /\ pending' = Match(next) /\ step' = "prepared"
           /\ UNCHANGED <<custom, next, spec, code, phase, execs, invokes, heap, stack>>
\* a look-ahead inside the same operand may run the matcher elsewhere between the two steps
SpeculateInside(p) == /\ phase = "parse" /\ step = "prepared" /\ spec < MaxSpec
                      /\ pending' = Match(p) /\ spec' = spec + 1
                      /\ UNCHANGED <<custom, next, step, code, phase, execs, invokes, heap, stack>>
Consume == /\ phase = "parse" /\ step = "prepared"
           /\ pending' = IF pending # None /\ (~CheckOffset \/ pending.start = next) THEN pending ELSE Match(next)
           /\ step' = "consumed"
           /\ UNCHANGED <<custom, next, spec, code, phase, execs, invokes, heap, stack>>
Commit == /\ phase = "parse" /\ step = "consumed"
          /\ code' = IF pending = None THEN code ELSE Append(code, pending.start)
          /\ pending' = None /\ step' = "idle" /\ next' = next + 1
          /\ UNCHANGED <<custom, spec, phase, execs, invokes, heap, stack>>
EndParse == /\ phase = "parse" /\ step = "idle" /\ next = N + 1
            /\ phase' = "run"
            /\ UNCHANGED <<custom, next, step, pending, spec, code, execs, invokes, heap, stack>>

\* executing instruction i: one handler call with a copy of the groups, a copy of the result is pushed
Exec(i) == /\ phase = "run" /\ Len(execs) < MaxExec /\ i \in 1..Len(code)
           /\ execs' = Append(execs, i)
           /\ invokes' = Append(invokes, [instr |-> i, groups |-> code[i]])   \* a copy of the instruction's groups: writing to it changes nothing
           \* the handler returns object 1 (always the same one), having set its content to the operand's value
           /\ heap' = <<code[i]>>
           /\ stack' = Append(stack, [obj |-> Len(stack) + 2, val |-> code[i]])   \* a fresh object: the copy
           /\ UNCHANGED <<custom, next, step, pending, spec, code, phase>>
\* the handler changes the object it returned earlier
Mutate == /\ phase = "run" /\ heap # <<>>
          /\ heap' = <<0>>
          /\ UNCHANGED <<custom, next, step, pending, spec, code, phase, execs, invokes, stack>>

Next == \/ \E p \in Pos : Speculate(p) \/ SpeculateInside(p)
        \/ SkipPlain \/ Prepare \/ Consume \/ Commit \/ EndParse
        \/ \E i \in 1..N : Exec(i)
        \/ Mutate

Spec == Init /\ [][Next]_vars

-----------------------------------------------------------------------------
IsIncreasing(s) == \A i, j \in 1..Len(s) : i < j => s[i] < s[j]
\* the emitted instructions are exactly the custom operands of the final parse, in source order, each carrying its own match
CodeFaithful == /\ IsIncreasing(code)
                /\ \A i \in 1..Len(code) : code[i] \in custom /\ code[i] < next
                /\ (phase = "run" => {code[i] : i \in 1..Len(code)} = custom)
\* one handler call per executed instruction, with that instruction's pristine groups
InvokeOncePerExec == /\ Len(invokes) = Len(execs)
                     /\ \A k \in 1..Len(execs) : invokes[k].instr = execs[k] /\ invokes[k].groups = code[execs[k]]
\* what was pushed is not the handler's object and keeps the value returned at the time
UsedByCopy == \A k \in 1..Len(stack) : stack[k].obj # 1 /\ stack[k].val = code[execs[k]]
=============================================================================
