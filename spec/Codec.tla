-------------------------------- MODULE Codec --------------------------------
(***************************************************************************)
(* JSON form of values (types_serialization.go, valuemap.go).              *)
(*   value document  {"t": tag, "v": payload}                              *)
(*   tags 0 int, 1 float, 2 str, 4 null, 5 computed {expr, attrs?},        *)
(*        6 array {list}, 7 dict {dict}, 8 function {expr,name,params},    *)
(*        9 native function {name}, 10 native object {name}                *)
(* C10: decoding ANY document either fails or yields a well-formed value:  *)
(* the dynamic type of the payload is the one its tag promises, all the    *)
(* way down, no missing children, native functions callable.               *)
(* The document space below is what an old or foreign producer can send:   *)
(* every tag (known, internal, unknown, missing, wrongly typed) with every *)
(* payload shape (absent, null, scalars, arrays, objects with wrong keys,  *)
(* right keys with wrong types, nulls inside containers, nested documents).*)
(***************************************************************************)
EXTENDS Integers, Sequences, FiniteSets

Tags == <<"0", "1", "2", "4", "5", "6", "7", "8", "9", "10", "20", "21", "99", "3", "missing", "string", "null", "float", "neg">>

\* payload shapes; "child" ones embed another document
Shapes == <<"absent", "null", "int", "flt", "str", "bool", "emptyarr", "arrnull", "arrdoc", "emptyobj", "wrongkeys",
            "right_wrongtype", "right_null", "right_nullelem", "right_nested", "right_ok", "right_unknownname", "right_protoname", "huge">>
NeedsChild(s) == s \in {"arrdoc", "right_nested"}

\* the dynamic payload type each known tag promises
Promised(t) == CASE t = 0 -> "int" [] t = 1 -> "float" [] t = 2 -> "string" [] t = 4 -> "nil" [] t = 5 -> "computed" [] t = 6 -> "array"
                 [] t = 7 -> "dict" [] t = 8 -> "function" [] t = 9 -> "native" [] t = 10 -> "nobject" [] OTHER -> "any"

\* p: projection of a decoded value [t, dyn, kids, callable, nilkids]
RECURSIVE WellFormed(_)
WellFormed(p) ==
  /\ (Promised(p.t) # "any" => p.dyn = Promised(p.t))
  /\ p.nilkids = 0
  /\ (p.t = 9 => p.callable)
  /\ \A i \in 1..Len(p.kids) : WellFormed(p.kids[i])
=============================================================================
