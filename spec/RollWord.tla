------------------------------ MODULE RollWord ------------------------------
(***************************************************************************)
(* From a raw generator word to a die face (roll_func.go _roll64/_roll32): *)
(*   power-of-two sides : mask                                             *)
(*   otherwise          : fast check  v > M - n  guards a rejection loop   *)
(*                        while v >= Ceil(n);  face = v % n + 1            *)
(* parametric in the word width W (M = 2^W - 1).  C05: given uniform       *)
(* words, every face 1..n has exactly the same number of accepted          *)
(* pre-images, for every n.                                                *)
(*   TLC      : W small, literally counts pre-images (RollWordTLC.tla)     *)
(*   Apalache : W = 64 and 32, symbolic in n and v (apalache/*.tla), and   *)
(*              conformance of words drawn by the real generator           *)
(***************************************************************************)
EXTENDS Integers

\* @type: (Int) => Int;
Pow2(k) == 2 ^ k

\* @type: (Int, Int) => Bool;
IsPow2(n, W) == \E k \in 0..(W - 1) : n = 2 ^ k

\* @type: (Int) => Int;
MaxWord(W) == 2 ^ W - 1

\* ceiling := MaxUint - MaxUint % n
\* @type: (Int, Int) => Int;
Ceil(n, W) == MaxWord(W) - (MaxWord(W) % n)

\* what the code does with a word: accept it (possibly through the fast path) or draw again
\* @type: (Int, Int, Int) => Bool;
FastPath(v, n, W) == ~(v > MaxWord(W) - n)
\* @type: (Int, Int, Int) => Bool;
Accept(v, n, W) == IsPow2(n, W) \/ FastPath(v, n, W) \/ v < Ceil(n, W)

\* @type: (Int, Int) => Int;
Face(v, n) == (v % n) + 1

\* largest supported side count: dicePoints > MaxInt - 1 is refused
\* @type: (Int) => Int;
MaxSides(W) == 2 ^ (W - 1) - 2

(* The statements that make the mapping exactly uniform (one obligation each) *)
\* accepted words split evenly over the residues
\* @type: (Int, Int) => Bool;
S1(n, W) == Ceil(n, W) % n = 0 /\ Ceil(n, W) > 0
\* the fast path never accepts a word of the biased tail
\* @type: (Int, Int, Int) => Bool;
S2(v, n, W) == FastPath(v, n, W) => v < Ceil(n, W)
\* for non powers of two: accepted exactly below the ceiling
\* @type: (Int, Int, Int) => Bool;
S3(v, n, W) == ~IsPow2(n, W) => (Accept(v, n, W) <=> v < Ceil(n, W))
\* masking is mod on all 2^W words, and 2^W splits evenly
\* @type: (Int, Int) => Bool;
S4(n, W) == \A k \in 0..(W - 1) : (2 ^ (W - k)) * (2 ^ k) = 2 ^ W   \* n = 2^k for some such k (IsPow2)
\* faces are in range
\* @type: (Int, Int, Int) => Bool;
S5(v, n, W) == Accept(v, n, W) => (Face(v, n) >= 1 /\ Face(v, n) <= n)

\* @type: (Int, Int, Int) => Bool;
Sound(v, n, W) == S1(n, W) /\ S2(v, n, W) /\ S3(v, n, W) /\ S4(n, W) /\ S5(v, n, W)
=============================================================================
