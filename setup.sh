#!/bin/sh
# Build the harness once (checks rebuild it from /repo's working tree on every run anyway).
set -e
cd "$(dirname "$0")"
export GOFLAGS=-mod=mod GOPROXY=off GOSUMDB=off GOTOOLCHAIN=local
mkdir -p .bin evidence replays
cp /repo/go.sum harness/go.sum 2>/dev/null || true
(cd harness && go build -tags verif -o ../.bin/vh .)
echo setup ok
