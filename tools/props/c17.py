"""C17 - extension points are transparent unless they act."""
import json, os, hashlib
import vlib
from vlib import Work, run_vh, run_tlc, tlc_must_pass, read_ndjson, MachineryError
from .c03 import validate

T_TAGS = {"handler-ran-without-a-match", "not-transparent"}
P_TAGS = {"custom-operand-rejected", "compiled-operand-differs", "handler-calls-differ-from-dispatches", "evaluation-count", "returned-value-not-used", "result-aliased", "result-aliased-in-process-text",
          "handler-value-not-used-by-copy", "handler-object-changed-by-script", "handler-received-foreign-groups"}


def run(rep, tier, seed):
    thorough = tier == "thorough"
    rep.assumptions += ["spec/Ext.tla: Prepare/Consume/Commit with one pending slot, speculative attempts at any position, Exec -> one Invoke with copied groups, copied result; TLC checks CodeFaithful, InvokeOncePerExec, UsedByCopy (and that CodeFaithful FAILS without the offset check in Consume)",
                        "inert extensions: regexes that cannot match at an operand start, stream parsers that read ahead and decline / return nil / claim an empty match / parse an expression ahead with ReadExpr, pass-through load/store hooks (LoadPost calls doCompute), identity detail rewriters",
                        "acting syntaxes: @L<n> and <a>w<b> (regex), ~<n>[!] with multi-byte opener, display text and payload (stream), %<n> reading too far and stepping back (stream); operands placed bare, parenthesised, as array element, call argument, ternary condition and arms, dice operand, template hole, loop body, function body, if arms",
                        "expected evaluation counts come from the generator (loop bounds, call counts, constant conditions)",
                        "the handler returns the same object on every call and changes it afterwards; it overwrites the groups it is given"]
    with Work("c17") as w:
        # (1) the protocol machine
        r1 = tlc_must_pass(run_tlc(w, "Ext", "Ext.cfg", workers=4, timeout=600), "Ext")
        r2 = run_tlc(w, "Ext", "Ext_nooffsetcheck.cfg", workers=4, timeout=600)
        if not r2.inv_violation:
            raise MachineryError("Ext without the offset check should violate CodeFaithful (sensitivity of the model)")
        rep.set("states", r1.distinct); rep.set("transitions", r1.generated)
        # (2) recorded runs
        evall = w.path("events.ndjson")
        stats = {}
        np_ = 30000 if thorough else 3000
        p = run_vh(["c17-protocol", "-out", w.path("p.ndjson"), "-n", str(np_)], env={"VERIF_SEED": str(seed)}, timeout=3000)
        run_vh(["corpus", w.path("corpus.ndjson")])
        run_vh(["gen", "-out", w.path("gen.ndjson"), "-n", "20000" if thorough else "2500", "-depth", "3"], env={"VERIF_SEED": str(seed)})
        a = w.path("asts.ndjson")
        with open(w.path("in.ndjson"), "w") as out:
            out.write(open(w.path("corpus.ndjson")).read()); out.write(open(w.path("gen.ndjson")).read())
        t = run_vh(["c17-transparent", "-in", w.path("in.ndjson"), "-out", w.path("t.ndjson")], env={"VERIF_SEED": str(seed)}, timeout=3000)
        stats["transparent"] = json.loads(t.stdout.strip().splitlines()[-1])
        run_vh(["c17-copy", "-out", w.path("c.ndjson")])
        with open(evall, "w") as out:
            out.write(open(w.path("p.ndjson")).read()); out.write(open(w.path("t.ndjson")).read()); out.write(open(w.path("c.ndjson")).read())
        j = validate(w, evall)
        rows = read_ndjson(evall)
        for b in j["bad"]:
            if len(rep.violations) >= 300:
                break
            e = rows[b["i"] - 1]
            why = sorted(set(b["why"]) & (T_TAGS | P_TAGS))
            if not why:
                continue
            if e["ev"] == "c17c":
                what = "%s: `%s` with a handler that returns one %s object every time -> %s (expected %s); the handler's object afterwards %s (expected %s); texts received %s" % (
                    "/".join(why), e["src"], e["kind"], e["got"], e["want"], e["handlerObject"], e["handlerWant"], e["texts"])
                rep.violation({"key": "copy-%s-%s" % (e["kind"], hashlib.md5(e["src"].encode()).hexdigest()[:6]), "kind": "c17", "what": what, "features": ["c17"] + why, "replay": {"event": e, "why": why}})
                continue
            if e["ev"] == "c17p":
                what = "%s: `%s` with custom syntaxes -> %s %s; with the values written out (`%s`) -> %s; compiled %s; run events %s" % (
                    "/".join(why), e["src"][:160], e["b"]["ret"][:50], e["b"]["errtext"][:100].replace("\n", " "), e["plain"][:120], e["a"]["ret"][:50],
                    [x["text"] for x in e["listing"]][:8], [(x["e"], x.get("groups", [""])[0]) for x in e["events"] if x["e"] != "attempt"][:10])
                key = e["src"]
            else:
                d = next(((h, x, y) for h, x, y in zip(e["hist"], e["a"], e["b"]) if x != y), (e["hist"][0], e["a"][0], e["b"][0]))
                what = "%s: extensions %s installed (never acting; handler calls %d): program `%s` plain -> %s %s | with extensions -> %s %s" % (
                    "/".join(why), e["ext"], e["invokes"], d[0][:160], d[1]["ret"][:50], (d[1]["errtext"][:80] + " " + d[1]["detail"][:60]).replace("\n", " "),
                    d[2]["ret"][:50], (d[2]["errtext"][:80] + " " + d[2]["detail"][:60]).replace("\n", " "))
                key = d[0] + "".join(e["ext"])
            rep.violation({"key": "%s-%s" % ("+".join(why)[:50], hashlib.md5(key.encode()).hexdigest()[:6]), "kind": "c17", "what": what,
                           "features": ["c17"] + why, "replay": {"event": e, "why": why}})
        prot = [e for e in rows if e["ev"] == "c17p"]
        tr = [e for e in rows if e["ev"] == "c17t"]
        execs = sum(1 for e in prot for x in e["events"] if x["e"] == "exec")
        deep = sum(1 for e in prot for x in e["events"] if x["e"] == "exec" and x["depth"] > 0)
        hook_calls = sum(e["hookCalls"] for e in tr); parser_calls = sum(e["parserCalls"] for e in tr)
        if not j["bad"]:
            if execs < np_ or deep == 0 or hook_calls == 0 or parser_calls == 0 or len(tr) < 100:
                raise MachineryError("vacuous run: dispatches=%d nested=%d hook calls=%d parser calls=%d experiments=%d" % (execs, deep, hook_calls, parser_calls, len(tr)))
            base = next(e for e in prot if len(e["ops"]) >= 2 and sum(o["count"] for o in e["ops"]) >= 2 and not e["b"]["err"])
            muts = []
            e1 = json.loads(json.dumps(base)); e1["listing"][0]["groups"][1] = "zz"; muts.append(("groups of a compiled operand altered", e1))
            e2 = json.loads(json.dumps(base)); e2["events"] = [x for x in e2["events"] if x["e"] != "invoke"][:] + [x for x in e2["events"] if x["e"] == "invoke"][:1]; muts.append(("handler calls removed", e2))
            e3 = json.loads(json.dumps(base)); e3["retAfter"] = e3["retAfter"] + " "; muts.append(("value after mutation altered", e3))
            e4 = json.loads(json.dumps(base)); e4["ops"][0]["count"] += 1; muts.append(("expected evaluation count altered", e4))
            tb = next(e for e in tr if not e["a"][0]["err"])
            e5 = json.loads(json.dumps(tb)); e5["b"][0]["ret"] = e5["b"][0]["ret"] + " "; muts.append(("value with extensions altered", e5))
            e6 = json.loads(json.dumps(tb)); e6["invokes"] = 1; muts.append(("inert handler call added", e6))
            t2 = w.path("corrupt.ndjson"); vlib.write_ndjson(t2, [m[1] for m in muts])
            r = validate(w, t2)
            if len(r["bad"]) != len(muts):
                raise MachineryError("binding self-test failed: %d of %d corrupted events rejected" % (len(r["bad"]), len(muts)))
            rep.set("binding_selftest", "; ".join(m[0] for m in muts) + " -> each rejected")
        for e in prot[:3]:
            rep.sample({"program": e["src"][:200], "operands": [(o["text"], o["count"]) for o in e["ops"]], "value": e["b"]["ret"][:60]})
        for e in tr[:2]:
            rep.sample({"history": [h[:100] for h in e["hist"]], "extensions": e["ext"], "parser_calls": e["parserCalls"], "hook_calls": e["hookCalls"]})
        rep.set("traces_validated_against_impl", j["n"])
        rep.set("experiments", {"protocol_programs": len(prot), "custom_dispatches": execs, "dispatches_in_nested_vms": deep,
                                "transparent_histories": len(tr), "programs_in_histories": sum(len(e["hist"]) for e in tr),
                                "inert_parser_calls": parser_calls, "identity_hook_calls": hook_calls,
                                "syntaxes": sorted({o["syntax"] for e in prot for o in e["ops"]})})
        rep.set("distinct_nontrivial", len({e["src"] for e in prot if e["ops"]}) + len(tr))
        rep.set("rule", "protocol: one program with custom operands vs the same with values written out; transparent: one history on a plain and an extended VM; distinct = distinct protocol sources + histories")


def replay(path):
    j = json.load(open(path)); print(json.dumps(j["replay"], ensure_ascii=False)[:3000]); return 1
