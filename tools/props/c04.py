"""C04 - every dice outcome is legal and equals what its displayed dice imply."""
import json
import vlib
from vlib import Work, MachineryError
from . import dicelib

TAGS = {"rolls", "total", "shown", "shown-header", "no-detail", "illegal-accepted", "legal-rejected", "wanted-more-dice"}


def run(rep, tier, seed):
    rep.assumptions += ["game rules are spec/Dice.tla (written from docs/GUIDE.md)",
                        "the harness's parser of detail annotations (kept|dropped lists, round groups, D100/tens digits) is trusted",
                        "sides and sums stay below 2^30 (TLC integers); larger dice are covered by C05"]
    with Work("c04") as w:
        dicelib.design(rep, w, tier)
        ev, s, n, bad = dicelib.run_plan(rep, w, tier, seed, bracket=False)
        k1 = dicelib.report_bad(rep, ev, bad, TAGS, "C04", "forced faces")
        rep.set("replay", {"plans": s["plans"], "events_validated": n, "rejected": k1,
                           "scope": "every face sequence of every term of the DiceGen_%s grid, through Roll* and VM syntax" % tier})
        with open(ev + ".full") as f:
            for i, line in enumerate(f):
                if i in (7, 20011, 60000, 79000, 82000):
                    e = json.loads(line)
                    rep.sample({"term": dicelib.describe(e)})
        if k1 == 0:
            rep.set("binding_selftest", dicelib.selftest(w, ev, TAGS))
        ev2, s2, n2, bad2 = dicelib.run_random(rep, w, tier, seed)
        k2 = dicelib.report_bad(rep, ev2, bad2, TAGS, "C04", "real generator")
        rep.set("trace_random", {"events_validated": n2, "rejected": k2})
        rep.set("traces_validated_against_impl", n + n2)
        rep.set("evaluations", n + n2)
        rep.set("distinct_nontrivial", s["plans"])
        rep.set("rule", "one evaluation = one dice term executed on the real package with its Roll calls logged; distinct = distinct (parameters, face sequence, mode) plans from TLC; random terms use seeded real generators")
        rep.set("exhaustive", True)


def replay(path):
    j = json.load(open(path))
    e = j["replay"]["event"]
    from vlib import run_vh
    with Work("c04r") as w:
        plan = w.path("p.ndjson")
        vlib.write_ndjson(plan, [{"fam": e["fam"], "p": e["p"], "faces": [r["f"] for r in e["rolls"]] if e["mode"] == 0 else [],
                                  "mode": e["mode"], "illegal": "illegal-accepted" in j["replay"]["why"]}])
        ev = w.path("e.ndjson")
        run_vh(["dice-replay", "-in", plan, "-out", ev])
        n, bad = dicelib.validate(w, ev, "replay-one")
        full = dicelib.full_events(ev, range(1, n + 1))
        for i in sorted(full):
            print(dicelib.describe(full[i]))
        print("rejected:", bad)
        if [b for b in bad if set(b["why"]) & TAGS]:
            print("VIOLATION property=C04 replay=%s" % path)
            return 1
    return 0
