"""C18 - the st command reports every attribute edit once, in order, verbatim."""
import json
import vlib
from vlib import Work, run_vh, run_tlc, tlc_must_pass, read_ndjson, MachineryError


def run(rep, tier, seed):
    rep.assumptions += ["accepted spellings and expected callbacks are spec/StCmd.tla; names/values come from its tables (CJK, latin, namespaced, quoted names; ints, floats, d1 dice, parenthesised expressions)",
                        "lists in which a computed edit, or a name that begins like a dice operator, follows a parenthesised value without a comma are generated and marked `runon` (they used to be taken into that value; repaired in the repository)"]
    with Work("c18") as w:
        pre = w.path("st")
        r = tlc_must_pass(run_tlc(w, "StCmdGen", "StCmdGen_%s.cfg" % tier, env={"OUT": pre}, workers=1, timeout=3000, heap="16g"), "StCmdGen")
        mmf = w.path("mm.ndjson")
        p = run_vh(["st-exec", "-in", pre, "-out", mmf], timeout=3000)
        s = json.loads(p.stdout.strip().splitlines()[-1])
        if s["cases"] < 5000:
            raise MachineryError("vacuous run")
        for m in read_ndjson(mmf):
            rep.violation({"key": "paren-value-runs-on" if m.get("runon") else "st-" + m["why"].split(":")[0][:30].replace(" ", "_"), "kind": "st",
                           "what": "input %r: %s; callbacks received: %s" % (m["input"], m["why"][:160], json.dumps(m["got"], ensure_ascii=False)[:300]),
                           "features": ["st"], "replay": m})
        if not rep.violations:
            t = w.path("self")
            vlib.write_ndjson(t + ".a1", [{"spell": "^st<N1>60", "ok": True, "n": 1, "exp": [{"type": "set", "name": 2, "n": 60, "d": 1, "int": True, "hasExtra": False, "en": 0, "ed": 1, "eint": True, "op": "", "comp": False, "text": ""}]}])
            pp = run_vh(["st-exec", "-in", t, "-out", w.path("selfmm")])
            if json.loads(pp.stdout.strip().splitlines()[-1])["mismatches"] != 1:
                raise MachineryError("binding self-test failed")
            rep.set("binding_selftest", "expected name changed -> mismatch reported")
        rows = read_ndjson(pre + ".a2")
        for c in rows[3:3000:1100]:
            rep.sample({"spelling": c["spell"], "expected_callbacks": [[e["type"], e["name"], "%d/%d" % (e["n"], e["d"]), e["op"]] for e in c["exp"]]})
        rep.set("states", r.distinct + s["cases"])
        rep.set("transitions", r.generated + s["cases"])
        rep.set("replay", {"cases": s["cases"], "scope": "all single edits (6 names x 6 assignment forms / 4 modification operators x 8 values x blanks x separators), a strided family of pairs%s; each followed by nothing or by text that is not an edit" % (" and triples" if tier == "thorough" else "")})
        rep.set("traces_validated_against_impl", s["cases"])
        rep.set("evaluations", s["cases"])
        rep.set("distinct_nontrivial", s["cases"])
        rep.set("rule", "one evaluation = one spelled edit list run with a recording callback and compared (count, order, names, values, operators, expression text, rest text) with Expected(list)")
        rep.set("exhaustive", True)


def replay(path):
    j = json.load(open(path))
    m = j["replay"]
    p = run_vh(["probe", m["input"]])
    print(p.stdout)
    with Work("c18r") as w:
        t = w.path("one")
        vlib.write_ndjson(t + ".a1", [{"spell": m["input"], "ok": True, "n": len(m["exp"]), "exp": m["exp"]}])
        pp = run_vh(["st-exec", "-in", t, "-out", w.path("mm")])
        print(pp.stdout)
        return 1 if json.loads(pp.stdout.strip().splitlines()[-1])["mismatches"] else 0
