"""C02 - evaluation agrees with the language's definitional semantics (spec/Lang.tla, Values.tla, Unparse.tla)."""
import json, hashlib, os
import vlib
from vlib import Work, run_vh, read_ndjson, write_ndjson, MachineryError
from . import langlib


def report(rep, mm, asts_by_id, origin):
    for m in mm[:300]:
        h = hashlib.md5(m["plain"].encode()).hexdigest()[:8]
        rep.violation({"key": "%s-%s" % (m["kind"], h), "kind": m["kind"],
                       "what": "%s: program %r (after %d earlier programs on the VM): %s; expected %s, got %s [%s]" % (
                           m["kind"], m["plain"][:200], len(m.get("prior") or []), m["what"][:200],
                           json.dumps(m["exp"], ensure_ascii=False)[:120], json.dumps(m["got"], ensure_ascii=False)[:120], origin),
                       "features": ["lang_" + m["kind"]],
                       "replay": {"history": asts_by_id.get(m["id"]), "mismatch": m}})


def run(rep, tier, seed):
    thorough = tier == "thorough"
    rep.assumptions += ["the oracle is spec/Lang.tla + Values.tla (definitional semantics) and spec/Unparse.tla (published grammar, minimal parentheses)",
                        "out of the oracle's domain (dropped, counted): integers beyond 2^20, non-dyadic floats, values nested deeper than 6 unless they are graphs of at most 10 containers (cyclic or sharing: comparison and printing remember where they have been), walks (printing, keys/values/items) over dicts whose keys are not plain ASCII words - dicts are walked in the byte order of their keys; attribute look-up follows __proto__ chains (stopping at a dict already visited)",
                        "trusted on the Go side: token joiner (legal whitespace only), literal escaper, projection of values to tagged JSON"]
    with Work("c02") as w:
        # 1. exhaustive small scope
        en = w.path("enum.ndjson")
        p = run_vh(["lang-enum", "-out", en])
        n_enum = json.loads(p.stdout.strip().splitlines()[-1])["histories"]
        pre, rs = langlib.oracle(w, en, "enum")
        st1, mm1 = langlib.execute(w, pre, "enum", seed, extra=[])
        asts = {json.loads(l)["id"]: json.loads(l) for l in open(en)}
        report(rep, mm1, asts, "exhaustive small scope")
        # 2. random histories
        rnd = w.path("rnd.ndjson")
        n, depth, hist = (60000, 4, 5) if thorough else (5000, 3, 3)
        run_vh(["lang-gen", "-out", rnd, "-n", str(n), "-depth", str(depth), "-hist", str(hist)], env={"VERIF_SEED": str(seed)})
        pre2, rs2 = langlib.oracle(w, rnd, "rnd", parts=14)
        st2, mm2 = langlib.execute(w, pre2, "rnd", seed)
        asts2 = {}
        if mm2:
            asts2 = {json.loads(l)["id"]: json.loads(l) for l in open(rnd)}
        report(rep, mm2, asts2, "random histories")
        if st1.get("val_ok", 0) + st1.get("err_ok", 0) < 0.8 * n_enum:
            raise MachineryError("vacuous run: only %d of %d enumerated cases were compared" % (st1.get("val_ok", 0) + st1.get("err_ok", 0), n_enum))
        # binding self-test: corrupt one expected value in an oracle output and require a mismatch
        if not mm1 and not mm2:
            src = pre[0] + ".1"
            rows = read_ndjson(src)
            victim = next(r for r in rows if r["runs"] and r["runs"][0]["sig"] == "ok" and r["runs"][0]["v"].get("t") == "int")
            victim["runs"][0]["v"]["v"] += 1
            tp = w.path("selftest.out")
            write_ndjson(tp + ".1", [victim])
            _, mms = langlib.execute(w, [tp], "selftest", seed)
            if not mms:
                raise MachineryError("binding self-test failed: corrupted expected value not detected")
            rep.set("binding_selftest", "expected value of one enumerated case changed by 1 -> mismatch reported")
        with open(pre2[0] + ".1") as f:
            for i, line in enumerate(f):
                if i in (1, 7, 19):
                    c = json.loads(line)
                    rep.sample({"history_id": c["id"], "programs": len(c["runs"]), "first_outcome": c["runs"][0]["sig"], "first_value": c["runs"][0].get("v")})
        total_runs = st1.get("runs", 0) + st2.get("runs", 0)
        rep.set("states", sum(r.distinct for r in rs + rs2))
        rep.set("transitions", sum(r.generated for r in rs + rs2))
        rep.set("enumerated_small_scope", {"cases": n_enum, "compared_ok": st1.get("val_ok", 0), "compared_err": st1.get("err_ok", 0), "out_of_domain": st1.get("ood", 0), "exhaustive": True,
                                           "scope": "18-literal vocabulary x all unary/binary/logical/ternary/index/slice/range forms x built-ins; all ordered pairs of 18 binary operators in both nestings"})
        rep.set("random_histories", {"histories": st2.get("histories", 0), "programs_run": st2.get("runs", 0), "values_compared": st2.get("val_ok", 0),
                                     "errors_compared": st2.get("err_ok", 0), "out_of_domain_histories": st2.get("ood", 0)})
        rep.set("traces_validated_against_impl", total_runs)
        rep.set("evaluations", total_runs)
        rep.set("distinct_nontrivial", st1.get("val_ok", 0) + st1.get("err_ok", 0) + st2.get("val_ok", 0) + st2.get("err_ok", 0))
        rep.set("rule", "one evaluation = one program executed on the real VM and compared (value or error, then all variables) with the TLA+ semantics; every program has at least one operator; histories share one VM")


def replay(path):
    j = json.load(open(path))
    h = j["replay"]["history"]
    with Work("c02r") as w:
        f = w.path("one.ndjson")
        write_ndjson(f, [h])
        pre, _ = langlib.oracle(w, f, "one", parts=1)
        st, mm = langlib.execute(w, pre, "one", j.get("seed", 1))
        print(json.dumps(st))
        for m in mm:
            print(json.dumps(m, ensure_ascii=False)[:1500])
        if mm:
            print("VIOLATION property=C02 replay=%s" % path)
            return 1
    return 0
