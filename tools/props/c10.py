"""C10 - deserialising untrusted or outdated JSON never yields a booby-trapped value."""
import json, os
import vlib
from vlib import Work, run_vh, run_tlc, tlc_must_pass, read_ndjson, MachineryError


def validate(w, ev):
    res = ev + ".result.json"
    tlc_must_pass(run_tlc(w, "Trace_Codec", "Trace_Codec.cfg", env={"TRACE": ev, "RESULT": res}, workers=1, timeout=3000, heap="16g"), "Trace_Codec")
    if not os.path.exists(res):
        raise MachineryError("Trace_Codec did not finish")
    return json.load(open(res))


def run(rep, tier, seed):
    rep.assumptions += ["document space and well-formedness are spec/Codec.tla; the harness renders the symbolic documents to JSON text and projects decoded values (tag, dynamic payload type, children)",
                        "byte-level malformed JSON is encoding/json's concern; a sample of truncated documents is included for totality",
                        "a fatal crash of the harness process (stack exhaustion) is attributed to the document in progress"]
    with Work("c10") as w:
        pre = w.path("docs")
        r = tlc_must_pass(run_tlc(w, "CodecGen", "CodecGen.cfg", env={"OUT": pre, "DEPTH2": "1" if tier == "thorough" else "0"}, workers=1, timeout=1800), "CodecGen")
        if tier != "thorough":   # quick: depth 0 complete, a third of depth 1
            lines = open(pre + ".1").read().splitlines()
            open(pre + ".1", "w").write("\n".join(lines[seed % 3::3]) + "\n")
        else:                    # thorough: depth 0 and 1 complete, every 6th document of depth 2 (rotating with the seed)
            lines = open(pre + ".2").read().splitlines()
            open(pre + ".2", "w").write("\n".join(lines[seed % 6::6]) + "\n")
        ev, prog = w.path("ev.ndjson"), w.path("progress.txt")
        p = run_vh(["codec-exec", "-in", pre, "-out", ev, "-progress", prog], timeout=3000, check=False)
        if p.returncode != 0:
            doc = open(prog).read() if os.path.exists(prog) else "?"
            rep.violation({"key": "fatal-crash", "kind": "fatal", "what": "the process died (rc=%s) while decoding / using document %s: %s" % (p.returncode, doc[:200], (p.stderr or "")[-300:]),
                           "features": ["codec_fatal"], "replay": {"json": doc}})
            rep.set("evaluations", 1); rep.set("distinct_nontrivial", 2); rep.set("states", 1); rep.set("transitions", 1); rep.set("traces_validated_against_impl", 0)
            return
        s = json.loads(p.stdout.strip().splitlines()[-1])
        # mutations of documents the encoder itself produces + truncations
        extra = w.path("extra.ndjson")
        run_vh(["codec-mutants", extra], env={"VERIF_SEED": str(seed)})
        ev2 = w.path("ev2.ndjson")
        p2 = run_vh(["codec-exec", "-in", extra, "-out", ev2, "-progress", prog], timeout=3000, check=False)
        if p2.returncode != 0:
            # attribute the fatal crash: replay the batch with one worker, the progress file names the document
            run_vh(["codec-exec", "-in", extra, "-out", ev2, "-progress", prog, "-workers", "1"], timeout=3000, check=False)
            doc = open(prog).read() if os.path.exists(prog) else "?"
            rep.violation({"key": "fatal-crash", "kind": "fatal", "what": "the process died (fatal runtime error, e.g. stack exhaustion) while using the decoded document %s" % doc[:200],
                           "features": ["codec_fatal"], "replay": {"json": doc}})
            rep.set("evaluations", 1); rep.set("distinct_nontrivial", 2); rep.set("states", 1); rep.set("transitions", 1); rep.set("traces_validated_against_impl", 0)
            return
        s2 = json.loads(p2.stdout.strip().splitlines()[-1])
        total = 0
        for f, origin in ((ev, "document space"), (ev2, "mutated encoder output")):
            j = validate(w, f)
            total += j["n"]
            rows = read_ndjson(f) if j["bad"] else []
            for b in j["bad"][:400]:
                e = rows[b["i"] - 1]
                ops = sorted({bt["op"] for bt in e["battery"] if bt["panic"]})
                rep.violation({"key": "%s-t%s-%s" % ("+".join(sorted(b["why"])), e["proj"]["t"], e["proj"]["dyn"]), "kind": "doc",
                               "what": "%s: %s decoded (via %s) to tag %s with payload %s, %d nil children; crashing operations: %s [%s]" % (
                                   "/".join(sorted(b["why"])), e["json"][:140], e["via"], e["proj"]["t"], e["proj"]["dyn"], e["proj"]["nilkids"], ops[:6], origin),
                               "features": ["codec"], "replay": {"json": e["json"], "via": e["via"], "why": b["why"]}})
        rows = read_ndjson(ev)
        okdec = sum(1 for e in rows if not e["err"])
        if okdec < 100:
            raise MachineryError("vacuous run: only %d documents decoded" % okdec)
        if not rep.violations:
            e = dict(next(x for x in rows if not x["err"] and x["proj"]["t"] == 6))
            e["proj"] = dict(e["proj"]); e["proj"]["dyn"] = "string"
            t2 = w.path("corrupt.ndjson"); vlib.write_ndjson(t2, [e])
            if not validate(w, t2)["bad"]:
                raise MachineryError("binding self-test failed")
            rep.set("binding_selftest", "projection of a decoded array relabelled as string payload -> rejected as ill-formed")
        for e in [x for x in rows if not x["err"]][:3]:
            rep.sample({"json": e["json"][:160], "decoded_tag": e["proj"]["t"], "payload": e["proj"]["dyn"], "battery": e["battery"][0]["op"]})
        rep.set("states", total)
        rep.set("transitions", total)
        rep.set("documents", {"space": s["documents"], "mutants_and_truncations": s2["documents"], "decoded_successfully": okdec, "each_as": "value document and as variable-map entry",
                              "battery": "8 API calls + 36 scripts per decoded value", "exhaustive": tier == "thorough", "depth2_sampled_every_6th": tier == "thorough"})
        rep.set("traces_validated_against_impl", total)
        rep.set("evaluations", total)
        rep.set("distinct_nontrivial", s["documents"] + s2["documents"])
        rep.set("rule", "one evaluation = one JSON text decoded (as value and as map entry), projected, checked by Codec!WellFormed and put through the battery; distinct = distinct documents")


def replay(path):
    j = json.load(open(path))
    with Work("c10r") as w:
        f = w.path("in.ndjson"); vlib.write_ndjson(f, [{"json": j["replay"]["json"]}])
        ev = w.path("ev.ndjson")
        p = run_vh(["codec-exec", "-in", f, "-out", ev], check=False)
        if p.returncode != 0:
            print("process died"); return 1
        jj = validate(w, ev)
        for e in read_ndjson(ev):
            print(json.dumps(e, ensure_ascii=False)[:800])
        return 1 if jj["bad"] else 0
