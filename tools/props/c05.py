"""C05 - dice are unbiased for every number of sides.

RollWord.tla: the word->face mapping, parametric in the word width.  TLC counts pre-images at small widths,
Apalache discharges the uniformity conditions for all n and all words at widths 64 and 32, and checks that the
words the real generator produced and the faces the real Roll returned conform to the same module."""
import json, os, re, shutil, subprocess, time
from concurrent.futures import ThreadPoolExecutor
import vlib
from vlib import Work, run_tlc, tlc_must_pass, run_vh, read_ndjson, MachineryError, SPEC


def apalache(wd, module, inv, timeout=900):
    out = os.path.join(wd, "apa-%s-%s" % (module, inv))
    cmd = ["apalache-mc", "check", "--length=0", "--inv=" + inv, "--out-dir=" + out, module + ".tla"]
    t0 = time.time()
    try:
        p = subprocess.run(cmd, cwd=wd, capture_output=True, text=True, timeout=timeout, env=dict(os.environ, TMPDIR=wd))  # (the wrapper makes its temp dir under TMPDIR)
    except subprocess.TimeoutExpired:
        raise MachineryError("apalache timed out on %s/%s" % (module, inv))
    o = p.stdout + p.stderr
    shutil.rmtree(out, ignore_errors=True)
    if "EXITCODE: OK" in o:
        return True
    if "EXITCODE: ERROR (12)" in o or "violat" in o.lower() and "EXITCODE: ERROR (255)" not in o:
        return False
    raise MachineryError("apalache failed on %s/%s:\n%s" % (module, inv, o[-2500:]))


def conf_module(name, events):
    def rec(e):
        return "[n |-> %d, v |-> %d, acc |-> %s, r |-> %d]" % (e["n"], e["v"], "TRUE" if e["acc"] else "FALSE", e["r"])
    e64 = [rec(e) for e in events if e["w"] == 64]
    e32 = [rec(e) for e in events if e["w"] == 32]
    empty = "{[n |-> 1, v |-> 0, acc |-> TRUE, r |-> 1]}"
    return """---- MODULE %s ----
(* generated: words drawn by the real generator and faces returned by the real Roll *)
EXTENDS RollWord
\\* @type: Set({n: Int, v: Int, acc: Bool, r: Int});
E64 == %s
\\* @type: Set({n: Int, v: Int, acc: Bool, r: Int});
E32 == %s
VARIABLE
  \\* @type: Int;
  x
Init == x = 0
Next == UNCHANGED x
\\* every rejected word is one the spec rejects, every accepted word one it accepts, and the face is Face(v, n)
Conf == /\\ \\A e \\in E64 : (e.acc <=> Accept(e.v, e.n, 64)) /\\ (e.acc => e.r = Face(e.v, e.n)) /\\ e.n <= MaxSides(64)
        /\\ \\A e \\in E32 : (e.acc <=> Accept(e.v, e.n, 32)) /\\ (e.acc => e.r = Face(e.v, e.n)) /\\ e.n <= MaxSides(32)
====
""" % (name, "{" + ",\n  ".join(e64) + "}" if e64 else empty, "{" + ",\n  ".join(e32) + "}" if e32 else empty)


def conforms(wd, events, tag):
    name = "RollWordConf_" + tag
    open(os.path.join(wd, name + ".tla"), "w").write(conf_module(name, events))
    return apalache(wd, name, "Conf")


def find_bad(wd, events, tag):
    """bisect a rejected batch down to single events"""
    if len(events) == 1:
        return events
    mid = len(events) // 2
    out = []
    for i, part in enumerate((events[:mid], events[mid:])):
        if not conforms(wd, part, "%s_%d" % (tag, i)):
            out += find_bad(wd, part, "%s_%d" % (tag, i))
        if len(out) >= 3:
            break
    return out


def run(rep, tier, seed):
    thorough = tier == "thorough"
    rep.level = "proof"
    rep.assumptions += ["generator words are uniform (PCG's statistical quality is trusted)", "Go's % and >> on uint64/uint32",
                        "S4 (2^W splits evenly over a power-of-two n) is checked by TLC at small widths only; z3 answers UNKNOWN on it at W=64"]
    with Work("c05") as w:
        # 1. TLC: literal pre-image counting at small widths, algorithm as a state machine
        st = tr = 0
        for cfg in (["RollWord_w6.cfg", "RollWord_w8.cfg", "RollWord_w10.cfg"] if thorough else ["RollWord_w6.cfg", "RollWord_w8.cfg"]):
            r = tlc_must_pass(run_tlc(w, "RollWordTLC", cfg, workers=8, timeout=3000), "RollWordTLC " + cfg)
            st += r.distinct
            tr += r.generated
        rep.set("states", st)
        rep.set("transitions", tr)
        rep.set("design_tlc", {"widths": [6, 8] + ([10] if thorough else []), "invariants": ["FaceLegal", "NoTail", "SoundAll", "Uniform (pre-image counts equal for every face, every n)"], "exhaustive": True})
        # 2. Apalache: all n, all words at the real widths
        wd = w.path("apa")
        os.makedirs(wd)
        for f in ("RollWord.tla",):
            shutil.copy(os.path.join(SPEC, f), wd)
        for f in os.listdir(os.path.join(SPEC, "apalache")):
            shutil.copy(os.path.join(SPEC, "apalache", f), wd)
        obligations = [(m, inv) for m in ("RollWord64", "RollWord32") for inv in ("Inv1", "Inv2", "Inv3", "Inv5")]
        with ThreadPoolExecutor(max_workers=8) as ex:
            results = list(ex.map(lambda mi: apalache(wd, mi[0], mi[1]), obligations))
        if not all(results):
            raise MachineryError("a uniformity obligation of the MODEL failed: %s" % [o for o, r in zip(obligations, results) if not r])
        rep.set("obligations", len(obligations))
        rep.set("discharged", sum(results))
        rep.set("checker_cmd", "apalache-mc check --length=0 --inv=Inv{1,2,3,5} RollWord{64,32}.tla")
        rep.set("trusted_base", ["apalache 0.58 / z3", "TLC"])
        # 3. words of the real generator
        evf = w.path("words.ndjson")
        p = run_vh(["roll-words", "-out", evf, "-per", "40" if thorough else "12"], env={"VERIF_SEED": str(seed)})
        s = json.loads(p.stdout.strip().splitlines()[-1])
        events = read_ndjson(evf)
        anomalies = [e for e in events if e.get("anomaly")]
        events = [e for e in events if not e.get("anomaly")]
        for a in anomalies[:5]:
            rep.violation({"key": "src-%s-%d" % (a["via"], a["n"] % 1000), "kind": "source", "what": "Roll(n=%d) via %s: %s" % (a["n"], a["via"], a["anomaly"]),
                           "features": ["foreign_source"], "replay": a})
        for e in events[:2] + [x for x in events if not x["acc"]][:2]:
            rep.sample(e)
        B = 220
        batches = [events[i:i + B] for i in range(0, len(events), B)]
        with ThreadPoolExecutor(max_workers=12) as ex:
            oks = list(ex.map(lambda ib: conforms(wd, ib[1], "b%d" % ib[0]), enumerate(batches)))
        nbad = 0
        for i, ok in enumerate(oks):
            if not ok and nbad == 0:     # one failing batch is bisected down to single events; the others are only counted
                for e in find_bad(wd, batches[i], "x%d" % i):
                    nbad += 1
                    rep.violation({"key": "word-w%d-%s-%s" % (e["w"], "acc" if e["acc"] else "rej", "pow2" if e["n"] & (e["n"] - 1) == 0 else "npow2"),
                                   "kind": "word", "features": ["rollword"],
                                   "what": "width %d, n=%d: word %d was %s and gave face %d; the mapping prescribes otherwise (bias)" % (
                                       e["w"], e["n"], e["v"], "accepted" if e["acc"] else "rejected", e["r"]),
                                   "replay": e})
        if nbad == 0 and not anomalies:
            if s["rejected_words"] < 20:     # (asked only when nothing was rejected: a change that stops drawing retry words shows up as violations above)
                raise MachineryError("vacuous run: only %d rejected words observed" % s["rejected_words"])
            # binding self-test: flip one face
            e = dict(next(x for x in events if x["acc"] and x["n"] > 3))
            e["r"] = e["r"] % e["n"] + 1
            if conforms(wd, [e], "selftest"):
                raise MachineryError("binding self-test failed: a wrong face was accepted")
            rep.set("binding_selftest", "face of word %d (n=%d) changed -> rejected" % (e["v"], e["n"]))
        rep.set("rejected_batches", sum(1 for ok in oks if not ok))
        rep.set("trace_words", {"calls": s["calls"], "word_events": len(events), "rejected_words": s["rejected_words"], "batches": len(batches),
                                "chi_square_informational": s["chi_square"]})
        rep.set("traces_validated_against_impl", len(events))
        rep.set("samples", rep.cov["samples"])
        rep.set("evaluations", len(events))
        rep.set("distinct_nontrivial", len({(e["n"], e["v"]) for e in events if e["n"] & (e["n"] - 1)}))
        rep.set("rule", "one event per generator word consumed by a real Roll call; non-trivial = side count not a power of two (rejection logic reachable)")


def replay(path):
    j = json.load(open(path))
    e = j["replay"]
    with Work("c05r") as w:
        wd = w.path("apa"); os.makedirs(wd)
        shutil.copy(os.path.join(SPEC, "RollWord.tla"), wd)
        if j.get("kind") != "word":
            print(json.dumps(e)); return 1
        ok = conforms(wd, [e], "replay")
        print("recorded word event conforms to RollWord:", ok, json.dumps(e))
        return 0 if ok else 1
