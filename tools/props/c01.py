"""C01 - no input can crash the host: the public API is total."""
import json, os, hashlib, shutil
import vlib
from vlib import Work, run_vh, run_tlc, tlc_must_pass, read_ndjson, MachineryError


def validate(w, evfile):
    res = evfile + ".result.json"
    tlc_must_pass(run_tlc(w, "Trace_Total", "Trace_Total.cfg", env={"TRACE": evfile, "RESULT": res}, workers=1, timeout=3000), "Trace_Total")
    if not os.path.exists(res):
        raise MachineryError("Trace_Total did not consume the trace")
    return json.load(open(res))


def run(rep, tier, seed):
    thorough = tier == "thorough"
    rep.assumptions += ["spec/Total.tla: the operand space = templates (every operator, dice form, postfix form, method, built-in, st form) x value classes (22 representatives, split where a crash can depend on the split) written by TLC as the complete product; a second product places cyclic values (a container inside itself, a dict that is its own prototype or one of a prototype loop; two distinct objects of each shape) in every hole with partners from a short list; a third product nests every self-containing construct to depths 25..120000, closed and left open; half of the VMs have a CallbackSt installed; "
                        "each case is placed in nesting contexts (statement list, if, loop, loop with continue, template hole, template block, function body, computed value, array, assignment, parentheses, after an array on the previous line)",
                        "observation sequence per input: Parse, RunAfterParsed, GetDetailText, Run again, GetDetailText twice, GetAsmText, Ret.ToString/ToRepr/ToJSON, Matched/RestInput, RunExpr; VMs serve up to 4 inputs so that each meets state left by earlier ones",
                        "configurations drawn per VM: 2^4 family flags, DisableStmts/NDice/Bitwise, IgnoreDiv0, min/normal/max mode, DefaultDiceSideExpr in {'', 20, d6, x7, v_str, 1/0}, OpCountLimit in {300, 3000, 20000}, ParseExprLimit in {3000, 10^7}",
                        "byte-level inputs (exploration, the specification contributes only the contract): random bytes, token soups over the grammar's terminals and multi-byte/invalid UTF-8, truncations of corpus strings at any byte, pairs of corpus strings spliced, corpus strings with a token replaced",
                        "a case that uses more than 120 s of processor time under these budgets (or does not return within 15 minutes) is a hang; a worker process that dies is a fatal runtime error of the case it was running (the worker is restarted after it)",
                        "spec/Host.tla: the API of one context as a state machine (Parse, RunAfterParsed, Run, RunExpr, observers in any order; classes of texts; the pending-error deviation of RunExpr modelled as it is); every call sequence of length 4 is written by TLC and replayed (quick: every 4th); only a call that does not return is a violation of C01, other differences from the model are printed as DRIFT",
                        "quick runs every 1- and 2-hole case (1-hole in all contexts) and every 8th 3-hole case; thorough runs the whole product in every context"]
    with Work("c01") as w:
        d = w.path("plan"); os.makedirs(d)
        r = tlc_must_pass(run_tlc(w, "Total", "Total.cfg", env={"HEADER": d + "/header.json", "OUT1": d + "/p1.ndjson", "OUT2": d + "/p2.ndjson", "OUT3": d + "/p3.ndjson", "OUT4": d + "/p4.ndjson", "OUT5": d + "/p5.ndjson"}, workers=1, timeout=600), "Total")
        ncases = sum(1 for f in ("p1", "p2", "p3", "p4", "p5") for _ in open("%s/%s.ndjson" % (d, f)))
        hdr = json.load(open(d + "/header.json"))
        run_vh(["corpus", d + "/corpus.ndjson"])
        a = ["c01-exec", "-dir", d, "-kind", "plan", "-out", w.path("plan_obs.ndjson")] + (["-allctx"] if thorough else ["-t3every", "8"])
        p1 = run_vh(a, env={"VERIF_SEED": str(seed)}, timeout=20000)
        s1 = json.loads(p1.stdout.strip().splitlines()[-1])
        nb = 2000000 if thorough else 40000
        p2 = run_vh(["c01-exec", "-dir", d, "-kind", "bytes", "-n", str(nb), "-out", w.path("bytes_obs.ndjson")], env={"VERIF_SEED": str(seed)}, timeout=20000)
        s2 = json.loads(p2.stdout.strip().splitlines()[-1])
        # call sequences of spec/Host.tla: any order of Parse / RunAfterParsed / Run / RunExpr and the observers on one context
        hp = w.path("host_plans.ndjson")
        rh = tlc_must_pass(run_tlc(w, "HostMC", "HostMC.cfg", env={"MAXLEN": 4, "OUT": hp}, workers=1, timeout=1800), "HostMC")
        from concurrent.futures import ThreadPoolExecutor
        def one(i):
            o = w.path("host_ev.%d" % i)
            pr = run_vh(["host-replay", "-in", hp, "-out", o, "-shard", "%d/12" % i, "-every", "1" if thorough else "4"], env={"VERIF_SEED": str(seed)}, timeout=6000)
            return o, json.loads(pr.stdout.strip().splitlines()[-1])["sequences"]
        with ThreadPoolExecutor(12) as ex:
            hres = list(ex.map(one, range(12)))
        nseq = sum(x[1] for x in hres)
        ev = w.path("ev.ndjson")
        with open(ev, "w") as out:
            out.write(open(w.path("plan_obs.ndjson")).read()); out.write(open(w.path("bytes_obs.ndjson")).read())
            for o, _ in hres:
                out.write(open(o).read())
        j = validate(w, ev)
        rows = read_ndjson(ev)
        drift = []
        for b in j["bad"]:
            if len(rep.violations) >= 300:
                break
            e = rows[b["i"] - 1]
            why = sorted(b["why"])
            if e["ev"] == "host":
                if "panic-escapes" in why:
                    rep.violation({"kind": "panic", "func": e["panic"].split(":")[0], "via": e["call"], "msg": e["panic"], "key": "host-panic-%s-%s" % (e["call"], hashlib.md5(e["panic"].encode()).hexdigest()[:6]),
                                   "what": "panic-escapes: after the calls %s the call %s panicked: %s (%d calls alike)" % (e["example"][:-1], e["example"][-1], e["panic"], e["count"]),
                                   "features": ["c01", "host"] + why, "replay": {"event": e, "why": why}})
                else:
                    drift.append("call sequence %s: %s came back with %s (model: %s)%s%s, %d calls alike" % (
                        e["example"], e["call"], e["out"], e["pred"], "" if e["same"] else ", value differs from the fresh-context value", "" if e["concat"] else ", Matched+Rest is not the input", e["count"]))
                continue
            cfg = e.get("cfg", {})
            viol = {"kind": "panic" if e["panicVia"] else ("fatal" if e["fatal"] else "hang" if e["hang"] else "other"),
                    "func": e["panicFunc"], "via": e["panicVia"], "msg": e["panicMsg"],
                    "key": "%s-%s-%s" % ("+".join(why), e["panicFunc"] or "x", hashlib.md5((e["panicMsg"] or e["src"]).encode()).hexdigest()[:6]),
                    "what": "%s: input %r (%d inputs alike; VM had seen %d inputs) config %s: %s" % (
                        "/".join(why), e["src"][:200], e["count"], e.get("reused", 0), json.dumps(cfg),
                        ("%s panicked in %s: %s" % (e["panicVia"], e["panicFunc"], e["panicMsg"])) if e["panicVia"] else
                        ("the process died: " + e["panicMsg"][:200]) if e["fatal"] else "no return within 120 s of processor time" if e["hang"] else "the process text differs between two requests"),
                    "features": ["c01"] + why, "replay": {"event": e, "why": why}}
            if e.get("macroOffInHole") and e["panicVia"] and e["panicFunc"].endswith("evaluate") and "index out of range" in e["panicMsg"]:
                viol["key"] = "macro-off-inside-template-block"      # KF-C01-1 (spec/Gate.tla: MacroInHole)
            rep.violation(viol)
        for d in drift[:5]:
            print("DRIFT property=C01 " + d)
        if drift:
            rep.notes.append("Host model drift (not a violation of C01): %d kinds of calls differ from spec/Host.tla, e.g. %s" % (len(drift), drift[0]))
        total = sum(e["count"] for e in rows)
        if s1["cases"] < (ncases if thorough else 10000) or s2["cases"] < nb * 0.9:
            raise MachineryError("vacuous run: plan cases %s of %d, byte-level %s of %d" % (s1, ncases, s2, nb))
        outcomes = {}
        for e in rows:
            if e["ev"] != "c01":
                continue
            for s in e["steps"]:
                k = s["call"] + ":" + s["out"]
                outcomes[k] = outcomes.get(k, 0) + e["count"]
        if outcomes.get("RunAfterParsed:error", 0) < 1000 or outcomes.get("RunAfterParsed:value", 0) < 1000 or outcomes.get("Parse:error", 0) < 1000:
            raise MachineryError("vacuous run: outcome mix %s" % outcomes)
        # binding self-test
        rows_c01 = [e for e in rows if e["ev"] == "c01"]
        base = next(e for e in rows_c01 if not e["panicVia"] and not e["hang"] and not e["fatal"] and e["detailStable"] and len(e["steps"]) > 5)
        muts = []
        e1 = json.loads(json.dumps(base)); e1["steps"][3]["out"] = "panic"; muts.append(("one call reported as panicking", e1))
        e2 = json.loads(json.dumps(base)); e2["hang"] = True; muts.append(("hang reported", e2))
        e3 = json.loads(json.dumps(base)); e3["fatal"] = True; muts.append(("process death reported", e3))
        hb = next(e for e in rows if e["ev"] == "host")
        e4 = json.loads(json.dumps(hb)); e4["out"] = "panic"; muts.append(("a call of a call sequence reported as panicking", e4))
        t2 = w.path("corrupt.ndjson"); vlib.write_ndjson(t2, [m[1] for m in muts])
        rr = validate(w, t2)
        if len(rr["bad"]) != len(muts):
            raise MachineryError("binding self-test failed: %d of %d corrupted events rejected" % (len(rr["bad"]), len(muts)))
        rep.set("binding_selftest", "; ".join(m[0] for m in muts) + " -> each rejected")
        for e in rows_c01[:4]:
            rep.sample({"input": e["src"][:160], "config": e.get("cfg"), "calls": ["%s=%s" % (s["call"], s["out"]) for s in e["steps"]], "alike": e["count"]})
        rep.set("states", r.distinct); rep.set("transitions", r.generated)
        rep.set("traces_validated_against_impl", total)
        rep.set("plan", {"value_classes": len(hdr["reps"]), "templates": hdr["templates"], "contexts": len(hdr["contexts"]), "cases_in_product": ncases,
                         "plan_inputs_run": s1["cases"], "byte_level_inputs_run": s2["cases"], "distinct_observations": len(rows), "api_calls_by_outcome": outcomes,
                         "host_call_sequences_replayed": nseq, "host_model_states": rh.distinct})
        rep.set("distinct_nontrivial", len(rows))
        rep.set("rule", "one input = the full observation sequence on a configured VM; inputs with identical outcomes are merged; distinct = distinct outcome signatures")


def replay(path):
    j = json.load(open(path)); print(json.dumps(j["replay"], ensure_ascii=False)[:3000]); return 1
