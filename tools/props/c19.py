"""C19 - syntax errors point at the right place in the chosen language."""
import json, os
import vlib
from vlib import Work, run_vh, run_tlc, tlc_must_pass, read_ndjson, MachineryError

TAGS = {"position", "language", "context", "quoted-line", "caret"}


def validate(w, evfile):
    res = evfile + ".result.json"
    r = tlc_must_pass(run_tlc(w, "Trace_ErrPos", "Trace_ErrPos.cfg", env={"TRACE": evfile, "RESULT": res}, workers=1, timeout=3000, heap="16g"), "Trace_ErrPos")
    if not os.path.exists(res):
        raise MachineryError("Trace_ErrPos did not consume the trace:\n" + r.out[-2000:])
    return json.load(open(res))


def report(rep, evfile, j, origin):
    rows = read_ndjson(evfile) if j["bad"] else []
    for b in j["bad"][:300]:
        e = rows[b["i"] - 1]
        why = sorted(set(b["why"]) & TAGS)
        rep.violation({"key": "%s-lang%d-%s" % ("+".join(why), e["lang"], "ml" if "\n" in e["input"] else "sl"), "kind": "errpos",
                       "what": "%s: input %r (language setting %d) -> %r [%s]" % ("/".join(why), e["input"][:100], e["lang"], e["text"][:300], origin),
                       "features": ["errpos_" + x for x in why], "replay": {"input": e["input"], "lang": e["lang"], "why": why, "text": e["text"]}})


def run(rep, tier, seed):
    rep.assumptions += ["line/column arithmetic and the message table are spec/ErrPos.tla; the displayed form of a long line (57 bytes + '...') is computed by the harness",
                        "the parser of error texts (prefix, header, quoted line, caret, message lines) is trusted"]
    with Work("c19") as w:
        pre = w.path("in")
        r0 = tlc_must_pass(run_tlc(w, "ErrPosGen", "ErrPosGen_%s.cfg" % tier, env={"OUT": pre}, workers=1, timeout=1800, heap="8g"), "ErrPosGen")
        ev = w.path("ev.ndjson")
        p = run_vh(["errpos-exec", "-in", pre, "-out", ev], timeout=3000)
        s = json.loads(p.stdout.strip().splitlines()[-1])
        j = validate(w, ev)
        report(rep, ev, j, "all inputs up to length %d over an 11-symbol alphabet" % (5 if tier == "thorough" else 4))
        run_vh(["errpos-inputs", w.path("extra.ndjson")])
        if tier != "thorough":   # quick: every third of the truncation family
            lines = open(w.path("extra.ndjson")).read().splitlines()
            open(w.path("extra.ndjson"), "w").write("\n".join(lines[seed % 3::3]) + "\n")
        ev2 = w.path("ev2.ndjson")
        p2 = run_vh(["errpos-exec", "-in", w.path("extra.ndjson"), "-out", ev2], timeout=3000)
        s2 = json.loads(p2.stdout.strip().splitlines()[-1])
        j2 = validate(w, ev2)
        report(rep, ev2, j2, "truncations of repository inputs, long lines, multi-byte prefixes")
        if s["rejected_events"] < 1000 or s2["rejected_events"] < 100:
            raise MachineryError("vacuous run: too few rejected inputs (%d, %d)" % (s["rejected_events"], s2["rejected_events"]))
        rows = read_ndjson(ev2)
        nfriendly = sum(1 for e in rows if e["friendly"]["present"])
        multiline = sum(1 for e in rows if "\n" in e["input"] and e["friendly"]["present"] and e["friendly"]["line"] > 1)
        if not j["bad"] and not j2["bad"]:
            e = dict(next(x for x in rows if x["friendly"]["present"] and x["friendly"]["hasContext"]))
            e["friendly"] = dict(e["friendly"]); e["friendly"]["caret"] += 1
            t2 = w.path("corrupt.ndjson"); vlib.write_ndjson(t2, [e])
            if not any("caret" in b["why"] for b in validate(w, t2)["bad"]):
                raise MachineryError("binding self-test failed: shifted caret accepted")
            rep.set("binding_selftest", "caret of one recorded error shifted by one column -> rejected")
        for e in rows[:2] + [x for x in rows if "\n" in x["input"]][:1]:
            rep.sample({"input": e["input"][:80], "lang": e["lang"], "error": e["text"][:240]})
        rep.set("states", j["n"] + j2["n"])
        rep.set("transitions", j["n"] + j2["n"])
        rep.set("enumerated", {"inputs": s["inputs"], "rejected_x_language": s["rejected_events"], "exhaustive": True})
        rep.set("extra", {"inputs": s2["inputs"], "rejected_x_language": s2["rejected_events"], "friendly_blocks": nfriendly, "errors_beyond_line_1": multiline})
        rep.set("traces_validated_against_impl", j["n"] + j2["n"])
        rep.set("evaluations", j["n"] + j2["n"])
        rep.set("distinct_nontrivial", s["rejected_events"] // 3 + s2["rejected_events"] // 3)
        rep.set("rule", "one evaluation = one (rejected input, language) error text validated by Trace_ErrPos; distinct = distinct rejected inputs")
        rep.set("exhaustive", True)


def replay(path):
    j = json.load(open(path))
    with Work("c19r") as w:
        f = w.path("in.ndjson"); vlib.write_ndjson(f, [{"src": j["replay"]["input"]}])
        ev = w.path("ev.ndjson"); run_vh(["errpos-exec", "-in", f, "-out", ev])
        jj = validate(w, ev)
        for e in read_ndjson(ev):
            print(e["lang"], e["text"])
        print("rejected:", jj["bad"])
        return 1 if jj["bad"] else 0
