"""C03 - the result belongs to the consumed text (Matched/RestInput contract)."""
import json, re, os
import vlib
from vlib import Work, run_vh, run_tlc, tlc_must_pass, read_ndjson, MachineryError
from . import langlib

TAGS = {"concat", "matched-alone-fails", "not-closed", "value-differs", "detail-differs", "vars-differ", "rng-differs", "callbacks-differ", "prefix-value"}


def validate(w, evfile):
    res = evfile + ".result.json"
    tlc_must_pass(run_tlc(w, "Trace_Host", "Trace_Host.cfg", env={"TRACE": evfile, "RESULT": res}, workers=1, timeout=3000, heap="16g"), "Trace_Host")
    if not os.path.exists(res):
        raise MachineryError("Trace_Host did not consume the trace")
    return json.load(open(res))


def run(rep, tier, seed):
    thorough = tier == "thorough"
    rep.assumptions += ["host contract is spec/Trace_Host.tla (Concat, Closed, SameOutcome); values of oracle programs from spec/Lang.tla",
                        "directed endings family: 27 kinds of final value x 12 contexts that emit code after it (assignment, operators, ternary, computed definition ...) x every tail glued on and after a blank (contract only)",
                        "boundary family: consumed texts ending in a multi-byte character with every possible final byte (identifier, string, comment, template)",
                        "tails are valid constructs that break off (literal, call, index, block, template, operator, keyword prefixes) after ';', newline, blank or nothing",
                        "a detail text that renders a multi-key dict is compared as a multiset of characters (map order unspecified)"]
    with Work("c03") as w:
        evall = w.path("events.ndjson")
        stats = {}
        with open(evall, "w") as out:
            # (a) programs with an oracle
            a = w.path("asts.ndjson")
            n = 20000 if thorough else 2500
            run_vh(["lang-gen", "-out", a, "-n", str(n), "-depth", "3" if thorough else "2", "-hist", "3"], env={"VERIF_SEED": str(seed)})
            pre, rs = langlib.oracle(w, a, "o", parts=12)
            for i, p in enumerate(pre):
                o = w.path("ev.%d" % i)
                r = run_vh(["c03-exec", "-in", p, "-out", o, "-tails", "6" if thorough else "4"], env={"VERIF_SEED": str(seed + i)}, timeout=3000)
                s = json.loads(r.stdout.strip().splitlines()[-1])
                for k, v in s.items():
                    stats[k] = stats.get(k, 0) + v
                out.write(open(o).read())
            # (b) repository corpus and generated texts (contract only)
            run_vh(["corpus", w.path("corpus.ndjson")])
            run_vh(["gen", "-out", w.path("gen.ndjson"), "-n", "4000" if thorough else "500", "-depth", "3"], env={"VERIF_SEED": str(seed)})
            # directed: every kind of program ending x every context that emits code after it x every tail, glued on and after a blank
            run_vh(["c03-endings", "-out", w.path("endings.ndjson")])
            from concurrent.futures import ThreadPoolExecutor
            def shard(i):
                o = w.path("endings.ev.%d" % i)
                r = run_vh(["c03-text", "-in", w.path("endings.ndjson"), "-out", o, "-alltails", "-shard", "%d/12" % i, "-every", "1" if thorough else "3"], env={"VERIF_SEED": str(seed)}, timeout=6000)
                return o, json.loads(r.stdout.strip().splitlines()[-1])["inputs"]
            vlib.build_harness()
            with ThreadPoolExecutor(12) as ex:
                for o, k in ex.map(shard, range(12)):
                    stats["ending_inputs"] = stats.get("ending_inputs", 0) + k
                    out.write(open(o).read())
            run_vh(["c03-endings", "-boundaries", "-out", w.path("boundaries.ndjson")])
            for f in ("corpus.ndjson", "gen.ndjson", "boundaries.ndjson"):
                o = w.path(f + ".ev")
                r = run_vh(["c03-text", "-in", w.path(f), "-out", o, "-tails", "4" if thorough else "3"], env={"VERIF_SEED": str(seed)}, timeout=3000)
                stats["text_inputs"] = stats.get("text_inputs", 0) + json.loads(r.stdout.strip().splitlines()[-1])["inputs"]
                out.write(open(o).read())
        j = validate(w, evall)
        rows = None
        if j["bad"]:
            rows = read_ndjson(evall)
        for b in j["bad"]:
            if len(rep.violations) >= 300:
                break
            e = rows[b["i"] - 1]
            why = sorted(set(b["why"]) & TAGS)
            if not why:
                continue
            key = "%s-%s" % ("+".join(why), abs(hash(e["tail"])) % 100000)
            # two recorded defects of the grammar, identified by the shape of the input
            if re.search(r"return\s[^;]*\]\s*=", e["input"]) and "==" not in e["tail"]:
                key = "return-index-before-assign"           # KF-C03-1
            elif re.search(r"(^|[^A-Za-z0-9_])[aA]\(\d+\)$", e["text"]) and e["tail"] and re.match(r"[\w\u4e00-\u9fff]", e["tail"].lstrip()[:1] or " "):
                key = "wod-guard-looks-past-blanks"          # KF-C03-2
            rep.violation({"key": key, "kind": "c03",
                           "what": "%s: input %r -> Matched %r returned %s; Matched alone returned %s%s" % (
                               "/".join(why), e["input"][:160], e["a"]["matched"][:80], e["a"]["ret"][:80], e["b"]["ret"][:80],
                               "" if e["valOK"] else " (the semantics prescribe another outcome for the consumed program)"),
                           "features": ["c03_" + x for x in why], "replay": {"event": e, "why": why}})
        if not j["bad"]:
            # binding self-test
            rows = read_ndjson(evall)[:200]
            v = next(i for i, e in enumerate(rows) if e["hasB"] and not e["b"]["err"])
            rows[v]["b"]["ret"] = rows[v]["b"]["ret"] + "x"
            t2 = w.path("corrupt.ndjson")
            vlib.write_ndjson(t2, rows[:v + 1])
            jj = validate(w, t2)
            if not any(b["i"] == v + 1 and "value-differs" in b["why"] for b in jj["bad"]):
                raise MachineryError("binding self-test failed")
            rep.set("binding_selftest", "changed the value of the Matched-alone run of event %d -> rejected" % (v + 1))
        for e in (rows or [])[:0]:
            pass
        with open(evall) as f:
            for i, line in enumerate(f):
                if i in (1, 9, 40):
                    e = json.loads(line)
                    rep.sample({"input": e["input"][:200], "matched": e["a"]["matched"][:120], "rest": e["a"]["rest"][:60], "ret": e["a"]["ret"][:80]})
        rep.set("states", j["n"] + 2)
        rep.set("transitions", j["n"] + 2)
        rep.set("traces_validated_against_impl", j["n"])
        rep.set("coverage_detail", stats)
        rep.set("evaluations", j["n"])
        rep.set("distinct_nontrivial", stats.get("tied_to_oracle", 0) + stats.get("text_inputs", 0) // 2)
        rep.set("rule", "one evaluation = Run(input) and Run(Matched) on two identical VMs, validated by Trace_Host; non-trivial = input with a broken-off tail; 'tied_to_oracle' = consumed text is an oracle program whose value Lang prescribes")


def replay(path):
    j = json.load(open(path))
    e = j["replay"]["event"]
    with Work("c03r") as w:
        f = w.path("in.ndjson")
        vlib.write_ndjson(f, [{"src": e["input"]}])
        o = w.path("ev.ndjson")
        run_vh(["c03-text", "-in", f, "-out", o, "-tails", "1"])
        jj = validate(w, o)
        for r in read_ndjson(o):
            print(json.dumps({"input": r["input"], "a": r["a"], "b": r["b"]}, ensure_ascii=False)[:1200])
        print("rejected:", jj["bad"])
        return 1 if jj["bad"] else 0
