"""C09 - JSON snapshot and restore of variables is transparent."""
import json, os
import vlib
from vlib import Work, run_vh, run_tlc, tlc_must_pass, read_ndjson, MachineryError
from . import langlib
from .c03 import validate

TAGS = {"snapshot-crash", "restore-rejects-own-snapshot", "restored-variables-differ", "behaviour-differs-after-restore", "crash-after-restore",
        "behaviour-differs-after-restore-of-shared-containers", "behaviour-differs-after-restore-of-bodies-compiled-under-other-flags", "serialisation-crash", "unrepresentable-value-serialised", "unrepresentable-variable-serialised"}


def run(rep, tier, seed):
    thorough = tier == "thorough"
    rep.assumptions += ["host contract in spec/Trace_Host.tla (c09, c09u); programs come from the Lang generator, the snapshot is taken after EVERY top-level statement prefix (crash points)",
                        "generator state is carried over with GetCurSeed; outcomes are compared field by field (value, process text, variables, rolls, callbacks)",
                        "sharing between containers cannot survive a JSON tree: such snapshots are tagged separately (known finding)"]
    with Work("c09") as w:
        a = w.path("asts.ndjson")
        n = 12000 if thorough else 1200
        run_vh(["lang-gen", "-out", a, "-n", str(n), "-depth", "4" if thorough else "3", "-hist", "1"], env={"VERIF_SEED": str(seed)})
        pre, rs = langlib.oracle(w, a, "o", parts=12)
        allev = w.path("events.ndjson")
        stats = {}
        with open(allev, "w") as out:
            for i, p in enumerate(pre):
                o = w.path("ev.%d" % i)
                r = run_vh(["c09-exec", "-in", p, "-out", o], env={"VERIF_SEED": str(seed + i)}, timeout=3000)
                for k, v in json.loads(r.stdout.strip().splitlines()[-1]).items():
                    stats[k] = stats.get(k, 0) + v
                out.write(open(o).read())
            # unrepresentable values: in-process; if the process dies, attribute by re-running each alone
            cyc = w.path("cyc.ndjson")
            pc = run_vh(["c09-cycles", "-out", cyc], check=False)
            if pc.returncode != 0:
                nscripts = json.loads(run_vh(["c09-cycles", "-count"]).stdout.strip().splitlines()[-1])["scripts"]
                for i in range(nscripts):
                    one = w.path("cyc1.ndjson")
                    p1 = run_vh(["c09-cycles", "-out", one, "-only", str(i)], check=False)
                    if p1.returncode != 0:
                        rep.violation({"key": "fatal-serialisation-%d" % i, "kind": "fatal", "what": "serialising the value built by script #%d of the unrepresentable family kills the process (stack exhaustion)" % i,
                                       "features": ["c09_fatal"], "replay": {"only": i}})
                    elif os.path.exists(one):
                        out.write(open(one).read())
            else:
                out.write(open(cyc).read())
        j = validate(w, allev)
        rows = read_ndjson(allev)
        for b in j["bad"]:
            if len(rep.violations) >= 300:
                break
            e = rows[b["i"] - 1]
            why = sorted(set(b["why"]) & TAGS)
            if e["ev"] == "c09u":
                rep.violation({"key": "unrep-%d-%s" % (e["idx"], "+".join(why)), "kind": "c09u", "what": "%s: `%s`" % ("/".join(why), e["src"]), "features": ["c09u"] + why, "replay": {"event": e}})
                continue
            diff = ""
            for x, y, p in zip(e["a"], e["b"], e["progs"]):
                if x != y:
                    diff = "follow-up %r: original -> %s %s, restored -> %s %s" % (p[:80], x["ret"][:60], x["errtext"][:40], y["ret"][:60], y["errtext"][:40])
                    break
            rep.violation({"key": "%s-%d" % ("+".join(why), abs(hash(e["prefix"])) % 100000), "kind": "c09",
                           "what": "%s after snapshot at statement %d/%d of `%s` %s %s" % ("/".join(why), e["cut"], e["of"], e["prefix"][:160], e["errtext"][:80], diff),
                           "features": ["c09"] + why, "replay": {"event": e}})
        if stats.get("crash_points", 0) < 200:
            raise MachineryError("vacuous run")
        if not j["bad"]:
            e = json.loads(json.dumps(next(x for x in rows if x["ev"] == "c09" and x["a"])))
            e["b"][0]["vars"] += "zz"
            t2 = w.path("corrupt.ndjson"); vlib.write_ndjson(t2, [e])
            if not validate(w, t2)["bad"]:
                raise MachineryError("binding self-test failed")
            rep.set("binding_selftest", "variables of the restored VM altered in one recorded experiment -> rejected")
        for e in [x for x in rows if x["ev"] == "c09" and x["a"]][:2]:
            rep.sample({"prefix": e["prefix"][:160], "crash_point": "%d/%d" % (e["cut"], e["of"]), "follow_ups": e["progs"][:3], "vars": e["varsA"][:160]})
        rep.sample({"unrepresentable_family": [x["src"] for x in rows if x["ev"] == "c09u"][:4]})
        rep.set("states", j["n"]); rep.set("transitions", j["n"])
        rep.set("coverage_detail", dict(stats, unrepresentable_scripts=sum(1 for x in rows if x["ev"] == "c09u"), snapshots_with_shared_containers=sum(1 for x in rows if x.get("aliased"))))
        rep.set("traces_validated_against_impl", j["n"])
        rep.set("evaluations", j["n"])
        rep.set("distinct_nontrivial", stats.get("crash_points", 0))
        rep.set("rule", "one evaluation = snapshot at one statement boundary + restore + remaining statements + 5 follow-ups on both VMs; distinct = distinct (program, crash point)")


def replay(path):
    j = json.load(open(path))
    e = j["replay"].get("event")
    print(json.dumps(e, ensure_ascii=False)[:2000] if e else j["replay"])
    return 1
