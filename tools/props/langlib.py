"""Lang oracle pipeline: Go AST generator -> TLC (LangRun: Unparse + Eval) in parallel -> real VM (lang-exec)."""
import json, os, shutil
from concurrent.futures import ThreadPoolExecutor
import vlib
from vlib import run_tlc, tlc_must_pass, run_vh, read_ndjson, MachineryError


def oracle(w, asts_file, tag, parts=12):
    """Run LangRun over the histories in asts_file (split over `parts` TLC processes). Returns list of out prefixes."""
    rows = open(asts_file).read().splitlines()
    parts = max(1, min(parts, len(rows) // 50 or 1))
    prefixes = []
    jobs = []
    for i in range(parts):
        chunk = rows[i::parts]
        f = w.path("%s.asts.%d" % (tag, i))
        open(f, "w").write("\n".join(chunk) + "\n")
        pref = w.path("%s.out.%d" % (tag, i))
        prefixes.append(pref)
        jobs.append((f, pref))

    def one(job):
        f, pref = job
        r = run_tlc(w, "LangRun", "LangRun.cfg", env={"ASTS": f, "OUT": pref}, workers=1, timeout=3000, heap="6g", stack="1g")
        return tlc_must_pass(r, "LangRun " + os.path.basename(f))

    with ThreadPoolExecutor(max_workers=min(parts, 14)) as ex:
        rs = list(ex.map(one, jobs))
    return prefixes, rs


def execute(w, prefixes, tag, seed, subcmd="lang-exec", extra=()):
    """Run every oracle output through the real VM; returns (stats, mismatches)."""
    stats = {}
    mism = []
    for i, pref in enumerate(prefixes):
        out = w.path("%s.mm.%d" % (tag, i))
        p = run_vh([subcmd, "-in", pref, "-out", out] + list(extra), env={"VERIF_SEED": str(seed + i)}, timeout=3000)
        s = json.loads(p.stdout.strip().splitlines()[-1])
        for k, v in s.items():
            stats[k] = stats.get(k, 0) + v
        mism += read_ndjson(out)
    return stats, mism
