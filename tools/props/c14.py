"""C14 - the calculation-process text explains the result and observing it is harmless."""
import json, os, hashlib
import vlib
from vlib import Work, run_vh, run_tlc, tlc_must_pass, read_ndjson, MachineryError

DETAIL_TAGS = {"legal-rejected", "detail-crash", "not-idempotent", "observation-changed-state", "evaluation-count", "result-vs-values",
               "text-missing", "structure", "placeholder-value", "annotation", "sub-roll", "sub-roll-count"}


def validate(w, evfile):
    res = evfile + ".result.json"
    tlc_must_pass(run_tlc(w, "Trace_Detail", "Trace_Detail.cfg", env={"TRACE": evfile, "RESULT": res}, workers=1, timeout=3000, heap="16g"), "Trace_Detail")
    if not os.path.exists(res):
        raise MachineryError("Trace_Detail did not consume the trace")
    return json.load(open(res))


def run(rep, tier, seed):
    rep.assumptions += ["spec/Trace_Detail.tla: text = source with every slot replaced by value[annotation]; result = the expression over the shown values; "
                        "annotation dice = dice rolled (rules of spec/Dice.tla through DiceCheck); GetDetailText idempotent and without effect on Ret, variables, generator",
                        "slots: dice terms of every family with modifiers, (XdY)dS sub-rolls, integer variables and computed values with multi-byte names (also used twice); "
                        "spacing drawn from blanks and line breaks; optional leading remark statement; definitions precede the expression in the same source",
                        "an annotation equal to its source (one die, no modifiers) is elided by design, so a one-slot expression may have an empty text",
                        "the harness cuts the real text along the source chunks it generated itself (trusted), rolls are attributed to slots by the mark.detail steps seen by hook H1"]
    with Work("c14") as w:
        ev = w.path("ev.ndjson")
        n = 60000 if tier == "thorough" else 6000
        run_vh(["c14-exec", "-out", ev, "-n", str(n)], env={"VERIF_SEED": str(seed)}, timeout=3000)
        j = validate(w, ev)
        rows = read_ndjson(ev)
        for b in j["bad"]:
            if len(rep.violations) >= 200:
                break
            e = rows[b["i"] - 1]
            why = sorted(b["why"])
            rep.violation({"key": "%s-%s" % ("+".join(why)[:50], hashlib.md5(e["src"].encode()).hexdigest()[:6]), "kind": "c14",
                           "what": "%s: `%s` -> %s, text %r%s" % ("/".join(why), e["src"][:160], e["ret"], e["detail"][:240], (" error: " + e["errtext"][:100]) if e["err"] else ""),
                           "features": ["c14"] + why, "replay": {"event": e, "why": why}})
        kinds = {}
        fams = {}
        for e in rows:
            for s in e["slots"]:
                kinds[s["k"]] = kinds.get(s["k"], 0) + 1
            for t in e["terms"]:
                fams[t["fam"]] = fams.get(t["fam"], 0) + 1
        aligned = sum(1 for e in rows if e["aligned"])
        if not j["bad"] and (aligned < n * 0.8 or len(fams) < 5 or len(kinds) < 4):
            raise MachineryError("vacuous run: aligned=%d families=%s slot kinds=%s" % (aligned, fams, kinds))
        if not j["bad"]:
            # binding self-test: one shown value, one die of an annotation, the second text
            base = next(e for e in rows if e["aligned"] and len(e["slots"]) >= 2 and e["terms"])
            muts = []
            e1 = json.loads(json.dumps(base)); e1["shownValues"][0] += 1; muts.append(("placeholder value altered", e1))
            e2 = json.loads(json.dumps(base)); e2["terms"][0]["total"] += 1; muts.append(("term value altered", e2))
            e3 = json.loads(json.dumps(base)); e3["detail2"] += " "; muts.append(("second text altered", e3))
            e4 = json.loads(json.dumps(base)); e4["seedAfter"] = "0" + e4["seedAfter"]; muts.append(("generator state altered", e4))
            t2 = w.path("corrupt.ndjson"); vlib.write_ndjson(t2, [m[1] for m in muts])
            r2 = validate(w, t2)
            if len(r2["bad"]) != len(muts):
                raise MachineryError("binding self-test failed: %d of %d corrupted events rejected" % (len(r2["bad"]), len(muts)))
            rep.set("binding_selftest", "; ".join(m[0] for m in muts) + " -> each rejected")
        for e in rows[:400:80]:
            rep.sample({"source": e["src"][:200], "result": e["ret"], "text": e["detail"][:300]})
        rep.set("states", j["n"]); rep.set("transitions", j["n"])
        rep.set("traces_validated_against_impl", j["n"])
        rep.set("expressions", {"n": j["n"], "text_cut_into_slots": aligned, "slot_kinds": kinds, "dice_terms_by_family": fams,
                                "multi_line": sum(1 for e in rows if "\n" in e["src"]), "distinct_sources": len({e["src"] for e in rows})})
        rep.set("distinct_nontrivial", len({e["src"] for e in rows if e["slots"]}))
        rep.set("rule", "one event = one expression run on a seeded VM, GetDetailText twice; distinct = distinct sources with at least one slot")


def replay(path):
    j = json.load(open(path)); print(json.dumps(j["replay"], ensure_ascii=False)[:3000]); return 1
