"""C07 - budgets and capacity limits fail closed: bounded work, error, no truncation."""
import json, os, hashlib
import vlib
from vlib import Work, run_vh, run_tlc, tlc_must_pass, read_ndjson, MachineryError


def validate(w, evfile):
    res = evfile + ".result.json"
    tlc_must_pass(run_tlc(w, "Trace_Budget", "Trace_Budget.cfg", env={"TRACE": evfile, "RESULT": res}, workers=1, timeout=3000), "Trace_Budget")
    if not os.path.exists(res):
        raise MachineryError("Trace_Budget did not consume the trace")
    return json.load(open(res))


RESOURCE = {"no-termination", "resource-exhaustion"}


def run(rep, tier, seed):
    thorough = tier == "thorough"
    rep.assumptions += ["spec/Budget.tla: charge before work (plain 1, dice batch n, every round of an exploding pool, call +100), error in the step that exceeds; TLC checks Accounting, FailClosed, BoundedWork, Monotone, Terminates for every adversarial instruction sequence (and that BoundedWork FAILS when rounds are not charged, the behaviour of the pinned code)",
                        "spec/apalache/BudgetInd.tla: the invariants of Budget as an inductive invariant for unconstrained Limit and MaxBatch, discharged by Apalache on every run",
                        "work = instructions dispatched at every depth (H1) + dice rolled (H2); bounds: work <= ops at every dispatch (exact accounting: every instruction and every die is charged before it happens - since bb9553d also Fate dice and the D100 of CoC rolls; measured maximum of work - ops over all cases: 0), work <= 1.5*limit + 200 at the end, and the counter read by the host after the run accounts for the work",
                        "every case runs in a child process with ceilings 60 s of processor time (ten minutes by the clock) and 1.5 GB heap; budgets 300 and 30000 (recommended), parse budget 10^7 (recommended) except in the parse-budget family; normal, max and min mode",
                        "families: unbounded loops/recursion (also through computed values, templates, callbacks), huge dice counts, exploding WoD/DC pools (low add line, huge sides, max mode), doubling strings and containers, "
                        "budget sweep: corpus and generated programs under budgets 1..400 against their own run under budget 200000 (stopped with the budget error, or the same value/error); "
                        "container lengths: repetition, concatenation and ranges around 512 elements in every operand order, in loops, functions, templates and computed values (the length returned is at most 512, or an error); "
                        "long sums around the 8192-instruction buffer, block/template/parenthesis/array nesting around 20, operand counts around 1000, long sources under small parse budgets",
                        "for capacity families the generator knows the value of the full program; a run that returns anything else without an error is a truncation"]
    with Work("c07") as w:
        r1 = tlc_must_pass(run_tlc(w, "Budget", "Budget.cfg", workers=4, timeout=600), "Budget")
        r2 = run_tlc(w, "Budget", "Budget_aswas.cfg", workers=4, timeout=600)
        if not r2.inv_violation:
            raise MachineryError("Budget with uncounted rounds should violate BoundedWork (sensitivity of the model)")
        rep.set("states", r1.distinct); rep.set("transitions", r1.generated)
        # the same invariants for ALL limits and batch sizes: an inductive invariant discharged by Apalache
        import shutil, subprocess
        wd = w.path("apalache"); os.makedirs(wd)
        shutil.copy(os.path.join(vlib.SPEC, "apalache", "BudgetInd.tla"), wd)
        for name, a in (("base", ["--init=Init", "--length=0"]), ("step", ["--init=IndInit", "--length=1"])):
            try:
                pr = subprocess.run(["apalache-mc", "check", "--cinit=ConstInit", "--inv=IndInv", "--out-dir=" + os.path.join(wd, "out_" + name)] + a + ["BudgetInd.tla"],
                                    cwd=wd, capture_output=True, text=True, timeout=900, env=dict(os.environ, TMPDIR=wd))
            except subprocess.TimeoutExpired:
                raise MachineryError("apalache timed out on BudgetInd (%s)" % name)
            if "EXITCODE: OK" not in pr.stdout or "NoError" not in pr.stdout and "no error" not in pr.stdout:
                raise MachineryError("apalache did not discharge BudgetInd (%s):\n%s" % (name, (pr.stdout + pr.stderr)[-2500:]))
        rep.set("inductive_invariant", "BudgetInd!IndInv (Accounting, FailClosed, BoundedWork) holds initially and is preserved by every action, for all Limit and MaxBatch (Apalache, lengths 0 and 1)")
        ev = w.path("ev.ndjson")
        args = ["c07-exec", "-out", ev, "-workers", "12"] + (["-thorough"] if thorough else [])
        run_vh(args, env={"VERIF_SEED": str(seed)}, timeout=6000)
        # ordinary programs under tiny budgets: stopped with the budget error, or exactly the unbudgeted result
        run_vh(["corpus", w.path("corpus.ndjson")])
        run_vh(["gen", "-out", w.path("gen.ndjson"), "-n", "6000" if thorough else "800", "-depth", "3"], env={"VERIF_SEED": str(seed)})
        with open(w.path("in.ndjson"), "w") as out:
            out.write(open(w.path("corpus.ndjson")).read()); out.write(open(w.path("gen.ndjson")).read())
        run_vh(["c07-sweep", "-in", w.path("in.ndjson"), "-out", w.path("sweep.ndjson")] + (["-thorough"] if thorough else []), env={"VERIF_SEED": str(seed)}, timeout=6000)
        with open(ev, "a") as out:
            out.write(open(w.path("sweep.ndjson")).read())
        j = validate(w, ev)
        rows = read_ndjson(ev)
        for b in j["bad"]:
            if len(rep.violations) >= 300:
                break
            e = rows[b["i"] - 1]
            why = sorted(b["why"])
            feats = ["c07", "family-" + e["family"]] + why
            key = "%s-%s-%s" % (e["family"], "+".join(why)[:60], hashlib.md5(e["prog"].encode()).hexdigest()[:6])
            if e["family"] == "grow-string" and set(why) <= RESOURCE:
                key = "unbounded-string-growth"
            if e["family"] == "uncharged-walk" and set(why) <= RESOURCE:
                key = "uncharged-walk-over-containers"
            rep.violation({"key": key, "kind": "c07",
                           "what": "%s: `%s` (%d bytes) under OpCountLimit %d, ParseExprLimit %d, mode %d: ops %d, dispatched %d, rolled %d, %s%s" % (
                               "/".join(why), e["prog"][:160], e["progLen"], e["limit"], e["parseLimit"], e["mode"], e["ops"], e["dispatches"], e["rolls"],
                               "cut by the harness after %d ms" % e["millis"] if (e["timedOut"] or e["killed"]) else
                               "the process died: " + e["panicText"][:120] if e["crashed"] else
                               "panic: " + e["panicText"][:120] if e["panic"] else
                               ("error: " + e["errtext"][:100]) if e["err"] else "returned " + e["ret"][:60],
                               (" (the full program is worth %s)" % e["expect"][:40]) if e["hasExpect"] else ""),
                           "features": feats, "replay": {"event": e, "why": why}})
        fams = {}
        for e in rows:
            f = fams.setdefault(e["family"], {"cases": 0, "errors": 0, "values": 0})
            f["cases"] += 1; f["errors"] += int(e["err"]); f["values"] += int(not e["err"] and not e["panic"] and not e["timedOut"] and not e["killed"] and not e["crashed"])
        over = sum(1 for e in rows if e["limit"] > 0 and e["ops"] > e["limit"])
        if len(fams) < 10 or over < 100:
            raise MachineryError("vacuous run: families %s, runs over budget %d" % (sorted(fams), over))
        # binding self-test on clean events
        clean = [e for i, e in enumerate(rows) if (i + 1) not in {b["i"] for b in j["bad"]}]
        base = next(e for e in clean if e["limit"] > 0 and e["ops"] > e["limit"] and e["err"])
        capb = next(e for e in clean if e["hasExpect"] and not e["err"])
        muts = []
        e1 = json.loads(json.dumps(base)); e1["err"] = False; muts.append(("error of an over-budget run removed", e1))
        e2 = json.loads(json.dumps(base)); e2["rolls"] = e2["rolls"] + 2 * e2["limit"] + 3000; muts.append(("rolls beyond the bound added", e2))
        e3 = json.loads(json.dumps(capb)); e3["ret"] = e3["ret"] + "0"; muts.append(("value of a capacity case altered", e3))
        e4 = json.loads(json.dumps(base)); e4["monotone"] = False; muts.append(("counter decrease reported", e4))
        t2 = w.path("corrupt.ndjson"); vlib.write_ndjson(t2, [m[1] for m in muts])
        r = validate(w, t2)
        if len(r["bad"]) != len(muts):
            raise MachineryError("binding self-test failed: %d of %d corrupted events rejected" % (len(r["bad"]), len(muts)))
        rep.set("binding_selftest", "; ".join(m[0] for m in muts) + " -> each rejected")
        for e in rows[::max(1, len(rows) // 5)][:5]:
            rep.sample({"family": e["family"], "program": e["prog"][:120], "limit": e["limit"], "mode": e["mode"], "ops": e["ops"], "work": e["dispatches"] + e["rolls"],
                        "outcome": ("error: " + e["errtext"][:60]) if e["err"] else e["ret"][:40]})
        rep.set("traces_validated_against_impl", j["n"])
        rep.set("cases", {"n": j["n"], "families": fams, "runs_over_budget": over,
                          "max_work_over_limit_ratio": round(max((e["dispatches"] + e["rolls"]) / e["limit"] for e in rows if e["limit"] > 0), 2),
                          "instructions_dispatched": sum(e["dispatches"] for e in rows), "dice_rolled": sum(e["rolls"] for e in rows)})
        rep.set("distinct_nontrivial", len({(e["prog"], e["limit"], e["mode"], e["parseLimit"]) for e in rows}))
        rep.set("rule", "one case = one program x budget x mode in its own process; distinct = distinct (program, budgets, mode)")


def replay(path):
    j = json.load(open(path)); print(json.dumps(j["replay"], ensure_ascii=False)[:3000]); return 1
