"""C08 - compiled code is well-formed on every path, not only the path taken."""
import json, os
import vlib
from vlib import Work, run_tlc, tlc_must_pass, run_vh, read_ndjson, write_ndjson, MachineryError

OBS = {"needs", "underflow"}   # step-trace findings that are observations of the real VM, not table drift


def gather_inputs(w, tier, seed):
    n_gen, n_tail = (6000, 6000) if tier == "thorough" else (700, 900)
    run_vh(["corpus", w.path("corpus.ndjson")])
    run_vh(["gen", "-out", w.path("gen.ndjson"), "-n", str(n_gen), "-depth", "4" if tier == "thorough" else "3"], env={"VERIF_SEED": str(seed)})
    run_vh(["gen-tails", "-out", w.path("tails.ndjson"), "-n", str(n_tail)], env={"VERIF_SEED": str(seed)})
    allin = w.path("inputs.ndjson")
    with open(allin, "w") as o:
        for f in ("corpus.ndjson", "gen.ndjson", "tails.ndjson"):
            o.write(open(w.path(f)).read())
        extra = os.path.join(vlib.VERIF, "corpus", "lang_programs.ndjson")
        if os.path.exists(extra):
            o.write(open(extra).read())
    return allin


TABLE = {"item.set": (3, 1), "attr.set": (2, 1), "slice.set": (5, 1), "item.get": (2, 1), "attr.get": (1, 1), "slice.get": (4, 1),
         "store": (1, 1), "store.local": (1, 1), "pop": (1, 0), "st.set": (2, 0), "st.mod": (2, 0), "st.x0": (2, 0), "st.x1": (3, 0), "push.range": (2, 1),
         "neg": (1, 1), "pos": (1, 1), "dice": (1, 1), "dice.fate": (0, 1), "coc.bonus": (1, 1), "coc.penalty": (1, 1), "dice.wod": (1, 1), "dice.dc": (1, 1),
         "and": (2, 1)}
for _o in ("add", "sub", "mul", "div", "mod", "pow", "nullCoalescing", "comp.lt", "comp.le", "comp.eq", "comp.ne", "comp.ge", "comp.gt", "&", "|"):
    TABLE[_o] = (2, 1)
for _o in ("push.int", "push.flt", "push.str", "push.null", "push.this", "push.func", "push.computed", "ld", "ld.raw", "ld.d", "dice.custom", "push.last", "push.def_expr"):
    TABLE[_o] = (0, 1)
for _o in ("dice.setTimes", "dice.setKeepLow", "dice.setKeepHigh", "dice.setDropLow", "dice.setDropHigh", "dice.setMin", "dice.setMax",
           "wod.pool", "wod.points", "wod.threshold", "wod.thresholdQ", "dc.setPool", "dc.setPoints"):
    TABLE[_o] = (1, 0)


def observed_overrides(fr, drift):
    """From 'top'-only disagreements derive the net stack effect the real VM shows for an opcode (None if inconsistent)."""
    nets = {}
    for d in drift:
        if list(d["why"]) != ["top"]:
            return None
        st = fr[d["f"] - 1]["steps"]
        a, b = st[d["k"] - 1], st[d["k"]]
        if a["op"] not in TABLE:
            return None
        nets.setdefault(a["op"], set()).add(b["top"] - a["top"])
    ov = []
    for op, ns in nets.items():
        if len(ns) != 1:
            return None
        net = ns.pop()
        pops = TABLE[op][0]
        pushes = pops + net
        if pushes < 0:
            pops, pushes = -net, 0
        ov.append({"op": op, "pops": pops, "pushes": pushes})
    return ov


def allpaths(w, progs_file, tag, overrides=()):
    res = progs_file + ".result.json"
    ovf = progs_file + ".overrides.ndjson"
    write_ndjson(ovf, list(overrides))
    if os.path.exists(res):
        os.remove(res)
    r = tlc_must_pass(run_tlc(w, "ByteVM", "ByteVM.cfg", env={"PROGS": progs_file, "RESULT": res, "OVERRIDES": ovf}, workers=1, timeout=3000, heap="16g"), "ByteVM " + tag)
    if not os.path.exists(res):
        raise MachineryError("ByteVM wrote no result:\n" + r.out[-2000:])
    return r, json.load(open(res))


def run(rep, tier, seed):
    rep.assumptions += ["the opcode table spec/ByteVMDefs.tla (validated each run against recorded dispatch steps of the real VM)",
                        "stack heights are capped at 40 in the model (sound for underflow)",
                        "inputs are sampled (repository corpus, generated programs, valid-prefix-plus-broken-tail); all paths of each are explored"]
    with Work("c08") as w:
        allin = gather_inputs(w, tier, seed)
        progs, idx = w.path("progs.ndjson"), w.path("idx.ndjson")
        p = run_vh(["code-dump", "-in", allin, "-out", progs, "-index", idx], timeout=1800)
        s = json.loads(p.stdout.strip().splitlines()[-1])
        plist = read_ndjson(progs)
        ilist = read_ndjson(idx)
        # self-test programs: the checker must flag these (guards against a vacuous model)
        n0 = len(plist)
        def ins(op, n=0, nil=False):
            return {"op": op, "n": n, "nilop": nil, "body": 0}
        synth = [[ins("push.int", 1), ins("add"), ins("halt")],
                 [ins("push.int", 1), ins("jmp", 7), ins("halt")],
                 [ins("push.int", 1), ins("je.dup", 0, True), ins("halt")],
                 [ins("push.int", 1), ins("jne", 1), ins("block.push"), ins("push.int", 2), ins("halt")],
                 [ins("push.int", 6), ins("dice"), ins("halt")]]
        for i, code in enumerate(synth):
            plist.append({"pid": n0 + 1 + i, "src": 0, "kind": "selftest", "parent": 0, "code": code})
        write_ndjson(progs, plist)
        r, res = allpaths(w, progs, "all")
        rep.set("states", r.distinct)
        rep.set("transitions", r.generated)
        flagged = {v["p"] for v in res["viol"] if v["p"] > n0}
        if flagged != {n0 + 1 + i for i in range(len(synth))}:
            raise MachineryError("model self-test failed: synthetic ill-formed programs flagged = %s" % sorted(flagged))
        rep.set("binding_selftest", "%d synthetic ill-formed listings (underflow, jump out of bounds, unpatched jump, depth conflict, missing dice state) all flagged" % len(synth))
        # opcode table vs. the real VM (dispatch steps)
        frames = w.path("frames.ndjson")
        p2 = run_vh(["code-trace", "-index", idx, "-out", frames], timeout=1800)
        s2 = json.loads(p2.stdout.strip().splitlines()[-1])
        tres = frames + ".result.json"
        tlc_must_pass(run_tlc(w, "Trace_ByteVM", "Trace_ByteVM.cfg", env={"TRACE": frames, "RESULT": tres}, workers=1, timeout=3000, heap="16g"), "Trace_ByteVM")
        tj = json.load(open(tres))
        drift = [d for d in tj["drift"] if not (set(d["why"]) & OBS)]
        obs = [d for d in tj["drift"] if set(d["why"]) & OBS]
        fr = None
        if obs or drift:
            fr = read_ndjson(frames)
        for d in obs[:50]:
            f = fr[d["f"] - 1]
            a = f["steps"][d["k"] - 1]
            src = ilist[f["src"] - 1]
            rep.violation({"key": "step-%s-%s" % (a["op"], "+".join(sorted(set(d["why"]) & OBS))), "kind": "step",
                           "what": "real VM executed `%s` at pc %d with stack height %d, %d annotation spans, dice depth %d (%s) while running %r" % (
                               a["op"], a["pc"], a["top"], a["ndet"], a["dice"], "/".join(sorted(d["why"])), src["src"][:120]),
                           "features": ["step_" + a["op"]], "replay": {"src": src["src"], "cfg": src["cfg"], "step": a}})
        withheld = False
        if drift:
            a = fr[drift[0]["f"] - 1]["steps"][drift[0]["k"] - 1]
            ov = observed_overrides(fr, drift)
            if ov:
                print("DRIFT property=C08 the opcode table disagrees with %d recorded dispatch steps (first: `%s` %s); re-running the all-paths check with the observed stack effects %s" % (
                    len(drift), a["op"], drift[0]["why"], json.dumps(ov)))
                r, res = allpaths(w, progs, "observed-effects", ov)
                rep.set("observed_effect_overrides", ov)
            else:
                print("DRIFT property=C08 the opcode table disagrees with %d recorded dispatch steps (first: `%s` %s); all-paths verdicts withheld" % (
                    len(drift), a["op"], drift[0]["why"]))
                withheld = True
        rep.set("trace_steps", {"runs": s2["runs"], "frames": tj["frames"], "steps": s2["steps"], "table_drift": len(drift), "observed_precondition_failures": len(obs)})
        # verdicts
        real = [v for v in res["viol"] if v["p"] <= n0]
        if not withheld:
            byprog = {}
            for v in real:
                byprog.setdefault(v["p"], []).append(v)
            for pid, vs in list(byprog.items())[:200]:
                pr = plist[pid - 1]
                src = ilist[pr["src"] - 1]
                v = vs[0]
                listing = ["%d %s %s" % (i, c["op"], "nil" if c["nilop"] and c["op"] in ("jmp", "jne", "je", "je.dup") else c["n"]) for i, c in enumerate(pr["code"])]
                rep.violation({"key": "%s-%s" % (v["kind"], v["op"]), "kind": "listing",
                               "what": "%s at pc %d (`%s`, modelled height %d) in the %s code compiled from %r" % (v["kind"], v["pc"], v["op"], v["h"], pr["kind"], src["src"][:160]),
                               "features": ["listing_" + v["kind"]],
                               "replay": {"src": src["src"], "cfg": src["cfg"], "program_kind": pr["kind"], "violations": vs[:5], "listing": listing}})
        else:
            rep.set("withheld_model_findings", len(real))
        for i in (3, 400, 1500):
            if i < len(ilist):
                rep.sample({"input": ilist[i]["src"][:200], "cfg": ilist[i]["cfg"], "programs": ilist[i]["last"] - ilist[i]["first"] + 1})
        rep.set("programs", n0)
        rep.set("program_counts", {"inputs": s["inputs"], "accepted_input_x_config": s["accepted"], "listings_incl_nested_bodies": n0})
        rep.set("traces_validated_against_impl", tj["frames"])
        rep.set("evaluations", n0)
        rep.set("distinct_nontrivial", len({json.dumps(p_["code"]) for p_ in plist[:n0] if any(c["op"] in ("jmp", "jne", "je.dup", "block.push", "fstr.block.push", "invoke") for c in p_["code"])}))
        rep.set("rule", "one evaluation = all-paths exploration of one listing; non-trivial = distinct listing containing a jump, a block or a call")


def replay(path):
    j = json.load(open(path))
    rp = j["replay"]
    with Work("c08r") as w:
        inp = w.path("in.ndjson")
        write_ndjson(inp, [{"src": rp["src"]}])
        progs, idx = w.path("progs.ndjson"), w.path("idx.ndjson")
        run_vh(["code-dump", "-in", inp, "-out", progs, "-index", idx])
        if not read_ndjson(progs):
            print("input no longer accepted"); return 0
        r, res = allpaths(w, progs, "replay")
        print(json.dumps(res["viol"], indent=1))
        if res["viol"]:
            print("VIOLATION property=C08 replay=%s" % path)
            return 1
        frames = w.path("frames.ndjson")
        run_vh(["code-trace", "-index", idx, "-out", frames])
        tres = frames + ".result.json"
        tlc_must_pass(run_tlc(w, "Trace_ByteVM", "Trace_ByteVM.cfg", env={"TRACE": frames, "RESULT": tres}, workers=1), "Trace_ByteVM")
        tj = json.load(open(tres))
        print("step findings:", tj["drift"][:5])
        return 1 if [d for d in tj["drift"] if set(d["why"]) & OBS] else 0
