"""C15 - min-mode and max-mode bracket every roll."""
import json
import vlib
from vlib import Work, MachineryError, run_vh
from . import dicelib

TAGS = {"below-min-mode", "above-max-mode", "mode-consumed-randomness", "min-mode-value", "max-mode-value"}
MODE_TAGS = {"rolls", "total"}   # for events evaluated IN a mode: every die at its lowest/highest face, result per rule


def run(rep, tier, seed):
    rep.assumptions += ["mode semantics as documented: every die settled at its lowest / highest face (CoC tens dice at 0)",
                        "monotone expressions are sums of coef*term with coef >= 0 over XdY, Fate and CoC terms"]
    with Work("c15") as w:
        dicelib.design(rep, w, tier)
        ev, s, n, bad = dicelib.run_plan(rep, w, tier, seed, bracket=True)
        # events evaluated in a mode own the rolls/total tags too
        modebad = []
        if bad:
            full = dicelib.full_events(ev, [b["i"] for b in bad[:2000]])
            for b in bad[:2000]:
                if full[b["i"]]["mode"] != 0 and (set(b["why"]) & MODE_TAGS):
                    modebad.append({"i": b["i"], "why": [x for x in b["why"] if x in MODE_TAGS]})
        k1 = dicelib.report_bad(rep, ev, bad, TAGS, "C15", "forced faces vs min/max-mode runs")
        k1 += dicelib.report_bad(rep, ev, modebad, MODE_TAGS, "C15", "evaluated in min/max mode")
        rep.set("replay", {"plans": s["plans"], "events_validated": n, "rejected": k1,
                           "scope": "every face sequence of every XdY/Fate/CoC term of the DiceGen_%s grid bracketed by the real min- and max-mode results; each term also evaluated in both modes against the closed forms" % tier})
        # monotone expressions with the real generator
        ex = w.path("expr.ndjson")
        nexpr, nseeds = (6000, 16) if tier == "thorough" else (800, 8)
        p = run_vh(["dice-expr", "-out", ex, "-n", str(nexpr), "-seeds", str(nseeds)], env={"VERIF_SEED": str(seed)})
        res = ex + ".result.json"
        r = vlib.tlc_must_pass(vlib.run_tlc(w, "Trace_Dice", "Trace_Dice.cfg", env={"TRACE": ex, "RESULT": res}, workers=1, timeout=1800), "Trace_Dice expr")
        j = json.load(open(res))
        rows = vlib.read_ndjson(ex)
        for r0 in rows[:3]:
            rep.sample({"expr": r0["src"], "min": r0["lo"], "max": r0["hi"], "random": r0["vals"]})
        for b in j["bad"]:
            e = rows[b["i"] - 1]
            rep.violation({"key": "expr-" + "+".join(sorted(b["why"])), "kind": "expr",
                           "what": "%s: `%s` min-mode=%s max-mode=%s random=%s" % ("/".join(sorted(b["why"])), e["src"], e["lo"], e["hi"], e["vals"]),
                           "features": ["dice_expr"] + list(b["why"]), "replay": {"event": e, "why": b["why"]}})
        if not j["bad"] and k1 == 0:
            e = dict(rows[0]); e["lo"] = e["lo"] + 1
            t2 = w.path("expr-corrupt.ndjson"); vlib.write_ndjson(t2, [e])
            vlib.tlc_must_pass(vlib.run_tlc(w, "Trace_Dice", "Trace_Dice.cfg", env={"TRACE": t2, "RESULT": t2 + ".res"}, workers=1), "selftest")
            if not json.load(open(t2 + ".res"))["bad"]:
                raise MachineryError("binding self-test failed: corrupted min-mode value accepted")
            rep.set("binding_selftest", "corrupted min-mode value of `%s` rejected" % e["src"])
        rep.set("trace_expr", {"expressions": j["n"], "random_evaluations": j["n"] * nseeds, "rejected": len(j["bad"])})
        rep.set("traces_validated_against_impl", n + j["n"])
        rep.set("evaluations", n + j["n"] * (nseeds + 2))
        rep.set("distinct_nontrivial", s["plans"] + j["n"])
        rep.set("rule", "plans: distinct (term, faces) pairs, each compared with the real min/max-mode results of the same term; expressions: distinct random monotone sums evaluated in both modes and with %d random seeds" % nseeds)
        rep.set("exhaustive", True)


def replay(path):
    j = json.load(open(path))
    e = j["replay"]["event"]
    with Work("c15r") as w:
        if j.get("kind") == "expr":
            print("expression:", e["src"])
            t = w.path("e.ndjson")
            import subprocess
            # re-evaluate now on the current tree
            ex = w.path("x.ndjson")
            p = run_vh(["dice-eval", e["src"]], check=False)
            print(p.stdout)
            return 1 if "OUTSIDE" in p.stdout else 0
        plan = w.path("p.ndjson")
        vlib.write_ndjson(plan, [{"fam": e["fam"], "p": e["p"], "faces": [r["f"] for r in e["rolls"]] if e["mode"] == 0 else [], "mode": e["mode"], "illegal": False}])
        ev = w.path("e.ndjson")
        run_vh(["dice-replay", "-in", plan, "-out", ev, "-bracket"])
        n, bad = dicelib.validate(w, ev, "replay-one")
        print("rejected:", bad)
        if [b for b in bad if set(b["why"]) & (TAGS | MODE_TAGS)]:
            print("VIOLATION property=C15 replay=%s" % path)
            return 1
    return 0
