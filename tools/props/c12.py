"""C12 - ValueMap is a correct map, sequentially and under concurrency.

spec: VMapDefs (abstract map + implementation machine), VMap (refinement over the full product state space),
VMapGen (all call sequences with prescribed results -> replay), Trace_VMap (random long real histories,
Obs = return values, Aux = internals snapshot), Trace_VMapLin (linearizability of real concurrent histories).
"""
import json, os, re
import vlib
from vlib import Work, run_tlc, tlc_must_pass, run_vh, read_ndjson, MachineryError


def parse_set(s):
    s = s.strip()
    if s == "{}":
        return []
    return [int(x) for x in s.strip("{}").split(",") if x.strip()]


def trace_run(w, tr):
    res = tr + ".result.json"
    r = tlc_must_pass(run_tlc(w, "Trace_VMap", "Trace_VMap.cfg", env={"TRACE": tr, "RESULT": res}, workers=1, timeout=1200), "Trace_VMap")
    if not os.path.exists(res):
        raise MachineryError("Trace_VMap did not reach the end of the trace:\n" + r.out[-3000:])
    j = json.load(open(res))
    return sorted(j["bad"]), sorted(j["drift"])


def run(rep, tier, seed):
    thorough = tier == "thorough"
    rep.assumptions += [
        "abstract map and implementation machine are spec/VMapDefs.tla; values are small ints, keys from a 2-6 element set",
        "concurrent histories come from the Go scheduler (no gates inside ValueMap): interleavings it never produces are covered only by the fine-grained model",
    ]
    with Work("c12") as w:
        # 1. design: refinement Impl => Abstract over the whole reachable product space
        r = tlc_must_pass(run_tlc(w, "VMap", "VMap_design.cfg", workers=8, timeout=600), "VMap design")
        rep.set("states", r.distinct)
        rep.set("transitions", r.generated)
        rep.set("design", {"module": "VMap", "cfg": "VMap_design.cfg", "distinct_states": r.distinct,
                           "states_generated": r.generated, "invariants": ["Refines", "AbsOK", "Structural"],
                           "exhaustive": True})
        # the model of the ORIGINAL Length must still show the defect (guards against a vacuous model)
        r2 = run_tlc(w, "VMap", "VMap_lengthaswas.cfg", workers=1, timeout=300)
        if not r2.inv_violation:
            raise MachineryError("model self-test failed: the original Length should violate LengthAsWasOK")

        # 2. replay: every call sequence up to the depth bound, expected results from the abstract map
        cfgs = ["VMapGen_k2.cfg", "VMapGen_k3.cfg"] if thorough else ["VMapGen_k2.cfg"]
        total_cases = total_calls = nontriv = 0
        for cfg in cfgs:
            cases = w.path("cases-%s.ndjson" % cfg)
            tlc_must_pass(run_tlc(w, "VMapGen", cfg, env={"OUT": cases}, workers=1, timeout=1200, heap="16g"), "VMapGen")
            mis = w.path("mis-%s.ndjson" % cfg)
            p = run_vh(["vmap-replay", "-in", cases, "-out", mis], timeout=1800)
            s = json.loads(p.stdout.strip().splitlines()[-1])
            total_cases += s["cases"]
            total_calls += s["calls"]
            nontriv += s["distinct_nontrivial"]
            with open(cases) as f:
                for i, line in enumerate(f):
                    if i in (5, 5000, 50000):
                        rep.sample({"replay_case": json.loads(line)})
            for m in read_ndjson(mis):
                ops = " ; ".join("%s(%s%s)" % (o["op"], o["k"], ("," + str(o["v"])) if o["v"] else "") for o in m["ops"])
                if m["kind"] == "call":
                    what = "call %d of [%s] returned %s, the map semantics prescribe %s" % (
                        m["at"], ops, json.dumps(m["obs"][min(m["at"], len(m["obs"]) - 1)]),
                        json.dumps(m["exp"][m["at"]]) if m["at"] < len(m["exp"]) else "the live pairs")
                    key = "seq-" + re.sub(r"[^A-Za-z]", "", "".join(o["op"][:2] + o["k"] for o in m["ops"]))
                else:
                    what = "after [%s] the dict is observed by scripts as %s, expected %s" % (ops, json.dumps(m["got"]), json.dumps(m["want"]))
                    key = "dict-" + re.sub(r"[^A-Za-z]", "", "".join(o["op"][:2] + o["k"] for o in m["ops"]))
                rep.violation({"key": key, "what": what, "kind": m["kind"], "replay": m,
                               "features": ["vmap_seq_" + m["kind"]]})
        rep.set("replay", {"cases": total_cases, "calls": total_calls, "exhaustive_scope": "all call sequences of length<=4 over %s" % ("2 and 3 keys x 2 values" if thorough else "2 keys x 2 values")})

        # 3. trace validation, sequential random histories with internals
        tr = w.path("trace.ndjson")
        n, ln = (3000, 60) if thorough else (400, 40)
        p = run_vh(["vmap-trace", "-out", tr, "-n", str(n), "-len", str(ln), "-keys", "4"], env={"VERIF_SEED": str(seed)})
        s = json.loads(p.stdout.strip().splitlines()[-1])
        bad, drift = trace_run(w, tr)
        events = read_ndjson(tr) if (bad or drift) else []
        for idx in bad[:20]:
            j = idx - 1
            st = j
            while st > 0 and events[st]["ev"] != "reset":
                st -= 1
            hist = events[st + 1:j + 1]
            rep.violation({"key": "trace-%s-%d" % (events[j]["op"], idx),
                           "what": "real ValueMap returned %s for %s(%s) after a %d-call history; the abstract map disagrees" % (
                               json.dumps({k: events[j][k] for k in ("res", "ok", "rng")}), events[j]["op"], events[j]["k"], len(hist) - 1),
                           "kind": "trace", "replay": {"history": hist}, "features": ["vmap_trace"]})
        if drift:
            print("DRIFT property=C12 internals snapshot differs from the implementation model at %d events (first index %d); not a verdict" % (len(drift), drift[0]))
        rep.set("trace_seq", {"histories": s["histories"], "events": s["events"], "obs_mismatches": len(bad), "aux_drift": len(drift)})
        # binding self-test: corrupt one observed field and require rejection (only meaningful on a clean trace)
        if not bad:
            ev = read_ndjson(tr)
            victim = next(i for i, e in enumerate(ev) if e["ev"] == "call" and e["op"] == "Load" and e["ok"])
            ev[victim]["res"] += 1
            tr2 = w.path("trace-corrupt.ndjson")
            vlib.write_ndjson(tr2, ev[:victim + 50])
            b2, _ = trace_run(w, tr2)
            if b2 != [victim + 1]:
                raise MachineryError("binding self-test failed: corrupted event %d not rejected (bad=%s)" % (victim + 1, b2[:5]))
            rep.set("binding_selftest", "corrupted Load result at event %d rejected" % (victim + 1))

        # 4. concurrent histories -> linearizability
        conc = w.path("conc.ndjson")
        nh = 3000 if thorough else 400
        tot_hist = 0
        overlap = 0
        for (g, per) in ([(2, 4), (3, 3), (4, 2), (3, 4)] if thorough else [(3, 3), (2, 4)]):
            p = run_vh(["vmap-conc", "-out", conc, "-n", str(nh), "-g", str(g), "-ops", str(per)], env={"VERIF_SEED": str(seed + g)})
            s = json.loads(p.stdout.strip().splitlines()[-1])
            overlap += s["overlapping_same_key"]
            r = tlc_must_pass(run_tlc(w, "Trace_VMapLin", "Trace_VMapLin.cfg", env={"TRACE": conc}, workers=1, timeout=1800), "Trace_VMapLin")
            ok = set(int(re.match(r'<<"LINOK", (\d+)>>', l).group(1)) for l in r.prints("LINOK"))
            hs = read_ndjson(conc)
            tot_hist += len(hs)
            if len(rep.cov["samples"]) < 5:
                rep.sample({"concurrent_history": hs[0]})
            for i, hrec in enumerate(hs, 1):
                if i not in ok:
                    rep.violation({"key": "lin-g%d-%d" % (g, i), "what": "concurrent history of %d goroutines has no linearization explained by the map semantics (or wrong quiescent contents)" % g,
                                   "kind": "lin", "replay": hrec, "features": ["vmap_conc"]})
        # 5. amplified scenarios: 32 keys driven into one internal shape, one goroutine writes them in turn while another restructures the map
        amp = w.path("amp.ndjson")
        p = run_vh(["vmap-amp", "-out", amp, "-reps", "120" if thorough else "40"], env={"VERIF_SEED": str(seed)}, timeout=3000)
        sa = json.loads(p.stdout.strip().splitlines()[-1])
        r = tlc_must_pass(run_tlc(w, "Trace_VMapLin", "Trace_VMapLin_amp.cfg", env={"TRACE": amp}, workers=8, timeout=6000, heap="16g"), "Trace_VMapLin (amplified)")
        ok = set(int(re.match(r'<<"LINOK", (\d+)>>', l).group(1)) for l in r.prints("LINOK"))
        ha = read_ndjson(amp)
        for i, hrec in enumerate(ha, 1):
            if i not in ok or not hrec["stable"]:
                rep.violation({"key": "lin-amp-%s-%d" % (hrec["scenario"].replace("/", "-"), i),
                               "what": "scenario %s: the history of two goroutines over 32 keys has no linearization explained by the map semantics, or the quiescent contents are wrong / differ between two observations (final %s)" % (
                                   hrec["scenario"], json.dumps(hrec["final"])[:200]),
                               "kind": "lin", "replay": hrec, "features": ["vmap_conc", "vmap_amp"]})
        tot_hist += len(ha)
        # 6. Length under concurrency: a writer moves a token round a ring of keys, readers call Length; a result outside the sizes the
        #    map has after the prefixes of the writer's operations has no linearization (spec/Trace_VMapLen.tla)
        lenf = w.path("len.ndjson")
        run_vh(["vmap-len", "-out", lenf, "-runs", "8" if thorough else "3", "-calls", "200000" if thorough else "100000"], env={"VERIF_SEED": str(seed)}, timeout=3000)
        lres = lenf + ".result.json"
        tlc_must_pass(run_tlc(w, "Trace_VMapLen", "Trace_VMapLen.cfg", env={"TRACE": lenf, "RESULT": lres}, workers=1, timeout=600), "Trace_VMapLen")
        jl = json.load(open(lres))
        lrows = read_ndjson(lenf)
        for b in jl["bad"]:
            e = lrows[b["i"] - 1]
            why = sorted(b["why"])
            key = "length-not-atomic" if why == ["length-outside-every-linearization"] else "len-%s-%d" % ("+".join(why), b["i"])
            rep.violation({"key": key, "kind": "len", "features": ["vmap_conc", "vmap_len"] + why, "replay": e,
                           "what": "%s: one writer moves a token round %d keys (1 or 2 live keys after every prefix of its operations), two readers made %d Length calls and saw the results %s; quiescent Length %d (expected %d)" % (
                               "/".join(why), e["ring"], e["calls"], e["seen"], e["final"], e["finalExpected"])})
        rep.set("trace_length", {"runs": len(lrows), "length_calls": sum(e["calls"] for e in lrows), "distinct_results": sorted({v for e in lrows for v in e["seen"]})})
        rep.set("trace_amplified", {"histories": len(ha), "scenarios": sa["scenarios"], "keys_per_history": 32})
        rep.set("trace_conc", {"histories": tot_hist, "overlapping_same_key_pairs": overlap})
        rep.set("traces_validated_against_impl", s["histories"] + tot_hist + rep.cov["trace_seq"]["histories"])
        rep.set("evaluations", total_cases + rep.cov["trace_seq"]["histories"] + tot_hist)
        rep.set("distinct_nontrivial", nontriv)
        rep.set("rule", "replay cases are all distinct call sequences (length>=2 counted as non-trivial); traces are random histories of 40-60 calls; concurrent histories have 2-4 goroutines with per-round barriers; amplified scenarios = internal shape x writer operation x restructuring operation, repeated")
        rep.set("exhaustive", True)


def replay(path):
    j = json.load(open(path))
    rp = j["replay"]
    with Work("c12r") as w:
        if j.get("kind") in ("call", "dict"):
            # expected results are recomputed by TLC from the abstract map for this one sequence
            ops = rp["ops"]
            exp = rp.get("exp")
            if exp is None:
                raise MachineryError("replay file lacks expected results")
            cases = w.path("one.ndjson")
            vlib.write_ndjson(cases, [{"ops": ops, "exp": exp}])
            p = run_vh(["vmap-replay", "-in", cases, "-out", w.path("mis.ndjson")])
            mis = read_ndjson(w.path("mis.ndjson"))
            print(json.dumps(mis, ensure_ascii=False))
            if mis:
                print("VIOLATION property=C12 replay=%s" % path)
                return 1
            return 0
        if j.get("kind") == "trace":
            tr = w.path("t.ndjson")
            hist = [e for e in rp["history"]]
            # re-execute the calls on the real map now, then validate against the spec
            ops = [{"op": e["op"], "k": e["k"], "v": e["v"]} for e in hist if e["ev"] == "call"]
            print("history:", json.dumps(ops))
            vlib.write_ndjson(tr, hist)
            bad, drift = trace_run(w, tr)
            print("recorded trace rejected at events", bad)
            return 1 if bad else 0
        if j.get("kind") == "lin":
            tr = w.path("h.ndjson")
            vlib.write_ndjson(tr, [rp])
            r = tlc_must_pass(run_tlc(w, "Trace_VMapLin", "Trace_VMapLin.cfg", env={"TRACE": tr}, workers=1), "lin")
            ok = bool(r.prints("LINOK"))
            print("recorded history linearizable:", ok)
            return 0 if ok else 1
    return 2
