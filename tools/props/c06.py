"""C06 - seeded evaluation is reproducible and resumable."""
import json, os
import vlib
from vlib import Work, run_vh, read_ndjson, MachineryError
from .c03 import validate

TAGS = {"not-reproducible", "die-from-foreign-generator", "global-generator-used", "not-resumable", "crash"}


def run(rep, tier, seed):
    rep.assumptions += ["host contract c06 in spec/Trace_Host.tla: Deterministic, OwnStreamOnly, Resumable",
                        "every Roll call is observed by hook H2 with the identity of its source; draws that bypass Roll (array shuffle/rand/randSize) are observed through the state of the package-level generator",
                        "programs cover every dice family, default-sides dice with DefaultDiceSideExpr, dice inside functions, computed values, templates, loops and the random array methods"]
    with Work("c06") as w:
        ev = w.path("ev.ndjson")
        n = 20000 if tier == "thorough" else 1500
        p = run_vh(["c06-exec", "-out", ev, "-n", str(n)], env={"VERIF_SEED": str(seed)}, timeout=3000)
        j = validate(w, ev)
        rows = read_ndjson(ev)
        for b in j["bad"]:
            if len(rep.violations) >= 200:
                break
            e = rows[b["i"] - 1]
            why = sorted(set(b["why"]) & TAGS)
            rep.violation({"key": "%s-%d" % ("+".join(why), abs(hash(e["prog"])) % 100000), "kind": "c06",
                           "what": "%s: program `%s` (DefaultDiceSideExpr=%r): run 1 -> %s seed %s; run 2 (same seed, after activity elsewhere) -> %s seed %s; foreign rolls %d; resumed `%s`: %s vs %s" % (
                               "/".join(why), e["prog"][:140], e["defExpr"], e["a"]["ret"][:40], e["a"]["seed"][:16], e["a2"]["ret"][:40], e["a2"]["seed"][:16],
                               e["a"]["foreign"] + e["r1"]["foreign"], e["p2"][:80], e["r1"]["ret"][:40], e["r2"]["ret"][:40]),
                           "features": ["c06"] + why, "replay": {"event": e}})
        rolled = sum(1 for e in rows if e["a"]["rolls"] > 0)
        if rolled < n // 2:
            raise MachineryError("vacuous run: only %d programs rolled dice" % rolled)
        if not j["bad"]:
            e = json.loads(json.dumps(rows[0])); e["a2"]["seed"] = "00" + e["a2"]["seed"]
            t2 = w.path("corrupt.ndjson"); vlib.write_ndjson(t2, [e])
            if not validate(w, t2)["bad"]:
                raise MachineryError("binding self-test failed")
            rep.set("binding_selftest", "final generator state of the second run altered -> rejected")
        for e in rows[:3]:
            rep.sample({"program": e["prog"][:160], "default_sides": e["defExpr"], "value": e["a"]["ret"][:60], "dice_rolled": e["a"]["rolls"], "resume_program": e["p2"][:100]})
        rep.set("states", j["n"]); rep.set("transitions", j["n"])
        rep.set("experiments", {"n": j["n"], "programs_that_rolled": rolled, "dice_observed": sum(e["a"]["rolls"] + e["r1"]["rolls"] for e in rows)})
        rep.set("traces_validated_against_impl", j["n"])
        rep.set("evaluations", j["n"] * 5)
        rep.set("distinct_nontrivial", len({e["prog"] for e in rows if e["a"]["rolls"] > 0}))
        rep.set("rule", "one experiment = same program twice under one seed with unrelated activity in between + a resumption through GetCurSeed; distinct = distinct dice-rolling programs")


def replay(path):
    j = json.load(open(path)); print(json.dumps(j["replay"]["event"], ensure_ascii=False)[:2500]); return 1
