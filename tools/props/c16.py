"""C16 - disabled syntax stays disabled: flags gate what input can do."""
import json, os, hashlib
from concurrent.futures import ThreadPoolExecutor
import vlib
from vlib import Work, run_vh, run_tlc, tlc_must_pass, read_ndjson, MachineryError

NPROC = 12


def validate(w, evfile):
    res = evfile + ".result.json"
    tlc_must_pass(run_tlc(w, "Trace_Gate", "Trace_Gate.cfg", env={"TRACE": evfile, "RESULT": res}, workers=1, timeout=3000, heap="16g"), "Trace_Gate")
    if not os.path.exists(res):
        raise MachineryError("Trace_Gate did not consume the trace")
    return json.load(open(res))


def plans(w, name, items, runs, simulate=None, seed=None, timeout=1800, cfg="GateMC.cfg"):
    out = w.path(name)
    r = run_tlc(w, "GateMC", cfg, env={"MAXITEMS": items, "MAXRUNS": runs, "OUT": out}, workers=1, timeout=timeout,
                simulate=simulate, depth=(8 * runs + 4) if simulate else None, seed=seed)
    if simulate:
        if "Error:" in r.out or r.inv_violation:
            raise MachineryError("GateMC simulation failed:\n" + r.out[-3000:])
    else:
        tlc_must_pass(r, "GateMC items<=%d runs<=%d" % (items, runs))
    if not os.path.exists(out):
        raise MachineryError("GateMC wrote no behaviours")
    return out, r


def sharded(cmd, outprefix, seed):
    def one(i):
        o = "%s.%d" % (outprefix, i)
        p = run_vh(cmd + ["-out", o, "-shard", "%d/%d" % (i, NPROC)], env={"VERIF_SEED": str(seed)}, timeout=6000)
        return o, json.loads(p.stdout.strip().splitlines()[-1])
    with ThreadPoolExecutor(NPROC) as ex:
        return list(ex.map(one, range(NPROC)))


def run(rep, tier, seed):
    thorough = tier == "thorough"
    rep.assumptions += ["spec/Gate.tla: cfg (VM) / pcfg (parser's copy) machine with macro lines, gated items, st values, End discarding the copy; TLC checks FamilyGated, StmtsGated, NDiceGated, BitGated, CopyDiffers, MacroScoped, CfgStable and GuardAgrees (the look-ahead pass and the real parse see the same flags for every item) on every bounded behaviour; the grammar as it was (GuardSeesSwitches=FALSE) and macro lines inside template blocks in mid-expression (HoleMacros=TRUE, a recorded defect) are required to FAIL GuardAgrees",
                        "an enabling macro is a line `// #EnableDice <family> true` (recognised textually: the check is lenient if that text occurs where it is not a macro)",
                        "spellings of one item per family are those of Gate!Forms; the spellings space is every string up to the stated length over `abcfpdkqm120()+ ` under all 128 flag sets",
                        "families executed may come from code compiled by EARLIER inputs of the same VM that carried an enabling macro (functions, computed values)",
                        "identifier-shaped spellings: d<digit>... is a dice term under every configuration and is excluded from the identifier clause"]
    vlib.build_harness()
    with Work("c16") as w:
        stats = {}
        evs = []
        # (1) the machine, exhaustively, and its behaviours as replay plans
        p1, r1 = plans(w, "plans_a.ndjson", 3 if thorough else 2, 1)
        p2, r2 = plans(w, "plans_b.ndjson", 1, 2)
        p3, r3 = plans(w, "plans_c.ndjson", 4, 3, simulate="num=%d" % (30000 if thorough else 2500), seed=seed)
        p4, r4 = plans(w, "plans_d.ndjson", 2, 2, cfg="GateMC_focus.cfg")
        # the two-pass structure: the grammar as it was (switches of an st value set by an action) and macro lines inside template
        # blocks in mid-expression (a recorded defect of the code) must both be refuted on GuardAgrees
        for cfgname in ("GateMC_estaswas.cfg", "GateMC_holemacro.cfg"):
            rs = run_tlc(w, "GateMC", cfgname, env={"MAXITEMS": 2, "MAXRUNS": 1, "OUT": w.path("unused")}, workers=1, timeout=600)
            if not rs.inv_violation:
                raise MachineryError("Gate: %s should violate GuardAgrees" % cfgname)
        rep.set("states", r1.distinct + r2.distinct + r4.distinct); rep.set("transitions", r1.generated + r2.generated + r4.generated)
        stats["tlc"] = {"exhaustive_items<=%d_runs=1" % (3 if thorough else 2): r1.distinct, "exhaustive_items<=1_runs=2": r2.distinct, "simulated_plans": sum(1 for _ in open(p3))}
        nplans = 0
        stats["tlc"]["focused_macro_x_lazy_histories"] = r4.distinct
        for tag, p in (("a", p1), ("b", p2), ("c", p3), ("d", p4)):
            for o, s in sharded(["gate-replay", "-in", p], w.path("ev_replay_" + tag), seed):
                evs.append(o); nplans += s["plans"]
                stats["replayed_inputs"] = stats.get("replayed_inputs", 0) + s["inputs"]
        stats["plans"] = nplans
        # (2) the spellings space
        L = 4 if thorough else 3
        for o, s in sharded(["gate-spell", "-len", str(L)], w.path("ev_spell"), seed):
            evs.append(o)
            stats["spelling_runs"] = stats.get("spelling_runs", 0) + s["inputs"]
            stats["spellings"] = s["spellings"]
        # (3) programs: repository corpus, generated, mutated around the family letters, in histories with macros
        run_vh(["corpus", w.path("corpus.ndjson")])
        run_vh(["gen", "-out", w.path("gen.ndjson"), "-n", "6000" if thorough else "800", "-depth", "3"], env={"VERIF_SEED": str(seed)})
        for f in ("corpus.ndjson", "gen.ndjson"):
            o = w.path(f + ".ev")
            p = run_vh(["gate-text", "-in", w.path(f), "-out", o, "-cfgs", "8" if thorough else "4"], env={"VERIF_SEED": str(seed)}, timeout=3000)
            stats["program_runs"] = stats.get("program_runs", 0) + json.loads(p.stdout.strip().splitlines()[-1])["inputs"]
            evs.append(o)
        evall = w.path("events.ndjson")
        with open(evall, "w") as out:
            for o in evs:
                out.write(open(o).read())
        j = validate(w, evall)
        rows = read_ndjson(evall)
        drift = []
        for b in j["bad"]:
            if len(rep.violations) >= 300:
                break
            e = rows[b["i"] - 1]
            why = sorted(b["why"])
            on = [k for k, v in e["cfg"].items() if v]
            if why == ["prediction-lazy"]:
                # that macros do not reach lazily compiled text is the specification's account of the mechanism; the property is
                # broken only when a LATER input (or one without the macro) rolls the family, which `family-executed` reports
                drift.append("lazy compilation: input %r flags on=%s predicted %s executed in nested VMs %s" % (e["example"], on, e["lazyPred"], e["lazyObs"]))
                continue
            if why == ["prediction"] and e["example"].startswith("^st"):
                # how an st value is parsed (flags saved, three switches off, restored) is the specification's account of the
                # mechanism, not part of the property: a difference there alone is reported as drift of the model
                drift.append("st value: input %r flags on=%s predicted %s observed %s" % (e["example"], on, e["pred"], e["obs"]))
                continue
            rep.violation({"key": "%s-%s" % ("+".join(why)[:50], hashlib.md5((e["example"] + str(on)).encode()).hexdigest()[:6]), "kind": "c16",
                           "what": "%s: input %r with flags on=%s (%d inputs alike): compiled %s, executed %s, emitted %s, config after %s%s" % (
                               "/".join(why), e["example"][:160], on, e["count"], e["listing"], e["executed"],
                               [(x["c"], "flag on" if x["on"] else "flag OFF") for x in e["emis"]],
                               [k for k, v in e["cfgAfter"].items() if v],
                               (" predicted %s observed %s" % (e["pred"], e["obs"])) if e["hasPred"] else ""),
                           "features": ["c16"] + why, "replay": {"event": e, "why": why}})
        for d in drift[:5]:
            print("DRIFT property=C16 " + d)
        if drift:
            rep.notes.append("model drift (not a violation): %d st-value predictions differ, e.g. %s" % (len(drift), drift[0]))
        total = sum(e["count"] for e in rows)
        gated_off = sum(e["count"] for e in rows if e["identLike"])
        with_macro = sum(e["count"] for e in rows if e["macroOn"])
        fam_seen = set()
        for e in rows:
            fam_seen |= set(e["listing"])
        if not j["bad"] or len(drift) == len(j["bad"]):
            if len(fam_seen) < 9 or with_macro < 100 or gated_off < 100:
                raise MachineryError("vacuous run: classes compiled %s, inputs with macros %d, identifier spellings %d" % (sorted(fam_seen), with_macro, gated_off))
            base = next(e for e in rows if e["hasPred"] and e["pred"] and not e["cfg"]["coc"] and "coc" not in e["macroOn"])
            muts = []
            e1 = json.loads(json.dumps(base)); e1["listing"] = e1["listing"] + ["coc"]; muts.append(("family opcode added to a listing", e1))
            e2 = json.loads(json.dumps(base)); e2["cfgAfter"]["coc"] = True; muts.append(("configuration after the run altered", e2))
            e3 = json.loads(json.dumps(base)); e3["obs"] = e3["obs"] + ["dice:coc"]; muts.append(("observed item sequence altered", e3))
            e4 = json.loads(json.dumps(base)); e4["emis"] = e4["emis"] + [{"c": "block", "on": False}]; muts.append(("emission with its flag off added", e4))
            t2 = w.path("corrupt.ndjson"); vlib.write_ndjson(t2, [m[1] for m in muts])
            r2_ = validate(w, t2)
            if len(r2_["bad"]) != len(muts):
                raise MachineryError("binding self-test failed: %d of %d corrupted events rejected" % (len(r2_["bad"]), len(muts)))
            rep.set("binding_selftest", "; ".join(m[0] for m in muts) + " -> each rejected")
        for e in [x for x in rows if x["hasPred"] and len(x["pred"]) >= 3][:3] + [x for x in rows if x["identLike"]][:2]:
            rep.sample({"flags_on": [k for k, v in e["cfg"].items() if v], "input": e["example"][:200], "predicted": e["pred"], "observed": e["obs"], "alike": e["count"]})
        rep.set("traces_validated_against_impl", total)
        rep.set("runs", dict(stats, inputs_total=total, distinct_observations=len(rows), inputs_with_enabling_macro=with_macro,
                             identifier_shaped_spellings=gated_off, classes_compiled=sorted(fam_seen)))
        rep.set("distinct_nontrivial", len(rows))
        rep.set("rule", "one run = one input on a configured VM; runs with identical observations (everything the specification looks at) are merged; distinct = distinct observations")


def replay(path):
    j = json.load(open(path)); print(json.dumps(j["replay"], ensure_ascii=False)[:3000]); return 1
