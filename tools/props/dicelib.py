"""Shared pipeline for the dice-family properties (C04, C15, parts of C06): TLC plan -> real package with forced
faces -> Trace_Dice; random terms with the real generator -> Trace_Dice; DiceThm model theorems."""
import json, os
import vlib
from vlib import run_tlc, tlc_must_pass, run_vh, read_ndjson, MachineryError


def design(rep, w, tier):
    cfg = "DiceThm_%s.cfg" % tier
    r = tlc_must_pass(run_tlc(w, "DiceThm", cfg, workers=8, timeout=1800, heap="16g"), "DiceThm")
    rep.set("states", r.distinct)
    rep.set("transitions", r.generated)
    rep.set("design", {"module": "DiceThm", "cfg": cfg, "distinct_states": r.distinct,
                       "theorems": ["CommonThm", "CommonBracket", "FateThm", "CocThm", "CocModeBracket"],
                       "note": "each initial state is one (term, face sequence) pair; exhaustive over the grid"})
    r2 = run_tlc(w, "DiceThm", "DiceThm_cocbracket.cfg", workers=1, timeout=300)
    if not r2.inv_violation:
        raise MachineryError("model self-test failed: naive CocBracket should be violated")
    return r


def validate(w, evfile, tag):
    res = evfile + ".result.json"
    r = tlc_must_pass(run_tlc(w, "Trace_Dice", "Trace_Dice.cfg", env={"TRACE": evfile, "RESULT": res}, workers=1,
                              timeout=3600, heap="24g"), "Trace_Dice " + tag)
    if not os.path.exists(res):
        raise MachineryError("Trace_Dice did not consume the whole trace (%s):\n%s" % (tag, r.out[-3000:]))
    j = json.load(open(res))
    return j["n"], j["bad"]


def full_events(evfile, idxs):
    want = set(idxs)
    out = {}
    with open(evfile + ".full") as f:
        for i, line in enumerate(f, 1):
            if i in want:
                out[i] = json.loads(line)
    return out


def describe(e):
    p = e["p"]
    fam = e["fam"]
    if fam == "common":
        ps = "times=%d sides=%d kind=%d cnt=%d min=%d max=%d" % (p["times"], p["sides"], p["kind"], p["cnt"], p["mn"], p["mx"])
    elif fam == "coc":
        ps = "%s n=%d" % ("bonus" if p["bonus"] else "penalty", p["n"])
    elif fam in ("wod", "dc"):
        ps = "pool=%d add=%d sides=%d thr=%d ge=%s" % (p["pool"], p["add"], p["sides"], p["thr"], p["ge"])
    else:
        ps = ""
    faces = [r["f"] for r in e["rolls"]][:24]
    return "%s %s via %s%s mode=%d faces=%s -> total=%s text=%r%s" % (
        fam, ps, e["via"], (" `%s`" % e["src"]) if e["src"] else "", e["mode"], faces, e["total"], e["text"][:80],
        (" err=%r" % e["errtext"][:60]) if (e["err"] or e["panic"]) else "")


def run_plan(rep, w, tier, seed, bracket):
    plan = w.path("plan.ndjson")
    tlc_must_pass(run_tlc(w, "DiceGen", "DiceGen_%s.cfg" % tier, env={"OUT": plan}, workers=1, timeout=3600, heap="24g"), "DiceGen")
    ev = w.path("ev.ndjson")
    args = ["dice-replay", "-in", plan, "-out", ev] + (["-bracket"] if bracket else [])
    p = run_vh(args, env={"VERIF_SEED": str(seed)}, timeout=3600)
    s = json.loads(p.stdout.strip().splitlines()[-1])
    n, bad = validate(w, ev, "replay")
    return ev, s, n, bad


def run_random(rep, w, tier, seed):
    ev = w.path("rnd.ndjson")
    n = 60000 if tier == "thorough" else 6000
    p = run_vh(["dice-trace", "-out", ev, "-n", str(n)], env={"VERIF_SEED": str(seed)}, timeout=3600)
    s = json.loads(p.stdout.strip().splitlines()[-1])
    nn, bad = validate(w, ev, "random")
    return ev, s, nn, bad


def report_bad(rep, evfile, bad, tags, prop, origin):
    """tags: set of failure tags this property owns; others are ignored here (owned by another property)."""
    mine = [b for b in bad if set(b["why"]) & tags]
    full = full_events(evfile, [b["i"] for b in mine[:400]])
    seen = 0
    for b in mine[:400]:
        e = full[b["i"]]
        why = sorted(set(b["why"]) & tags)
        key = "%s-%s-%s-%s" % (e["fam"], e["via"], "mode%d" % e["mode"], "+".join(why))
        rep.violation({"key": key, "what": "%s: %s [%s]" % ("/".join(why), describe(e), origin), "kind": "dice",
                       "features": ["dice_" + e["fam"]] + why, "replay": {"event": e, "why": why}})
    return len(mine)


def selftest(w, evfile, tags_expected):
    """corrupt the total of one accepted event; Trace_Dice must flag exactly it."""
    rows = []
    with open(evfile) as f:
        for i, line in enumerate(f):
            e = json.loads(line)
            rows.append(e)
            if not e["err"] and e["mode"] == 0 and e["fam"] == "common" and len(e["rolls"]) >= 2:
                break
            if i > 200000:
                raise MachineryError("self-test: no suitable event")
    rows = rows[-50:]
    victim = len(rows) - 1
    rows[victim]["total"] += 1
    t2 = evfile + ".corrupt"
    vlib.write_ndjson(t2, rows)
    n, bad = validate(w, t2, "selftest")
    hit = [b for b in bad if b["i"] == victim + 1 and "total" in b["why"]]
    if not hit:
        raise MachineryError("binding self-test failed: corrupted total at event %d not rejected" % (victim + 1))
    return "corrupted total of event %d rejected with %s" % (victim + 1, hit[0]["why"])
