"""C13 - string literals and templates reproduce text exactly."""
import json, hashlib
import vlib
from vlib import Work, run_vh, run_tlc, tlc_must_pass, read_ndjson, MachineryError
from . import langlib


def run(rep, tier, seed):
    thorough = tier == "thorough"
    rep.assumptions += ["escape rules and their round-trip theorem are spec/Lexis.tla; template semantics are spec/Lang.tla (tmpl nodes)",
                        "the delimiter of back-quote / 0x1E literals has no documented escape: such texts are not representable in that style (skipped, counted)",
                        "template literal segments of the Lang cases are escaped by the harness with the minimal policy (trusted)"]
    with Work("c13") as w:
        pre = w.path("lx")
        r = tlc_must_pass(run_tlc(w, "LexisGen", "LexisGen_%s.cfg" % tier, env={"OUT": pre}, workers=1, timeout=3000, heap="16g"), "LexisGen (round-trip theorem)")
        mmf = w.path("lxmm.ndjson")
        p = run_vh(["lexis-exec", "-in", pre, "-out", mmf], timeout=3000)
        s = json.loads(p.stdout.strip().splitlines()[-1])
        for m in read_ndjson(mmf)[:200]:
            rep.violation({"key": "literal-%s-style%d-%s" % (m["kind"], m["style"], m["policy"]), "kind": "literal",
                           "what": "literal %r (style %d, %s escapes) evaluated to %r, expected %r" % (m["src"], m["style"], m["policy"], m["got"], m["exp"]),
                           "features": ["lexis"], "replay": m})
        # templates with the Lang oracle
        a = w.path("asts.ndjson")
        n = 30000 if thorough else 3000
        run_vh(["lang-gen", "-out", a, "-n", str(n), "-depth", "4" if thorough else "3", "-hist", "2", "-tmpl"], env={"VERIF_SEED": str(seed)})
        pre2, rs = langlib.oracle(w, a, "t", parts=12)
        st, mm = langlib.execute(w, pre2, "t", seed)
        asts = {json.loads(l)["id"]: json.loads(l) for l in open(a)} if mm else {}
        for m in mm[:200]:
            deep = m["id"] >= 900019
            if deep and m["kind"] in ("error-unexpected",):
                continue   # nesting at or beyond the limit may be rejected (never wrong)
            if m["kind"] == "panic":
                continue   # a crash is C01's verdict; here only wrong text counts
            h = hashlib.md5(m["plain"].encode()).hexdigest()[:8]
            rep.violation({"key": "template-%s-%s" % (m["kind"], h), "kind": "template",
                           "what": "%s: %r: %s; expected %s got %s" % (m["kind"], m["plain"][:200], m["what"][:160], json.dumps(m["exp"], ensure_ascii=False)[:100], json.dumps(m["got"], ensure_ascii=False)[:100]),
                           "features": ["template"], "replay": {"history": asts.get(m["id"]), "mismatch": m}})
        if s["cases"] < 1000:
            raise MachineryError("vacuous literal run")
        if not rep.violations:
            # binding self-test: a wrong expected text must be reported
            t = w.path("self"); vlib.write_ndjson(t + ".0", [{"src": ["SQ", "a", "SQ"], "exp": ["a", "a"], "style": 1, "policy": "min", "ok": True, "rt": True}])
            pp = run_vh(["lexis-exec", "-in", t, "-out", w.path("selfmm")])
            if json.loads(pp.stdout.strip().splitlines()[-1])["mismatches"] == 0:
                raise MachineryError("binding self-test failed")
            rep.set("binding_selftest", "literal 'a' with expected text 'aa' reported as mismatch")
        rows = read_ndjson(pre + ".3")
        for c in rows[5:400:170]:
            rep.sample({"literal_symbols": c["src"], "expected_text_symbols": c["exp"], "style": c["style"], "policy": c["policy"]})
        rep.set("states", r.distinct + sum(x.distinct for x in rs))
        rep.set("transitions", r.generated + sum(x.generated for x in rs))
        rep.set("literals", {"cases": s["cases"], "unrepresentable_skipped": s["unrepresentable_skipped"], "exhaustive": True,
                             "scope": "all texts of length <= %d over 16 symbols x 4 styles x 2 escape policies, alone and inside a surrounding evaluation" % (4 if thorough else 3)})
        rep.set("templates", {"histories": st.get("histories", 0), "programs_run": st.get("runs", 0), "values_compared": st.get("val_ok", 0), "errors_compared": st.get("err_ok", 0), "nesting_depths": "1..23"})
        rep.set("traces_validated_against_impl", s["cases"] + st.get("runs", 0))
        rep.set("evaluations", s["cases"] + st.get("runs", 0))
        rep.set("distinct_nontrivial", s["cases"] + st.get("val_ok", 0))
        rep.set("rule", "literal cases: distinct (text, style, policy); template cases: programs whose value was compared with the TLA+ semantics")
        rep.set("exhaustive", True)


def replay(path):
    j = json.load(open(path))
    rp = j["replay"]
    with Work("c13r") as w:
        if j.get("kind") == "literal":
            t = w.path("one"); vlib.write_ndjson(t + ".0", [{"src": rp["srcSyms"], "exp": vlib_chars(rp["exp"]), "style": rp["style"], "policy": rp["policy"], "ok": True, "rt": True}])
            pp = run_vh(["lexis-exec", "-in", t, "-out", w.path("mm")])
            print(pp.stdout); return 1 if json.loads(pp.stdout.strip().splitlines()[-1])["mismatches"] else 0
        f = w.path("one.ndjson"); vlib.write_ndjson(f, [rp["history"]])
        pre, _ = langlib.oracle(w, f, "one", parts=1)
        st, mm = langlib.execute(w, pre, "one", 1)
        print(json.dumps(mm, ensure_ascii=False)[:1500])
        return 1 if mm else 0


def vlib_chars(s):
    return list(s)
