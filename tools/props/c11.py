"""C11 - independent VMs are race-free and behave exactly as when run alone."""
import json, os, re, hashlib, subprocess
import vlib
from vlib import Work, run_vh, run_tlc, tlc_must_pass, read_ndjson, MachineryError


def validate(w, evfile):
    res = evfile + ".result.json"
    tlc_must_pass(run_tlc(w, "Trace_Shared", "Trace_Shared.cfg", env={"TRACE": evfile, "RESULT": res}, workers=1, timeout=3000), "Trace_Shared")
    if not os.path.exists(res):
        raise MachineryError("Trace_Shared did not consume the trace")
    return json.load(open(res))


RACE = re.compile(r"WARNING: DATA RACE\n(.*?)\n==================", re.S)
NAME = r"((?:\(\*?[A-Za-z0-9_]+\)\.)?[A-Za-z0-9_.]+)"      # Func, Type.Method, (*Type).Method, init.N.funcM
FRAME = re.compile(r"^\s+(?:github\.com/sealdice/dicescript|main|verif/harness)\." + NAME + r"\(", re.M)


def race_reports(text):
    out = []
    for m in RACE.finditer(text):
        body = m.group(1)
        funcs = []
        for f in FRAME.findall(body):
            if f not in funcs:
                funcs.append(f)
        lib = [f for f in re.findall(r"^\s+github\.com/sealdice/dicescript\." + NAME + r"\(", body, re.M)]
        out.append({"ev": "c11r", "functions": funcs[:12], "library_functions": sorted(set(lib))[:12], "text": body[:1500]})
    return out


def run(rep, tier, seed):
    thorough = tier == "thorough"
    rep.assumptions += ["spec/Shared.tla: N VMs, package-level errLang and globalRng; Begin/Parse/Draw/End at the granularity of the gates (hook H5); TLC checks Isolation, NoRace, NoLostDraw for the repaired design (AsWas=FALSE) and requires both to FAIL for the pinned design (AsWas=TRUE); lazily compiled default-sides code is private to a VM (LazyPrivate), and the design with one process-wide cache (SharedCache=TRUE) is required to FAIL Isolation and NoRace",
                        "schedule replay: every complete schedule of 2 VMs (all language / seeded-unseeded assignments) written by TLC is executed with goroutines parked at the gates parse.lang / parse.done and released in the order of the schedule; thorough adds a sample of the 3-VM schedules",
                        "free-running part: harness built with -race; 8 (thorough 16) goroutines, each creating its own VMs (seeded and unseeded, three languages, random family flags, and for a quarter of the evaluations DisableBitwiseOp / DisableNDice / IgnoreDiv0 / DefaultDiceSideExpr drawn too), syntax-error programs of every message kind, dice programs (with and without sides, in function bodies and computed values), generated programs; values are never shared",
                        "the concurrent runs are the first thing the process does (lazily initialised state is first touched concurrently); 'in isolation' is taken literally: every reference value comes from a process of its own in which no other VM has existed",
                        "a seeded VM must return exactly what it returns alone (value, error text, process text); an unseeded VM the same kind of outcome and identical error texts",
                        "the race detector only sees executed interleavings; absence of unknown shared state is not proved"]
    with Work("c11") as w:
        r1 = tlc_must_pass(run_tlc(w, "Shared", "Shared.cfg", workers=8, timeout=900), "Shared")
        r1b = tlc_must_pass(run_tlc(w, "Shared", "Shared_langs.cfg", workers=8, timeout=900), "Shared (three languages)")
        for cfg in ("Shared_aswas.cfg", "Shared_aswas_race.cfg", "Shared_sharedcache.cfg", "Shared_sharedcache_race.cfg"):
            r = run_tlc(w, "Shared", cfg, workers=4, timeout=600)
            if not r.inv_violation:
                raise MachineryError("Shared with AsWas=TRUE / SharedCache=TRUE should violate its invariants (%s)" % cfg)
        rep.set("states", r1.distinct + r1b.distinct); rep.set("transitions", r1.generated + r1b.generated)
        # (1) schedules
        sched = w.path("sched.ndjson")
        tlc_must_pass(run_tlc(w, "SharedMC", "SharedMC.cfg", env={"OUT": sched}, workers=1, timeout=900), "SharedMC")
        evs = []
        p = run_vh(["c11-sched", "-in", sched, "-out", w.path("s2.ndjson")], env={"VERIF_SEED": str(seed)}, timeout=3000)
        n2 = json.loads(p.stdout.strip().splitlines()[-1])["schedules"]
        evs.append(w.path("s2.ndjson"))
        n3 = 0
        if thorough:
            sched3 = w.path("sched3.ndjson")
            tlc_must_pass(run_tlc(w, "SharedMC", "SharedMC3.cfg", env={"OUT": sched3}, workers=1, timeout=3000), "SharedMC3")
            p = run_vh(["c11-sched", "-in", sched3, "-out", w.path("s3.ndjson"), "-every", "40"], env={"VERIF_SEED": str(seed)}, timeout=6000)
            n3 = json.loads(p.stdout.strip().splitlines()[-1])["schedules"]
            evs.append(w.path("s3.ndjson"))
        # (2) free-running goroutines under the race detector
        run_vh(["gen", "-out", w.path("gen.ndjson"), "-n", "600", "-depth", "2"], env={"VERIF_SEED": str(seed)})
        plain = vlib.build_harness()
        exe = vlib.build_harness(race=True)
        env = vlib.goenv(); env.update(VERIF_SEED=str(seed), GORACE="halt_on_error=0 history_size=4")
        reports = []
        nfree = 0
        for rnd in range(4 if thorough else 1):
            o = w.path("free%d.ndjson" % rnd)
            env["VERIF_SEED"] = str(seed + rnd)
            pr = subprocess.run([exe, "c11-free", "-out", o, "-goroutines", "16" if thorough else "8", "-rounds", "400" if thorough else "150", "-gen", w.path("gen.ndjson"), "-isoexe", plain],
                                capture_output=True, text=True, env=env, timeout=3000)
            if not os.path.exists(o) or "runs" not in pr.stdout:
                raise MachineryError("race-detector run failed rc=%s:\n%s" % (pr.returncode, pr.stderr[-3000:]))
            nfree += json.loads(pr.stdout.strip().splitlines()[-1])["runs"]
            reports += race_reports(pr.stderr)
            evs.append(o)
        # races inside the harness itself are machinery failures, not findings
        mine = [r for r in reports if not r["library_functions"]]
        if mine:
            raise MachineryError("the race detector reports a race outside the library (harness bug):\n" + mine[0]["text"])
        # one event per distinct report
        seen = {}
        for r in reports:
            seen.setdefault(",".join(r["library_functions"]), r)
        vlib.write_ndjson(w.path("races.ndjson"), list(seen.values()))
        evs.append(w.path("races.ndjson"))
        evall = w.path("events.ndjson")
        with open(evall, "w") as out:
            for o in evs:
                out.write(open(o).read())
        j = validate(w, evall)
        rows = read_ndjson(evall)
        for b in j["bad"]:
            if len(rep.violations) >= 300:
                break
            e = rows[b["i"] - 1]
            why = sorted(b["why"])
            if e["ev"] == "c11r":
                what = "data-race: the race detector reports unsynchronised accesses in %s\n%s" % (e["library_functions"], e["text"][:900])
                key = "race-" + "-".join(e["library_functions"])[:80]
            elif e["ev"] == "c11s":
                d = next(v for v in e["vms"] if (v["conc"] != v["iso"]))
                what = "%s: schedule %s: the VM with language %s (%s) running %r returned %r alone and %r in the schedule" % (
                    "/".join(why), e["order"], d["lang"], "seeded" if d["seeded"] else "unseeded", d["src"], d["iso"]["text"][:160], d["conc"]["text"][:160])
                key = "sched-" + hashlib.md5(json.dumps(e["order"]).encode()).hexdigest()[:6]
            else:
                what = "%s: goroutine %d, language %s (%s) running %r returned %r alone and %r concurrently" % (
                    "/".join(why), e["goroutine"], e["lang"], "seeded" if e["seeded"] else "unseeded", e["src"][:120], e["iso"]["text"][:160], e["conc"]["text"][:160])
                key = "free-" + hashlib.md5(e["src"].encode()).hexdigest()[:6]
            rep.violation({"key": key, "kind": "c11", "what": what, "features": ["c11"] + why, "replay": {"event": e, "why": why}})
        if n2 < 1000 or nfree < 1000:
            raise MachineryError("vacuous run: schedules %d, free runs %d" % (n2, nfree))
        sch = [e for e in rows if e["ev"] == "c11s"]
        errs = sum(1 for e in sch for v in e["vms"] if v["iso"]["err"])
        if errs < 500:
            raise MachineryError("vacuous run: only %d syntax-error evaluations in the schedules" % errs)
        if not j["bad"]:
            base = next(e for e in sch if any(v["seeded"] and v["iso"]["err"] for v in e["vms"]))
            e1 = json.loads(json.dumps(base))
            v = next(v for v in e1["vms"] if v["seeded"] and v["iso"]["err"]); v["conc"]["text"] = v["conc"]["text"].replace("语法错误", "Syntax Error", 1) + " "
            e2 = {"ev": "c11r", "functions": ["Roll"], "library_functions": ["Roll"], "text": "synthetic"}
            t2 = w.path("corrupt.ndjson"); vlib.write_ndjson(t2, [e1, e2])
            rr = validate(w, t2)
            if len(rr["bad"]) != 2:
                raise MachineryError("binding self-test failed")
            rep.set("binding_selftest", "error text of one VM of a schedule altered; a synthetic race report -> each rejected")
        for e in sch[:3]:
            rep.sample({"schedule": e["order"], "vms": [{"lang": v["lang"], "seeded": v["seeded"], "program": v["src"], "outcome": v["conc"]["text"][:80]} for v in e["vms"]]})
        rep.set("traces_validated_against_impl", j["n"])
        rep.set("runs", {"schedules_2_vms": n2, "schedules_3_vms": n3, "syntax_error_evaluations_in_schedules": errs, "free_running_evaluations_under_race_detector": nfree,
                         "race_reports": len(reports)})
        rep.set("distinct_nontrivial", n2 + n3 + len({e["src"] for e in rows if e["ev"] == "c11f"}))
        rep.set("rule", "one schedule = one complete interleaving of the model executed on real goroutines; one free run = one evaluation on a goroutine-private VM compared with the same evaluation alone")


def replay(path):
    j = json.load(open(path)); print(json.dumps(j["replay"], ensure_ascii=False)[:3000]); return 1
