#!/usr/bin/env python3
"""Single source of truth for MANIFEST.json: run after adding/changing a check."""
import json, os, sys
V = os.path.dirname(os.path.dirname(os.path.abspath(__file__)))
props = [json.loads(l) for l in open(os.path.join(V, "properties.jsonl"))]

HOOK_COMMITS = ["8e07e59", "c4fd81d"]

CHECKS = {}


def check(pid, category, text, note, technique, design_ref, thorough=True):
    CHECKS[pid] = {
        "property_id": pid,
        "quick_cmd": "./check %s --tier quick" % pid,
        **({"thorough_cmd": "./check %s --tier thorough" % pid} if thorough else {}),
        "evidence_file": "/verif/evidence/%s.json" % pid,
        "replay_cmd_template": "./check %s --replay {path}" % pid,
        "engine": "tla-model-based",
        "level_claimed": {"category": category, "text": text, "design_ref": design_ref},
        "level_note": note,
        "technique": technique,
    }


check("C12", "model_checking",
      "TLC proves on spec/VMap.tla that the read/dirty/expunged implementation machine refines the abstract map for "
      "every call and every history (complete product state space, 3 keys x 2 values); the machine and the abstract map "
      "are bound to the real ValueMap by replaying every TLC-enumerated call sequence up to length 4 (return values, "
      "Length, Range set, plus script-level dict len/truthiness/==) and by validating recorded sequential traces "
      "(incl. an internals snapshot) and concurrent goroutine histories (linearizability search in TLC).",
      "Trusted: the Go projection of return values to small ints, the ticket counter taken inside the call window, TLC. "
      "Concurrent interleavings the Go scheduler never produces are only covered at model level.",
      "TLA+ refinement check (TLC) + exhaustive replay of spec-enumerated call sequences + trace validation / linearizability search of recorded histories",
      "DESIGN.md section 4 C12")

check("C04", "model_checking",
      "Game rules of all dice families are functions of the faces in spec/Dice.tla; TLC checks range/partition/pick theorems over "
      "every (term, face sequence) of a grid (DiceThm), enumerates a replay plan of every face sequence for every parameter tuple "
      "(DiceGen), the harness forces those faces through hook H2 into the real Roll* functions and the VM syntax, and TLC "
      "(Trace_Dice) recomputes the rule from the observed Roll calls and compares total, displayed dice (kept|dropped, rounds, marks), "
      "number of dice rolled, face ranges and error-on-illegal-parameters; the same validation runs on seeded real-generator traces with large parameters.",
      "Trusted: the harness's parser of annotation text and TLC. Sides/sums < 2^30; larger dice belong to C05.",
      "TLA+ rule spec + exhaustive forced-face replay (TLC plan) + TLC trace validation of real rolls", "DESIGN.md section 4 C04")

check("C05", "proof",
      "RollWord.tla (mask / fast check / rejection loop, parametric in the word width): Apalache discharges the uniformity "
      "conditions (accepted words split evenly over residues, fast path never accepts the biased tail, accept <=> below ceiling, "
      "face in range) for ALL n and ALL words at widths 64 and 32; TLC counts pre-images literally at widths 6-10; the words the real "
      "PCG source produced (recovered by cloning the source) and the faces the real Roll returned are checked by Apalache for conformance with the same module.",
      "Trusted: uniformity of PCG words, Go's integer arithmetic, Apalache/z3. S4 (power-of-two masking) only by TLC at small widths.",
      "TLA+ proof obligations (Apalache, symbolic 64-bit) + TLC exhaustive small widths + Apalache conformance of recorded generator words", "DESIGN.md section 4 C05")

check("C15", "model_checking",
      "TLC proves on DiceThm that 'every die at its lowest/highest face' brackets every outcome of every XdY/Fate/CoC term and that the "
      "bounds equal the closed forms; every TLC-enumerated (term, faces) outcome forced into the real package is compared with the real "
      "min- and max-mode results of the same term, mode runs are checked die by die (face 1 / sides, no generator movement), and random "
      "monotone expressions are evaluated in the three modes against the spec's closed-form bounds.",
      "Trusted: annotation parser, TLC. Monotone = sums of coef*term with coef>=0.",
      "TLA+ theorems (TLC) + forced-face replay bracketed by real min/max-mode runs + TLC trace validation of expressions", "DESIGN.md section 4 C15")

check("C08", "model_checking",
      "spec/ByteVM.tla is the VM at the level of control and stack shape (one action per opcode, every conditional jump both ways, "
      "saved block heights, dice/wod/dc/annotation state); TLC explores ALL paths of every listing the real compiler emits (main code and "
      "nested function/computed bodies, obtained through the read-only accessor) for the repository corpus, generated programs and "
      "valid-prefix-plus-broken-tail inputs, reporting underflow, out-of-bounds or unpatched jumps, a pc reached with two block depths, "
      "and roll/annotation state used before set-up.  The opcode table is validated on every run against dispatch steps recorded from the "
      "real VM (hook H1, TLC trace validation); if an opcode's observed stack effect differs, the all-paths check is re-run with the observed effect.",
      "Trusted: TLC, the accessor's listing. Heights capped at 40 (sound for underflow). Inputs are sampled; paths per input are exhaustive.",
      "TLA+ all-paths model checking (TLC) of real compiler output + TLC trace validation of recorded VM dispatch steps", "DESIGN.md section 4 C08")

check("C02", "model_checking",
      "spec/Lang.tla + Values.tla are a definitional semantics of the documented core (numbers, strings, templates, arrays, dicts, ranges, "
      "indexing/slicing, variables, computed values, all operators, if/while/break/continue, functions, built-ins, dice in min/max mode "
      "and with forced faces) over ASTs, with an explicit heap (aliasing) and frame stack; spec/Unparse.tla is the published grammar seen "
      "from the AST side (minimal parentheses, asymmetric where the grammar is).  TLC evaluates both for an exhaustive small scope (operator "
      "tables over an 18-literal vocabulary, every ordered pair of binary operators in both nestings) and for generated histories of programs "
      "sharing one VM; the harness writes the tokens with random legal whitespace, runs them on the real VM and compares value-or-error and all variables after every program.",
      "Trusted: token joiner, literal escaper, value projection, TLC. Out of domain (dropped, counted): |ints| > 2^20, non-dyadic floats, depth > 6, multi-key dict printing.",
      "TLA+ definitional semantics evaluated by TLC as oracle + replay on the real VM (exhaustive small scope and random histories)", "DESIGN.md section 4 C02")

check("C03", "model_checking",
      "spec/Trace_Host.tla states the host contract of Run: Matched followed by RestInput is the input, Matched alone is consumed entirely "
      "and reproduces Matched, and value, process text, variables, generator state and st callbacks of Run(input) equal those of Run(Matched) "
      "on an identical fresh VM; when the consumed text is a program of the Lang oracle its value must be the one spec/Lang.tla prescribes "
      "(so both runs being wrong in the same way is caught too).  The harness performs the paired experiment for oracle programs, the "
      "repository corpus and generated programs, each followed by constructs that break off (literal, call, index, block, template, operator "
      "prefixes) after ';', newline, blank or nothing, under random flag configurations; TLC validates every recorded experiment.",
      "Trusted: value projection, whitespace-insensitive comparison of the process text, TLC. Tails are sampled from a fixed family plus truncations.",
      "TLC trace validation of paired Run(input)/Run(Matched) experiments + TLA+ Lang oracle for the consumed program", "DESIGN.md section 4 C03")

check("C19", "model_checking",
      "spec/ErrPos.tla defines line and column of a byte offset over rune sequences, the message table and the header per language; TLC "
      "enumerates ALL inputs up to length 4/5 over an alphabet of brackets, quotes, operators, line feeds, blanks and multi-byte runes, the "
      "harness parses each under the three language settings, and TLC (Trace_ErrPos) validates every error text the real parser returns: "
      "offset within the input and on a rune boundary, reported line/column equal to those of the offset (every 'L:C (O):' prefix of the "
      "error list), quoted line is that line (or its truncation), caret under that column, header and message lines only in the configured "
      "language and from the message table.  Truncations of the repository's multi-line inputs, long lines and multi-byte prefixes are added.",
      "Trusted: the harness's parser of error texts and its rendering of the 60-byte truncation; TLC. The cross-VM language part is checked with C11's schedule replay.",
      "TLA+ position/message spec + exhaustive small-alphabet input enumeration (TLC) + TLC trace validation of real error texts", "DESIGN.md section 4 C19")

check("C13", "model_checking",
      "spec/Lexis.tla: texts over a 16-symbol alphabet rich in quotes, backslashes, braces, CR/LF, 0x1E and multi-byte characters; Escape per "
      "quote style and policy, Unescape, and the round-trip theorem checked by TLC for all texts up to length 3/4; every (text, style, policy) "
      "literal TLC wrote is evaluated by the real parser alone and inside a surrounding evaluation and compared byte for byte.  Templates are "
      "Lang AST nodes: TLC (Lang.tla) prescribes the concatenation of literal segments and string forms of holes (expressions or statement "
      "blocks, assignments inside holes, nested templates, templates as elements/arguments/operands, nesting depth 1..23) and the variables "
      "afterwards; the real VM must agree, or reject nesting beyond the limit - never produce another text.",
      "Trusted: symbol-to-byte mapping, TLC; template literal segments are escaped by the harness. Unrepresentable texts (delimiter without escape) are skipped and counted.",
      "TLA+ escape/unescape theorem (TLC) + exhaustive literal replay + TLA+ Lang oracle for templates", "DESIGN.md section 4 C13")

check("C18", "model_checking",
      "spec/StCmd.tla: an edit list (all assignments - juxtaposed, ':' or '=', '*:' , '*k:', computed '&name=' - or all modifications + += -= -) "
      "over tables of names (CJK, latin, namespaced with ':', quoted with blank or trailing digit) and values (ints, floats, d1 dice, "
      "parenthesised expressions), with blanks and the separators '', ' ', ','; Spell gives an accepted spelling, Expected the callback sequence. "
      "TLC enumerates all single edits and strided families of pairs (and triples), the harness runs every spelling (followed by nothing or by "
      "non-edit text) with a recording callback and compares count, order, names byte for byte, values, sign normalisation, operators, the "
      "expression text and the rest text.",
      "Trusted: symbolic-name substitution, value projection. The st value grammar is exercised through the value table, not through arbitrary expressions.",
      "TLA+ spelling/expectation spec + TLC-enumerated replay of edit lists on the real parser/VM", "DESIGN.md section 4 C18")

check("C10", "model_checking",
      "spec/Codec.tla gives the document space an old or foreign producer can send - every tag (known, internal 20/21, unknown, missing, "
      "string/null/float/negative) x every payload shape (absent, null, scalars, arrays, objects with wrong keys, right keys with wrong "
      "types, nulls inside containers, unknown native names, nested documents) - and the well-formedness predicate (payload type promised "
      "by the tag, recursively; no nil children; native functions callable).  TLC enumerates the space (depth 0 completely, containers "
      "over every depth-0 document), the harness renders each to JSON, decodes it as a value and as a variable-map entry with the real "
      "package, projects the result and runs a battery of 8 API calls and 36 scripts under recover; TLC (Trace_Codec) checks every "
      "record: rejected, or well-formed and crash-free.  Damaged and truncated encoder output and recursion through restored functions "
      "are added; a fatal crash of the process is attributed to its document.",
      "Trusted: the JSON renderer and the projection of decoded values; TLC. Byte-level malformed JSON is only sampled.",
      "TLA+ document-space enumeration (TLC) + replay through the real decoder + TLC trace validation of projected values and battery outcomes", "DESIGN.md section 4 C10")

check("C09", "model_checking",
      "Host contract c09 in spec/Trace_Host.tla: after ANY top-level statement prefix of a generated program (crash point) the variables are "
      "serialised, restored into a fresh VM carrying the same generator state, and the remaining statements plus follow-up programs (calls of "
      "restored functions through the lazy-compile path, computed values, variables) run on both VMs: restore must accept its own snapshot, "
      "the restored variables must be structurally equal, and every later outcome (value, process text, variables, rolls, callbacks) must "
      "be equal.  Values JSON cannot represent (reference cycles through arrays, dicts and computed attributes; non-finite floats) must "
      "report an error and never crash; a fatal crash of the process is attributed.  TLC validates every recorded experiment.",
      "Trusted: value projection, TLC. Sharing between containers is lost by a tree format: recorded as a known finding and tagged separately.",
      "TLC trace validation of snapshot/restore experiments at every crash point of TLA+-generated programs", "DESIGN.md section 4 C09")

check("C06", "model_checking",
      "Host contract c06 in spec/Trace_Host.tla (the generator of a VM is a stream identified by its seed: Deterministic - the outcome is a "
      "function of program, configuration, variables and stream position; OwnStreamOnly - every die of a seeded VM comes from that VM's "
      "generator; Resumable - a state captured with GetCurSeed and installed in a fresh context continues the sequence).  The harness runs "
      "each generated dice program (all families, default-sides dice with DefaultDiceSideExpr, dice in functions, computed values, templates, "
      "loops, shuffle/rand/randSize) twice under one seed with activity on other seeded and unseeded VMs and on the global generator in "
      "between, resumes through GetCurSeed, logs every Roll call with the identity of its source (hook H2) and the state of the global "
      "generator; TLC validates every experiment.",
      "Trusted: hook H2's source identity, TLC. Statistical quality of the generator is C05's concern.",
      "TLC trace validation of paired seeded runs, resumption and per-die source identity", "DESIGN.md section 4 C06")

check("C14", "model_checking",
      "spec/Trace_Detail.tla states what the calculation-process text is: the source with every slot (dice term of any family, sub-rolled count, "
      "variable, computed value) replaced by value[annotation]; the result is the expression over the shown values; each annotation lists the dice "
      "that were rolled and they total the value (rules of spec/Dice.tla); requesting the text twice gives the same text and changes neither Ret, "
      "variables nor generator state.  The harness generates expressions (random spacing, line breaks, multi-byte names, remark statements), runs them "
      "on seeded VMs with hooks H1/H2 and records source chunks, spans, rolls per slot and the real text cut along the chunks; TLC validates every event.",
      "Trusted: the cutter of the text along generated chunks, the annotation parser, roll attribution by mark.detail steps, TLC. Expressions are sampled.",
      "TLC trace validation of recorded real executions against the TLA+ text/dice specification", "DESIGN.md section 4 C14")

check("C16", "model_checking",
      "spec/Gate.tla is the configuration machine: the VM's cfg, the parser's copy pcfg, macro lines writing the copy only, st values parsed with "
      "saved/restored flags, End discarding the copy, and the two passes of the parser (look-ahead guard and real parse: GuardAgrees); each item of an input becomes dice / identifier / statement / operator / stop / error according "
      "to the flags in force.  TLC checks FamilyGated, StmtsGated, NDiceGated, BitGated, CopyDiffers, MacroScoped and CfgStable on all bounded behaviours "
      "and writes every behaviour (exhaustive: 128 flag sets x item sequences; simulated: histories of 3 inputs) as a replay plan; the harness runs each "
      "input on the real VM and TLC (Trace_Gate) compares what every item became with the listing, and checks for every run - also the complete spellings "
      "space over `abcfpdkqm120()+ ` x 128 flag sets, the repository corpus, generated and mutated programs in histories with macros - that no gated "
      "instruction is emitted while its flag is off in the parser's copy (hook H4), that the copy is opened only by a macro of the same input, that "
      "listing and executed instructions (hook H1, all depths) hold no disabled class, that identifier-shaped family spellings load as identifiers, and that Config is unchanged after the run.",
      "Trusted: the classification of opcodes into gated classes, the textual recognition of macro lines, TLC. Spellings beyond the alphabet/length are sampled through the corpus/generator only.",
      "TLA+ machine model-checked by TLC + replay of all bounded TLC behaviours on the real VM + TLC trace validation of recorded parses/runs", "DESIGN.md section 4 C16")

check("C17", "model_checking",
      "spec/Ext.tla is the custom dice protocol (one pending slot, speculative matcher runs at any position, Prepare/Consume/Commit for operands of the final parse, "
      "Exec -> exactly one handler call with copied groups, copied result); TLC checks CodeFaithful, InvokeOncePerExec and UsedByCopy on all bounded behaviours and shows "
      "that CodeFaithful fails without the offset check.  The same statements are checked by TLC (Trace_Host c17p) on recorded runs of generated programs whose operands "
      "are matching regex/stream syntaxes in every kind of operand position: compiled operands = written operands (text, groups, payload), dispatches (hook H1) and handler "
      "calls alternate with pristine groups, evaluation counts, value = the program with the values written out, nothing changes when the handler later mutates what it returned. "
      "Transparency (c17t): histories of corpus/generated programs on a plain and an identically seeded VM with never-acting parsers, pass-through hooks and identity rewriters give identical outcomes.",
      "Trusted: the harness's extension implementations and expected evaluation counts, value projection, TLC. Programs are sampled.",
      "TLA+ protocol model checked by TLC + TLC trace validation of recorded handler/dispatch events and paired runs", "DESIGN.md section 4 C17")

check("C07", "model_checking",
      "spec/Budget.tla is the metered machine against an adversarial program (any instruction sequence: plain, dice batches, exploding pools round by round, calls): "
      "TLC checks Accounting, FailClosed, BoundedWork, Monotone and Terminates, and that BoundedWork fails when rounds are not charged.  Adversarial program families "
      "(unbounded loops and recursion, huge counts, exploding pools in every mode, doubling strings/containers, sources around every built-in capacity, small parse budgets) "
      "run in child processes with time/memory ceilings under budgets 300 and 30000; hooks H1/H2 meter every dispatched instruction (with the counter at that moment) and "
      "every die; TLC (Trace_Budget) checks for every run: termination, no resource exhaustion, no crash, work <= 1.5*limit+200, work <= 2*ops+200 at every dispatch, "
      "work <= ops at every dispatch (every instruction and die charged before it happens), the counter the host reads after the run accounts for the work (also when a nested evaluation ends in an error), "
      "counter monotone, over-limit => error, and for capacity cases value = the full program's value or an error.",
      "Trusted: the meters, the ceilings (45 s, 1.5 GB), the slack constants, the generator's expected values, TLC. Families are designed, not exhaustive.",
      "TLA+ metered machine checked by TLC + TLC trace validation of metered real runs of adversarial programs", "DESIGN.md section 4 C07")

check("C01", "model_checking",
      "spec/Total.tla defines the operand space - every operator, dice form, postfix form, method, built-in and st form as a template with holes, 22 value classes split where a "
      "crash can depend on the split - and the totality contract (every call of the observation sequence returns value or error; panic, hang and process death are not outcomes). "
      "TLC writes the complete product (228k cases), a second product with cyclic values in every hole (20k), and a nesting product (31 self-containing or repeatable constructs x depths 25..120000 x closed/open); the harness places each case in 14 nesting contexts, pre-loads the representatives and performs Parse, RunAfterParsed, "
      "GetDetailText, Run again, GetDetailText twice, GetAsmText, Ret.ToString/ToRepr/ToJSON, Matched/RestInput, RunExpr under recover on VMs that serve several inputs, under "
      "configurations drawn from all flag/mode/default-sides/budget combinations, in worker processes with a hang watchdog and restart after process death; byte-level inputs "
      "(random bytes, token soups, truncations, splices) go through the same executor; TLC (Trace_Total) checks every recorded sequence against the contract.",
      "Trusted: the harness's recover/watchdog/restart logic, TLC. 'All byte strings' is sampled; the operand product is complete for the listed templates and classes only.",
      "TLC-enumerated complete operand product replayed on the real API + TLC trace validation of recorded observation sequences (byte-level part: exploration)", "DESIGN.md section 4 C01")

check("C11", "model_checking",
      "spec/Shared.tla models N VMs and the package-level state they could share (error language, global generator) at the granularity of the gates: TLC checks Isolation, "
      "NoRace and NoLostDraw for the repaired design and requires them to fail for the pinned one and for a design with a process-wide cache of lazily compiled code; every complete 2-VM schedule (all language and seeded/unseeded assignments; "
      "thorough: a sample of the 3-VM schedules) is executed on real goroutines parked at the gates (hook H5) and released in schedule order, and TLC (Trace_Shared) compares each "
      "VM's value / error text / process text with its isolated run.  Free-running goroutines with private VMs run the same programs in a -race build of the harness: every race "
      "report is a violation, and every evaluation is compared with the same evaluation alone in a process of its own (the concurrent runs come first, in a cold process).",
      "Trusted: the Go race detector, the gate scheduler of the harness, TLC. Interleavings finer than the gates are only exercised by the free-running part; unknown shared state is not excluded.",
      "TLA+ interleaving model checked by TLC + replay of all TLC schedules on gated goroutines + race-detector runs validated by TLC", "DESIGN.md section 4 C11")

NOT_YET = "check under construction in this build phase (planned in DESIGN.md section 4); not yet claimed"

m = {
    "version": 1,
    "setup_cmd": "./setup.sh",
    "hooks": {"guard": "verif",
              "enable": "go build -tags verif (harness module /verif/harness, replace github.com/sealdice/dicescript => /repo)",
              "baseline_off_cmd": "cd /repo && GOFLAGS=-mod=mod GOPROXY=off GOSUMDB=off go test -vet=off -count=1 -json ./...",
              "source_commits": HOOK_COMMITS, "add_only": True},
    "engines": [{"name": "tla-model-based", "path": "/verif/spec", "serves_properties": sorted(CHECKS),
                 "kind_free_text": "explicit TLA+ specification (spec/*.tla) checked with TLC/Apalache, bound to the Go code by replay of TLC-generated cases and by TLC validation of traces recorded from the real package (harness/, tools/)"}],
    "checks": [CHECKS[k] for k in sorted(CHECKS)],
    "notes": "All checks: ./check <id> [--tier quick|thorough] [--replay path]; exit 0 held / 1 VIOLATION / 2 machinery failure. Known findings: /verif/known_findings.json.",
    "not_applicable": [{"property_id": p["id"], "reason": NOT_YET} for p in props if p["id"] not in CHECKS],
}
json.dump(m, open(os.path.join(V, "MANIFEST.json"), "w"), indent=1, ensure_ascii=False)
print("MANIFEST: %d checks, %d not_applicable" % (len(m["checks"]), len(m["not_applicable"])))
