#!/usr/bin/env python3
"""Single source of truth for MANIFEST.json: run after adding/changing a check."""
import json, os, sys
V = os.path.dirname(os.path.dirname(os.path.abspath(__file__)))
props = [json.loads(l) for l in open(os.path.join(V, "properties.jsonl"))]

HOOK_COMMITS = ["8e07e59"]

CHECKS = {}


def check(pid, category, text, note, technique, design_ref, thorough=True):
    CHECKS[pid] = {
        "property_id": pid,
        "quick_cmd": "./check %s --tier quick" % pid,
        **({"thorough_cmd": "./check %s --tier thorough" % pid} if thorough else {}),
        "evidence_file": "/verif/evidence/%s.json" % pid,
        "replay_cmd_template": "./check %s --replay {path}" % pid,
        "engine": "tla-model-based",
        "level_claimed": {"category": category, "text": text, "design_ref": design_ref},
        "level_note": note,
        "technique": technique,
    }


check("C12", "model_checking",
      "TLC proves on spec/VMap.tla that the read/dirty/expunged implementation machine refines the abstract map for "
      "every call and every history (complete product state space, 3 keys x 2 values); the machine and the abstract map "
      "are bound to the real ValueMap by replaying every TLC-enumerated call sequence up to length 4 (return values, "
      "Length, Range set, plus script-level dict len/truthiness/==) and by validating recorded sequential traces "
      "(incl. an internals snapshot) and concurrent goroutine histories (linearizability search in TLC).",
      "Trusted: the Go projection of return values to small ints, the ticket counter taken inside the call window, TLC. "
      "Concurrent interleavings the Go scheduler never produces are only covered at model level.",
      "TLA+ refinement check (TLC) + exhaustive replay of spec-enumerated call sequences + trace validation / linearizability search of recorded histories",
      "DESIGN.md section 4 C12")

NOT_YET = "check under construction in this build phase (planned in DESIGN.md section 4); not yet claimed"

m = {
    "version": 1,
    "setup_cmd": "./setup.sh",
    "hooks": {"guard": "verif",
              "enable": "go build -tags verif (harness module /verif/harness, replace github.com/sealdice/dicescript => /repo)",
              "baseline_off_cmd": "cd /repo && GOFLAGS=-mod=mod GOPROXY=off GOSUMDB=off go test -vet=off -count=1 -json ./...",
              "source_commits": HOOK_COMMITS, "add_only": True},
    "engines": [{"name": "tla-model-based", "path": "/verif/spec", "serves_properties": sorted(CHECKS),
                 "kind_free_text": "explicit TLA+ specification (spec/*.tla) checked with TLC/Apalache, bound to the Go code by replay of TLC-generated cases and by TLC validation of traces recorded from the real package (harness/, tools/)"}],
    "checks": [CHECKS[k] for k in sorted(CHECKS)],
    "notes": "All checks: ./check <id> [--tier quick|thorough] [--replay path]; exit 0 held / 1 VIOLATION / 2 machinery failure. Known findings: /verif/known_findings.json.",
    "not_applicable": [{"property_id": p["id"], "reason": NOT_YET} for p in props if p["id"] not in CHECKS],
}
json.dump(m, open(os.path.join(V, "MANIFEST.json"), "w"), indent=1, ensure_ascii=False)
print("MANIFEST: %d checks, %d not_applicable" % (len(m["checks"]), len(m["not_applicable"])))
