#!/usr/bin/env python3
"""Confirm a seeded change independently in a scratch worktree: demo passes without the patch, fails with it, suite passes with it.
Usage: seedverify.py <name> <patch.diff> <demo_test.go> <meta.txt> <PROP>  -> stores /verif/seeded/<name>/ when confirmed"""
import subprocess, sys, os, shutil, json, re
name, patch, demo, meta, prop = sys.argv[1:6]
env = dict(os.environ, GOFLAGS="-mod=mod", GOPROXY="off", GOSUMDB="off", GOTOOLCHAIN="local")
wt = "/tmp/seedv_" + name
subprocess.run(["git", "-C", "/repo", "worktree", "remove", "--force", wt], capture_output=True)
subprocess.run(["git", "-C", "/repo", "worktree", "add", "-q", "--detach", wt, "HEAD"], check=True)
res = {}
try:
    run = re.findall(r"func (Test\w+)\(", open(demo).read())
    pat = "^(" + "|".join(run) + ")$"
    shutil.copy(demo, os.path.join(wt, "zz_seed_demo_test.go"))
    a = subprocess.run(["go", "test", "-vet=off", "-count=1", "-run", pat, "."], cwd=wt, env=env, capture_output=True, text=True)
    res["demo_without_patch"] = "pass" if a.returncode == 0 else "FAIL"
    ap = subprocess.run(["git", "-C", wt, "apply", patch], capture_output=True, text=True)
    res["patch_applies"] = ap.returncode == 0
    b = subprocess.run(["go", "test", "-vet=off", "-count=1", "-run", pat, "."], cwd=wt, env=env, capture_output=True, text=True)
    res["demo_with_patch"] = "pass" if b.returncode == 0 else "FAIL"
    os.remove(os.path.join(wt, "zz_seed_demo_test.go"))
    c = subprocess.run(["go", "test", "-vet=off", "-count=1", "./..."], cwd=wt, env=env, capture_output=True, text=True)
    res["suite_with_patch"] = "pass" if c.returncode == 0 else "FAIL"
    d = subprocess.run(["go", "build", "-tags", "verif", "./..."], cwd=wt, env=env, capture_output=True, text=True)
    res["builds_with_hooks"] = d.returncode == 0
finally:
    subprocess.run(["git", "-C", "/repo", "worktree", "remove", "--force", wt], capture_output=True)
print(json.dumps(res))
ok = res.get("demo_without_patch") == "pass" and res.get("demo_with_patch") == "FAIL" and res.get("suite_with_patch") == "pass" and res.get("patch_applies")
if ok:
    d = "/verif/seeded/" + name
    os.makedirs(d, exist_ok=True)
    shutil.copy(patch, d + "/patch.diff")
    shutil.copy(demo, d + "/demo_test.go.txt")
    json.dump({"property": prop, "needs": open(meta).read(), "confirmed": res,
               "ran": "demo test in a scratch worktree without/with the patch; full suite with the patch; checks via tools/seedrun.py"},
              open(d + "/meta.json", "w"), indent=1, ensure_ascii=False)
    print("stored", d)
sys.exit(0 if ok else 1)
