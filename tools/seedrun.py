#!/usr/bin/env python3
"""Apply a seeded change (/verif/seeded/<name>/patch.diff or a given diff) to /repo, confirm the suite passes, run the given
checks (quick, then thorough if quick misses), revert.  Usage: seedrun.py <patch.diff> <PROP>[,<PROP>...] [--thorough-only]"""
import subprocess, sys, os, time
patch, props = sys.argv[1], sys.argv[2].split(",")
env = dict(os.environ, GOFLAGS="-mod=mod", GOPROXY="off", GOSUMDB="off", GOTOOLCHAIN="local")
assert subprocess.run(["git", "-C", "/repo", "status", "--porcelain"], capture_output=True, text=True).stdout.strip() == "", "repo dirty"
a = subprocess.run(["git", "-C", "/repo", "apply", patch], capture_output=True, text=True)
if a.returncode != 0:
    print("patch does not apply:", a.stderr); sys.exit(3)
try:
    t = subprocess.run(["go", "test", "-vet=off", "-count=1", "."], cwd="/repo", env=env, capture_output=True, text=True)
    print("suite:", "PASS" if t.returncode == 0 else "FAIL")
    for pr in props:
        for tier in (["thorough"] if "--thorough-only" in sys.argv else ["quick"] if "--quick-only" in sys.argv else ["quick", "thorough"]):
            t0 = time.time()
            c = subprocess.run(["/verif/check", pr, "--tier", tier], capture_output=True, text=True, env=env)
            lines = [l for l in c.stdout.splitlines() if l.startswith(("VIOLATION", "KNOWN", "DRIFT", "  what"))]
            print("check %s %s rc=%d (%.0fs)" % (pr, tier, c.returncode, time.time() - t0)); print("\n".join(lines[:6]), flush=True)
            if c.returncode == 2: print(c.stderr[-1500:])
            if c.returncode == 1: break
finally:
    subprocess.run(["git", "-C", "/repo", "checkout", "--", "."])
    subprocess.run(["git", "-C", "/repo", "clean", "-fdq"])
