#!/usr/bin/env python3
import argparse, importlib, os, sys, traceback
sys.path.insert(0, os.path.dirname(os.path.abspath(__file__)))
import vlib


def main():
    ap = argparse.ArgumentParser()
    ap.add_argument("prop")
    ap.add_argument("--tier", default=os.environ.get("VERIF_TIER", "quick"), choices=["quick", "thorough"])
    ap.add_argument("--replay", default=None)
    a = ap.parse_args()
    seed = int(os.environ.get("VERIF_SEED", "1") or 1)
    prop = a.prop.upper()
    try:
        mod = importlib.import_module("props." + prop.lower())
    except ImportError as e:
        print("no check for property %s: %s" % (prop, e), file=sys.stderr)
        sys.exit(2)
    try:
        if a.replay:
            rc = mod.replay(a.replay)
            sys.exit(rc)
        rep = vlib.Report(prop, a.tier, seed)
        mod.run(rep, a.tier, seed)
        sys.exit(rep.finish())
    except vlib.MachineryError as e:
        print("MACHINERY-FAILURE property=%s: %s" % (prop, e), file=sys.stderr)
        sys.exit(2)
    except Exception:
        traceback.print_exc()
        sys.exit(2)


if __name__ == "__main__":
    main()
