#!/usr/bin/env python3
"""Regenerates the two generated tables of DESIGN.md section 6b (repaired defects, seeded changes) from known_findings.json and seeded/*/meta.json."""
import json, glob, os, re
V = os.path.dirname(os.path.dirname(os.path.abspath(__file__)))
j = json.load(open(os.path.join(V, "known_findings.json")))
fixed = [f for f in j["findings"] if f["status"] == "fixed"]
rows = ["| id | property | commit | what failed |", "|---|---|---|---|"]
for f in fixed:
    what = f["what"]
    if f.get("commit") and f["commit"] in what:
        what = what.split(f["commit"], 1)[-1].strip()
    rows.append("| %s | %s | %s | %s |" % (f["id"], f["property"], f.get("commit", ""), what.replace("|", "/")[:320]))
fixed_tbl = "\n".join(rows)
rows = ["| seed | property | what it needs to manifest | caught by |", "|---|---|---|---|"]
for d in sorted(glob.glob(os.path.join(V, "seeded", "*"))):
    m = json.load(open(os.path.join(d, "meta.json")))
    first = (m.get("needs", "") or "").strip().split("\n")[0]
    rows.append("| %s | %s | %s | %s |" % (os.path.basename(d), m.get("property"), first[:230].replace("|", "/"), (m.get("detected_by", "") or "").replace("|", "/")))
seeds_tbl = "\n".join(rows)
p = os.path.join(V, "DESIGN.md"); s = open(p).read()


def put(s, name, body):
    b, e = "<!-- %s-BEGIN -->" % name, "<!-- %s-END -->" % name
    if b in s:
        return s[:s.index(b) + len(b)] + "\n" + body + "\n" + s[s.index(e):]
    return None


for name, body, header in (("FIXED-TABLE", fixed_tbl, "| id | property | commit | what failed |"), ("SEEDS-TABLE", seeds_tbl, "| seed | property | what it needs to manifest | caught by |")):
    r = put(s, name, body)
    if r is None:
        # first time: wrap the existing table in markers
        i = s.index(header)
        k = i
        while True:
            nl = s.index("\n", k)
            if not s[nl + 1:nl + 2] == "|":
                break
            k = nl + 1
        s = s[:i] + "<!-- %s-BEGIN -->\n" % name + body + "\n<!-- %s-END -->" % name + s[nl:]
    else:
        s = r
open(p, "w").write(s)
print("tables regenerated: %d repaired defects, %d seeds" % (len(fixed), len(glob.glob(os.path.join(V, "seeded", "*")))))
