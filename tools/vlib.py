"""Shared machinery for the /verif checks: building the harness from /repo's working tree,
running TLC / Apalache under timeouts in scratch directories, evidence files, known findings,
and the VIOLATION / KNOWN-FINDING reporting contract.

Exit codes: 0 = property held on everything explored (known findings are printed, not failed),
1 = a violation observed on the real code that is not a listed known finding,
2 = the machinery itself failed (build error, tool timeout, unparsable output, nothing exercised).
"""
import json, os, re, shutil, subprocess, sys, tempfile, time, hashlib

VERIF = os.path.dirname(os.path.dirname(os.path.abspath(__file__)))
REPO = os.environ.get("VERIF_REPO", "/repo")
SPEC = os.path.join(VERIF, "spec")
BIN = os.path.join(VERIF, ".bin")
VH = os.path.join(BIN, "vh")
TLA_JAR = "/opt/veriftools/tla/tla2tools.jar"
TLA_CP = TLA_JAR + ":/opt/veriftools/tla/CommunityModules-deps.jar"


class MachineryError(Exception):
    pass


def goenv():
    e = dict(os.environ)
    e.update(GOFLAGS="-mod=mod", GOPROXY="off", GOSUMDB="off", GOTOOLCHAIN="local")
    return e


def log(*a):
    print(*a, file=sys.stderr, flush=True)


_built = {}


def build_harness(race=False):
    """(Re)build the Go harness against REPO's current working tree with hooks enabled."""
    key = "race" if race else "plain"
    if key in _built:
        return _built[key]
    os.makedirs(BIN, exist_ok=True)
    out = VH + ("-race" if race else "")
    hdir = os.path.join(VERIF, "harness")
    modfile = None
    # go.sum of the repository is the source of truth for module hashes
    try:
        shutil.copy(os.path.join(REPO, "go.sum"), os.path.join(hdir, "go.sum"))
    except OSError:
        pass
    args = ["go", "build", "-tags", "verif"]
    tmpd = None
    if REPO != "/repo":
        tmpd = tempfile.mkdtemp(prefix="vhmod-")
        gm = open(os.path.join(hdir, "go.mod")).read().replace("=> /repo", "=> " + REPO)
        modfile = os.path.join(tmpd, "go.mod")
        open(modfile, "w").write(gm)
        shutil.copy(os.path.join(hdir, "go.sum"), os.path.join(tmpd, "go.sum"))
        args += ["-modfile=" + modfile]
        out = out + "-" + hashlib.md5(REPO.encode()).hexdigest()[:8]
    if race:
        args += ["-race"]
    args += ["-o", out, "."]
    t0 = time.time()
    p = subprocess.run(args, cwd=hdir, env=goenv(), capture_output=True, text=True)
    if tmpd:
        shutil.rmtree(tmpd, ignore_errors=True)
    if p.returncode != 0:
        raise MachineryError("harness build failed (hooks or repository do not compile):\n" + p.stdout + p.stderr)
    log("[build] harness%s built in %.1fs" % (" (race)" if race else "", time.time() - t0))
    _built[key] = out
    return out


def run_vh(args, stdin=None, timeout=900, race=False, env=None, check=True, capture=True):
    exe = build_harness(race)
    e = goenv()
    if env:
        e.update(env)
    try:
        p = subprocess.run([exe] + list(args), input=stdin, capture_output=capture, text=True, timeout=timeout, env=e)
    except subprocess.TimeoutExpired:
        raise MachineryError("harness timed out: vh " + " ".join(args[:4]))
    if check and p.returncode not in (0,):
        raise MachineryError("harness failed rc=%s: vh %s\n%s" % (p.returncode, " ".join(args[:6]), (p.stderr or "")[-4000:]))
    return p


class Work:
    """Scratch directory outside /repo and /verif, removed on exit."""

    def __init__(self, tag):
        base = os.environ.get("VERIF_SCRATCH", tempfile.gettempdir())
        self.dir = tempfile.mkdtemp(prefix="verif-%s-" % tag, dir=base)

    def path(self, *p):
        return os.path.join(self.dir, *p)

    def __enter__(self):
        return self

    def __exit__(self, *a):
        if not os.environ.get("VERIF_KEEP"):
            shutil.rmtree(self.dir, ignore_errors=True)


TLC_SUMMARY = re.compile(r"(\d+) states generated, (\d+) distinct states found")


class TLCResult:
    def __init__(self, rc, out, wall):
        self.rc, self.out, self.wall = rc, out, wall
        m = TLC_SUMMARY.findall(out)
        self.generated = int(m[-1][0]) if m else 0
        self.distinct = int(m[-1][1]) if m else 0
        self.ok = "Model checking completed. No error has been found." in out or \
                  ("Finished in" in out and "Error:" not in out and rc == 0)
        self.inv_violation = "is violated" in out
        self.printed = [l for l in out.splitlines() if l.startswith('"VP:') or l.startswith("VP:")]

    def prints(self, tag):
        """Lines printed with PrintT(<<"tag", ...>>) come out as <<"tag", ...>>."""
        return [l for l in self.out.splitlines() if l.startswith('<<"%s"' % tag)]


def run_tlc(work, module, cfg, env=None, workers="auto", timeout=600, extra=(), heap="8g", stack="512m",
            simulate=None, depth=None, seed=None, dfs=False, coverage=False, deadlock=False):
    """Run TLC on spec/<module>.tla with spec/cfg/<cfg> inside the scratch dir `work`."""
    wd = tempfile.mkdtemp(prefix="tlc-%s-" % cfg.replace("/", "_"), dir=work.dir)
    for f in os.listdir(SPEC):
        if f.endswith(".tla"):
            shutil.copy(os.path.join(SPEC, f), wd)
    cfgsrc = os.path.join(SPEC, "cfg", cfg)
    shutil.copy(cfgsrc, os.path.join(wd, module + ".cfg"))
    jopts = ["-Xss" + stack, "-Xmx" + heap, "-XX:+UseParallelGC", "-Dfile.encoding=UTF-8",
             "-Djava.io.tmpdir=" + wd]
    if dfs:
        jopts.append("-Dtlc2.tool.queue.IStateQueue=StateDeque")
    cmd = ["java"] + jopts + ["-cp", TLA_CP, "tlc2.TLC", "-metadir", os.path.join(wd, "meta"),
                             "-workers", str(workers), "-config", module + ".cfg", "-maxSetSize", "100000000",
                             "-noGenerateSpecTE"]
    if not deadlock:
        cmd += ["-deadlock"]  # -deadlock DISABLES deadlock checking
    if coverage:
        cmd += ["-coverage", "1"]
    if simulate:
        cmd += ["-simulate", simulate]
    if depth:
        cmd += ["-depth", str(depth)]
    if seed is not None:
        cmd += ["-seed", str(seed)]
    cmd += list(extra) + [module]
    e = dict(os.environ)
    e.pop("JAVA_TOOL_OPTIONS", None)
    if env:
        e.update({k: str(v) for k, v in env.items()})
    t0 = time.time()
    try:
        p = subprocess.run(cmd, cwd=wd, env=e, capture_output=True, text=True, timeout=timeout)
    except subprocess.TimeoutExpired:
        subprocess.run(["pkill", "-f", "tlc2.TL[C].*" + os.path.basename(wd)], capture_output=True)
        raise MachineryError("TLC timed out after %ss on %s/%s" % (timeout, module, cfg))
    r = TLCResult(p.returncode, p.stdout + p.stderr, time.time() - t0)
    r.wd = wd
    if "java.lang.OutOfMemoryError" in r.out or "StackOverflowError" in r.out:
        raise MachineryError("TLC resource failure on %s/%s:\n%s" % (module, cfg, r.out[-3000:]))
    return r


def tlc_must_pass(r, what):
    if not r.ok:
        raise MachineryError("%s: TLC did not complete cleanly (rc=%s)\n%s" % (what, r.rc, r.out[-6000:]))
    return r


def read_ndjson(path):
    out = []
    with open(path) as f:
        for l in f:
            l = l.strip()
            if l:
                out.append(json.loads(l))
    return out


def write_ndjson(path, rows):
    with open(path, "w") as f:
        for r in rows:
            f.write(json.dumps(r, ensure_ascii=False, separators=(",", ":")) + "\n")


# ---------------------------------------------------------------- findings

class Findings:
    def __init__(self):
        p = os.path.join(VERIF, "known_findings.json")
        self.items = json.load(open(p))["findings"] if os.path.exists(p) else []

    def known(self, prop):
        return [f for f in self.items if f["property"] == prop and f.get("status") == "known"]

    def match(self, prop, viol):
        """viol: dict with keys such as kind, feature(s), panic func, symbol ... Returns the finding or None."""
        for f in self.known(prop):
            m = f.get("match", {})
            if _match(m, viol):
                return f
        return None


def _match(m, v):
    k = m.get("kind")
    if k == "feature":
        return m["feature"] in v.get("features", [])
    if k == "panic":
        if v.get("kind") != "panic":
            return False
        if "func" in m and not re.search(m["func"], v.get("func", "")):
            return False
        if "via" in m and not re.search(m["via"], v.get("via", "")):
            return False
        if "msg" in m and not re.search(m["msg"], v.get("msg", "")):
            return False
        return True
    if k == "key":
        return m["key"] == v.get("key")
    if k == "regex":
        return re.search(m["regex"], v.get("key", "")) is not None
    return False


# ---------------------------------------------------------------- reporting

class Report:
    def __init__(self, prop, tier, seed, level="model_checking"):
        self.prop, self.tier, self.seed, self.level = prop, tier, seed, level
        self.t0 = time.time()
        self.violations = []   # dicts
        self.known_seen = {}   # finding id -> count
        self.cov = {"samples": []}
        self.assumptions = []
        self.findings = Findings()
        self.notes = []

    def add(self, key, n=1):
        self.cov[key] = self.cov.get(key, 0) + n

    def set(self, key, v):
        self.cov[key] = v

    def sample(self, s, cap=6):
        if len(self.cov["samples"]) < cap:
            self.cov["samples"].append(s)

    def violation(self, viol):
        """viol: {'key': short id, 'what': text, 'features': [...], 'replay': {...}} observed on the real code."""
        f = self.findings.match(self.prop, viol)
        if f is not None:
            self.known_seen[f["id"]] = self.known_seen.get(f["id"], 0) + 1
            return False
        self.violations.append(viol)
        return True

    def finish(self):
        wall = time.time() - self.t0
        rc = 0
        for fid, n in sorted(self.known_seen.items()):
            f = [x for x in self.findings.items if x["id"] == fid][0]
            print("KNOWN-FINDING: property=%s %s (%s; seen %d times)" % (self.prop, f["what"], fid, n))
        shown = set()
        for i, v in enumerate(self.violations):
            k = v.get("key", str(i))
            if k in shown or len(shown) >= 10:
                continue
            shown.add(k)
            rdir = os.path.join(VERIF, "replays", self.prop)
            os.makedirs(rdir, exist_ok=True)
            name = re.sub(r"[^A-Za-z0-9_.-]", "_", k)[:80] or "v%d" % i
            path = os.path.join(rdir, "%s.json" % name)
            json.dump({"property": self.prop, "tier": self.tier, "seed": self.seed, **v}, open(path, "w"),
                      ensure_ascii=False, indent=1, default=str)
            print("VIOLATION property=%s replay=%s" % (self.prop, path))
            print("  what: %s" % v.get("what", ""))
            rc = 1
        ev = {
            "property_id": self.prop, "tier": self.tier, "seed": int(self.seed), "level": self.level,
            "coverage": self.cov, "assumptions": self.assumptions, "wall_s": round(wall, 2),
            "violations": len(self.violations),
        }
        self.cov["known_findings_seen"] = self.known_seen
        if self.notes:
            self.cov["notes"] = self.notes
        os.makedirs(os.path.join(VERIF, "evidence"), exist_ok=True)
        json.dump(ev, open(os.path.join(VERIF, "evidence", self.prop + ".json"), "w"), ensure_ascii=False, indent=1,
                  default=str)
        log("[%s] tier=%s seed=%s wall=%.1fs violations=%d known=%s" % (
            self.prop, self.tier, self.seed, wall, len(self.violations), dict(self.known_seen)))
        return rc
