#!/usr/bin/env python3
"""Calibration helper: apply a textual mutation to /repo's working tree, confirm the unit tests still pass,
run a check (quick by default), then revert the working tree.  Usage:
  trymut.py <prop> <file> <old> <new> [--tier thorough] [--notest]"""
import subprocess, sys, os
prop, f, old, new = sys.argv[1:5]
tier = "thorough" if "--thorough" in sys.argv else "quick"
p = os.path.join("/repo", f)
s = open(p).read()
if s.count(old) != 1:
    print("pattern occurs %d times" % s.count(old)); sys.exit(3)
env = dict(os.environ, GOFLAGS="-mod=mod", GOPROXY="off", GOSUMDB="off", GOTOOLCHAIN="local")
try:
    open(p, "w").write(s.replace(old, new))
    if "--notest" not in sys.argv:
        t = subprocess.run(["go", "test", "-vet=off", "-count=1", "."], cwd="/repo", env=env, capture_output=True, text=True)
        print("suite:", "PASS" if t.returncode == 0 else "FAIL (mutant killed by suite)")
        if t.returncode != 0:
            print(t.stdout[-1500:])
    for pr in prop.split(","):
        c = subprocess.run(["/verif/check", pr, "--tier", tier], capture_output=True, text=True, env=env)
        lines = [l for l in c.stdout.splitlines() if l.startswith(("VIOLATION", "KNOWN", "DRIFT", "  what"))]
        print("check %s rc=%d" % (pr, c.returncode)); print("\n".join(lines[:8]))
        if c.returncode == 2: print(c.stderr[-2000:])
finally:
    subprocess.run(["git", "-C", "/repo", "checkout", "--", "."])
